#!/bin/sh
# Build the fact extractor and warm the dependency build + fact cache (offline).
set -e
cd "$(dirname "$0")"
export CARGO_NET_OFFLINE=true
(cd driver && cargo +nightly build --release --offline)
python3 -m engine.extract default >/dev/null
echo "setup ok"

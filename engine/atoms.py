import os
import sys
"""E3: canonical linear atoms over typed access paths, entailment, and scenario pruning.

A *scenario* is a conjunction of atoms describing the situation a guard must refuse (e.g.
`commitment_number + 2 > EnforcementState.next_holder_commit_num`).  The rule holds when, after
cutting every CFG edge whose branch condition is contradicted by the scenario, no sink (success
return, secret release, state write ...) is reachable.  This is abstract interpretation of the
dominating conditions in a small relational (zone-like) domain: no path enumeration, no solver.
It is insensitive to how the guard is spelled (a > b+1, a >= b+2, !(a <= b+1), swapped operands,
early return vs nested if, guard moved into a must-called helper).
"""
import re
from fractions import Fraction

from .cfg import FnView, render, strip_ref, peel, typed_name, ok_discr, POLICY_ERROR_FNS

# ------------------------------------------------------------------ linear forms


ARITH = ("int", "ovf", "+", "-", "*")


def strip_r(e):
    while e[0] == "ref":
        e = e[1]
    return e


def linear(e):
    """expr -> (coeffs: {sym: int}, const: int).  Non-linear sub-terms become opaque symbols."""
    e = strip_r(e)
    if e[0] == "let":
        inner = strip_r(e[2])
        if inner[0] in ARITH:
            return linear(inner)
        return {sym(e): 1}, 0
    k = e[0]
    if k == "int":
        return {}, e[1]
    if k == "ovf":
        return linear(e[1])
    if k == "+":
        a, ca = linear(e[1])
        b, cb = linear(e[2])
        return _add(a, b, 1), ca + cb
    if k == "-":
        a, ca = linear(e[1])
        b, cb = linear(e[2])
        return _add(a, b, -1), ca - cb
    if k == "*":
        a, ca = linear(e[1])
        b, cb = linear(e[2])
        if not a:
            return {s: c * ca for s, c in b.items()}, ca * cb
        if not b:
            return {s: c * cb for s, c in a.items()}, ca * cb
    if k == "named":
        # named integer constants that were not evaluated stay symbolic
        return {sym(e): 1}, 0
    return {sym(e): 1}, 0


def _add(a, b, sign):
    out = dict(a)
    for s, c in b.items():
        out[s] = out.get(s, 0) + sign * c
        if out[s] == 0:
            del out[s]
    return out


def sym(e):
    """symbol identity: (full rendering, typed name or None)"""
    e = strip_r(e)
    if e[0] == "let":
        t = typed_name(e[2])
        if t is None:
            # a variable bound to a pure expression also answers to that expression (`let push_sat = x.push_msat / 1000`
            # and the inline `x.push_msat / 1000` are one quantity): "=<rendering of the value>"
            inner = peel(e[2])
            if inner[0] in ("/", "%", "*", "sat-", "min", "max", "len"):
                t = "=" + render(inner)
        return (e[1], t)
    e = peel(e)
    return (render(e), typed_name(e))


# ------------------------------------------------------------------ atoms
# ("le", coeffs_tuple, const)  : sum + const <= 0
# ("eq", coeffs_tuple, const)  : sum + const == 0     ("ne" likewise)
# ("bool", symbol, polarity)


def _norm(coeffs, const, kind):
    items = sorted(((s, c) for s, c in coeffs.items() if c != 0), key=lambda x: str(x[0]))
    if kind in ("eq", "ne") and items and items[0][1] < 0:
        items = [(s, -c) for s, c in items]
        const = -const
    return (kind, tuple(items), const)


def cmp_atom(op, l, r):
    """atom for `l op r` over integers"""
    a, ca = linear(l)
    b, cb = linear(r)
    d = _add(a, b, -1)
    c = ca - cb            # l - r = d + c
    if op == "<=":
        return _norm(d, c, "le")
    if op == "<":
        return _norm(d, c + 1, "le")
    if op == ">=":
        return _norm({s: -v for s, v in d.items()}, -c, "le")
    if op == ">":
        return _norm({s: -v for s, v in d.items()}, -c + 1, "le")
    if op == "==":
        return _norm(d, c, "eq")
    if op == "!=":
        return _norm(d, c, "ne")
    raise ValueError(op)


def negate(atom):
    k = atom[0]
    if k == "le":
        # not (L + c <= 0)  <=>  -L - c + 1 <= 0
        return ("le", tuple((s, -v) for s, v in atom[1]), -atom[2] + 1)
    if k == "eq":
        return ("ne", atom[1], atom[2])
    if k == "ne":
        return ("eq", atom[1], atom[2])
    if k == "bool":
        return ("bool", atom[1], not atom[2])
    if k == "variant":
        return ("notvariant", atom[1], atom[2])
    if k == "notvariant":
        return ("variant", atom[1], atom[2])
    if k == "and":
        return ("or", tuple(negate(x) for x in atom[1]))
    if k == "or":
        return ("and", tuple(negate(x) for x in atom[1]))
    if k == "const":
        return ("const", not atom[1])
    return ("not", atom)


def bool_atom(e, polarity=True):
    """atom for a boolean expression being `polarity`"""
    e = strip_r(e)
    if e[0] == "let" and strip_r(e[2])[0] in ("not", "cmp", "int"):
        e = strip_r(e[2])
    if e[0] == "not":
        return bool_atom(e[1], not polarity)
    if e[0] == "cmp":
        lt = e[2]
        a = None
        # comparisons of non-integers (points, scripts, hashes) still canonicalise as eq/ne
        a = cmp_atom(e[1], e[2], e[3])
        return a if polarity else negate(a)
    if e[0] == "int":
        return ("const", bool(e[1]) == polarity)
    if e[0] == "k" and e[1] in ("true", "false"):
        return ("const", (e[1] == "true") == polarity)
    pv = presence_atom(e)
    if pv is None:
        pv = range_atom(e)
    if pv is not None:
        return pv if polarity else negate(pv)
    return ("bool", sym(e), polarity)


# Option / Result presence tests have one canonical atom whatever the spelling (`x.is_none()`, `!x.is_some()`,
# `matches!(x, None)`, `if let Some(..) = x`): ("variant", x, 0) for None / Ok and ("notvariant", x, 0) for Some / Err
PRESENCE = {"Option::<T>::is_none": "variant", "Option::<T>::is_some": "notvariant",
            "Result::<T, E>::is_ok": "variant", "Result::<T, E>::is_err": "notvariant"}


def range_atom(e):
    """(a..b).contains(&x) / (a..=b).contains(&x) as the conjunction a <= x, x < b (x <= b)"""
    if e[0] != "call" or len(e[2]) != 2 or not e[1].endswith("::contains") or "ops::Range" not in e[1]:
        return None
    rg, x = strip_r(e[2][0]), strip_r(e[2][1])
    lo = hi = None
    incl = False
    if rg[0] == "adt" and rg[1].endswith("ops::Range"):
        f = dict(rg[3])
        lo, hi = f.get("start"), f.get("end")
    elif rg[0] == "call" and rg[1].endswith("RangeInclusive::<Idx>::new") and len(rg[2]) == 2:
        lo, hi = rg[2]
        incl = True
    if lo is None or hi is None:
        return None
    return ("and", (cmp_atom(">=", x, lo), cmp_atom("<=" if incl else "<", x, hi)))


def presence_atom(e):
    if e[0] == "call" and len(e[2]) == 1:
        for suf, kind in PRESENCE.items():
            if e[1].endswith(suf):
                return (kind, sym(strip_r(e[2][0])), 0)
    return None


def _symmatch(a, b):
    """two symbols denote the same quantity: same rendering, or same typed path
    (single-live-object assumption of DESIGN §9), or spec-suffix match"""
    if a == b:
        return True
    ra, ta = a
    rb, tb = b
    if ra == rb:
        return True
    if ta is not None and ta == tb:
        return True
    if (ta is not None and ta.startswith("=") and ta[1:] == rb) or (tb is not None and tb.startswith("=") and tb[1:] == ra):
        return True
    # spec symbols have typed == "spec": match on rendering suffix or typed name
    if ta == "spec":
        return _spec_match(ra, b)
    if tb == "spec":
        return _spec_match(rb, a)
    return False


def _spec_match(spec, symb):
    r, t = symb
    if spec == r or spec == t:
        return True
    if t is not None and t.startswith("=") and t[1:] == spec:
        return True
    if r.endswith("." + spec) or r.endswith("::" + spec):
        return True
    if t is not None and (t + "?" == spec):
        return True
    if t is not None and t.endswith("." + spec) is False and "." not in spec and r == spec:
        return True
    return False


def _align(a_items, b_items):
    """try to express both coefficient lists over a common symbol set; returns list of
    (ca, cb) pairs in a common order or None if symbol sets do not correspond"""
    b_left = list(b_items)
    pairs = []
    for s, c in a_items:
        hit = None
        for j, (s2, c2) in enumerate(b_left):
            if _symmatch(s, s2):
                hit = j
                break
        if hit is None:
            return None
        pairs.append((c, b_left[hit][1]))
        del b_left[hit]
    if b_left:
        return None
    return pairs


def entails(a, b):
    """does atom a entail atom b?  (sound, incomplete)"""
    if a == b:
        return True
    # a length is never negative: `len(x) <= 0` is `len(x) == 0`
    if a[0] == "le" and a[2] == 0 and len(a[1]) == 1 and a[1][0][1] == 1 and str(a[1][0][0][0]).startswith("len("):
        a = ("eq", a[1], 0)
    ka, kb = a[0], b[0]
    if ka == "const" or kb == "const":
        return kb == "const" and b[1] is True
    if ka in ("bool",) and kb == "bool":
        return _symmatch(a[1], b[1]) and a[2] == b[2]
    if ka in ("variant", "notvariant") or kb in ("variant", "notvariant"):
        if ka == kb and _symmatch(a[1], b[1]) and a[2] == b[2]:
            return True
        if ka == "variant" and kb == "notvariant" and _symmatch(a[1], b[1]) and a[2] != b[2]:
            return True
        return False
    if ka in ("le", "eq", "ne") and kb in ("le", "eq", "ne"):
        for sign in (1, -1):
            bi = tuple((s, sign * c) for s, c in b[1])
            pairs = _align(a[1], bi)
            if pairs is None or not all(ca == cb for ca, cb in pairs):
                continue
            ac, bc = a[2], b[2]
            # a: L + ac (ka) 0 ;  b: sign*L + bc (kb) 0
            if sign == 1:
                if ka == "le" and kb == "le":
                    return bc <= ac
                if ka == "eq" and kb == "le":
                    return bc <= ac
                if ka == "eq" and kb == "eq":
                    return ac == bc
                if ka == "eq" and kb == "ne":
                    return ac != bc
                if ka == "le" and kb == "ne":
                    return bc < ac
                if ka == "ne" and kb == "ne":
                    return ac == bc
            else:
                if ka == "eq" and kb == "le":
                    return ac + bc <= 0
                if ka == "eq" and kb == "eq":
                    return -ac == bc
                if ka == "eq" and kb == "ne":
                    return -ac != bc
                if ka == "le" and kb == "ne":
                    return bc > -ac
                if ka == "ne" and kb == "ne":
                    return -ac == bc
            return False
        return False
    return False


def decide(atom, assumptions):
    """True / False / None for a branch atom under a conjunction of assumed atoms"""
    if atom[0] == "const":
        return atom[1]
    if atom[0] in ("and", "or"):
        rs = [decide(x, assumptions) for x in atom[1]]
        strong, weak = (True, False) if atom[0] == "and" else (False, True)
        if all(r is strong for r in rs):
            return strong
        if any(r is weak for r in rs):
            return weak
        return None
    n = negate(atom)
    for a in assumptions:
        if entails(a, atom):
            return True
        if entails(a, n):
            return False
    # two-atom transitivity for difference constraints: a1: x - y + c1 <= 0, a2: y - z + c2 <= 0
    if atom[0] in ("le", "eq", "ne"):
        les = [a for a in assumptions if a[0] in ("le", "eq")]
        for i, a1 in enumerate(les):
            for a2 in les:
                if a1 is a2:
                    continue
                s = _sum_atoms(a1, a2)
                if s is None:
                    continue
                if entails(s, atom):
                    return True
                if entails(s, n):
                    return False
    return None


def _as_le_variants(a):
    if a[0] == "le":
        return [a]
    if a[0] == "eq":
        return [("le", a[1], a[2]), ("le", tuple((s, -c) for s, c in a[1]), -a[2])]
    return []


def _sum_atoms(a1, a2):
    for x in _as_le_variants(a1):
        for y in _as_le_variants(a2):
            co = {}
            for s, c in x[1]:
                co[s] = co.get(s, 0) + c
            for s, c in y[1]:
                hit = None
                for s0 in co:
                    if _symmatch(s0, s):
                        hit = s0
                        break
                if hit is None:
                    co[s] = c
                else:
                    co[hit] += c
            if sum(1 for v in co.values() if v != 0) < len(x[1]) + len(y[1]):
                items = tuple(sorted(((s, c) for s, c in co.items() if c != 0), key=lambda t: str(t[0])))
                return ("le", items, x[2] + y[2])
    return None


def show(atom):
    k = atom[0]
    if k in ("le", "eq", "ne"):
        terms = []
        for (r, t), c in atom[1]:
            nm = r if t in (None, 'spec') else t
            terms.append(f"{'+' if c > 0 else '-'}{'' if abs(c) == 1 else abs(c)}{nm}")
        lhs = " ".join(terms) or "0"
        c = atom[2]
        if c:
            lhs += f" {'+' if c > 0 else '-'} {abs(c)}"
        return f"{lhs} {'<=' if k == 'le' else '==' if k == 'eq' else '!='} 0"
    if k == "bool":
        return ("" if atom[2] else "!") + (atom[1][0] if atom[1][1] in (None, "spec") else atom[1][1])
    if k in ("variant", "notvariant"):
        return f"{atom[1][1] or atom[1][0]} {'is' if k == 'variant' else 'is not'} #{atom[2]}"
    return str(atom)


# ------------------------------------------------------------------ spec parsing
_TOK = re.compile(r"\s*(`[^`]*`|>=|<=|==|!=|>|<|\+|-|\*|\(|\)|!|[A-Za-z_][A-Za-z0-9_:.\[\]']*(?:\([^()]*\))?\??|\d+)")


def parse_atom(text):
    """`a + 2 > T.f`, `!T.flag`, `T.flag`, `len(x) != len(y)`; symbols are spec symbols"""
    text = text.strip()
    mv = re.match(r"^(.*?)\s+is\s+(not\s+)?(None|Some|Ok|Err|#\d+)$", text)
    if mv:
        idx = {"None": 0, "Some": 1, "Ok": 0, "Err": 1}.get(mv.group(3))
        if idx is None:
            idx = int(mv.group(3)[1:])
        return ("notvariant" if mv.group(2) else "variant", (mv.group(1).strip(), "spec"), idx)
    m = re.match(r"^((?:`[^`]*`|[^`<>=!])*?)(>=|<=|==|!=|>|<)(.*)$", text)
    if not m:
        neg = text.startswith("!")
        name = text.lstrip("!").strip().strip("`")
        mp = re.match(r"^(?:[\w:]*::)?((?:Option::<T>|Result::<T, E>)::is_\w+)\((.*)\)$", name)
        if mp and mp.group(1) in PRESENCE:
            a = (PRESENCE[mp.group(1)], (mp.group(2).strip(), "spec"), 0)
            return negate(a) if neg else a
        return ("bool", (name, "spec"), not neg)
    l, op, r = m.group(1), m.group(2), m.group(3)
    return cmp_atom(op, _parse_sum(l), _parse_sum(r))


def _parse_sum(s):
    toks = [t for t in _TOK.findall(s) if t.strip()]
    e = None
    sign = "+"
    i = 0
    while i < len(toks):
        t = toks[i]
        if t in "+-":
            sign = t
        else:
            if t.isdigit():
                term = ("int", int(t))
                if i + 2 < len(toks) and toks[i + 1] == "*":
                    term = ("*", term, _spec_sym(toks[i + 2]))
                    i += 2
            else:
                term = _spec_sym(t)
            e = term if e is None and sign == "+" else (sign, e if e is not None else ("int", 0), term)
            sign = "+"
        i += 1
    return e if e is not None else ("int", 0)


def _spec_sym(name):
    return ("specsym", name.strip("`"))


# make `sym()` understand spec symbols
_old_sym = sym


def sym(e):  # noqa: F811
    e = strip_r(e)
    if e[0] == "specsym":
        return (e[1], "spec")
    return _old_sym(e)


# ------------------------------------------------------------------ edge atoms and scenario pruning


def edge_atoms(fv, bi):
    """for a switch block: list of (target, atom-that-holds-on-that-edge or None)"""
    b = fv.b
    t = b.term(bi)
    if t.kind != "switch":
        return []
    d = t.discr
    if d.place is None:
        return [(tg, None) for tg in t.targets]
    e = fv.expr(d)
    ty = b.ty(d.place.local) if d.place.is_local() else ""
    out = []
    if ty == "bool":
        listed = {}
        for v, tg in t.arms:
            listed[tg] = bool_atom(e, v != 0)
            out.append((tg, listed[tg]))
        vals = {v for v, _ in t.arms}
        if len(vals) == 1:
            out.append((t.otherwise, bool_atom(e, 0 in vals)))
        else:
            out.append((t.otherwise, None))
        return out
    if e[0] == "discr" and strip_r(e[1])[0] == "call" and strip_r(e[1])[1].rsplit("::", 1)[-1] == "cmp" \
       and "cmp::" in strip_r(e[1])[1] and len(strip_r(e[1])[2]) == 2 and "Ordering" in e[2]:
        # match a.cmp(b) { Less => .., Equal => .., Greater => .. }
        l, r = strip_r(e[1])[2]
        ops = {-1: "<", 255: "<", 0: "==", 1: ">"}
        listed = []
        for v, tg in t.arms:
            v = v - (1 << 64) if v >= (1 << 63) else (v - 256 if 127 < v < 256 else v)
            if v in ops:
                listed.append(ops[v])
                out.append((tg, cmp_atom(ops[v], l, r)))
            else:
                out.append((tg, None))
        rest = [o for o in ("<", "==", ">") if o not in listed]
        oth = t.otherwise
        if oth is not None and b.term(oth).kind != "unreachable":
            out.append((oth, cmp_atom(rest[0], l, r) if len(rest) == 1 else
                        (cmp_atom({"<": ">=", ">": "<=", "==": "!="}[listed[0]], l, r) if len(listed) == 1 else None)))
        return out
    if e[0] == "discr":
        # the matched value is a known constructor on every live path (e.g. the result of an inlined helper whose
        # success paths were cut): only the arm of that constructor can be taken
        inner = strip_r(e[1])
        good = None
        if inner[0] == "wrap":
            good = True
        elif inner[0] == "adt" and inner[2] in ("Err", "None", "Break"):
            good = False
        elif inner[0] == "call" and inner[1].endswith("::from_residual") and "FromResidual" in inner[1]:
            good = False        # `return Err(e.into())` produced by `?`
        if good is not None and any(e[2].startswith(p_) for p_ in ("std::ops::ControlFlow<", "std::result::Result<", "std::option::Option<")):
            good_idx = 1 if e[2].startswith("std::option::Option<") else 0
            taken = good_idx if good else 1 - good_idx
            for v, tg in t.arms:
                out.append((tg, ("const", v == taken)))
            if t.otherwise is not None and b.term(t.otherwise).kind != "unreachable":
                out.append((t.otherwise, ("const", taken not in [v for v, _ in t.arms])))
            return out
        s = sym(e[1])
        vals = [v for v, _ in t.arms]
        two = e[2].startswith("std::option::Option<") or e[2].startswith("std::result::Result<")
        for v, tg in t.arms:
            out.append((tg, ("notvariant", s, 0) if two and v == 1 else ("variant", s, v)))
        oth = t.otherwise
        if b.term(oth).kind != "unreachable":
            # `if let Variant(..) = x {..} else {..}`: the else edge means "not that variant"
            if two and len(vals) == 1 and vals[0] == 1:
                out.append((oth, ("variant", s, 0)))
            else:
                out.append((oth, ("notvariant", s, vals[0]) if len(vals) == 1 else None))
        return out
    # integer switch (match on number): equality atoms
    for v, tg in t.arms:
        out.append((tg, cmp_atom("==", e, ("int", v))))
    out.append((t.otherwise, None))
    return out


def _log_name_dependence(fv, assumptions):
    b = fv.b
    locals_ = {b.local_name(l) for l in range(b.argc + 1, len(b.local_tys)) if b.local_name(l)}
    for a in assumptions:
        syms = []
        def walk(x):
            if isinstance(x, (list, tuple)):
                for y in x:
                    walk(y)
            elif isinstance(x, str):
                syms.append(x)
        walk(a)
        for s_ in syms:
            base = s_.split(".")[0].split("(")[-1].strip("`!? ")
            if base in locals_:
                sys.stderr.write(f"NAMEDEP {b.name} :: {base} :: {show(a) if True else a}\n")


_IDENT = re.compile(r"^[a-z_][a-z0-9_]*$")


def _require_named_symbols(fv, assumptions):
    """a scenario that speaks about a local variable by its source name needs that variable to exist: if it was
    renamed the rule table is stale (anchor missing, exit 2) - that must not be reported as a violation"""
    if not getattr(fv, "keep_names", False):
        return
    b = fv.b
    have = {b.local_name(l) for l in range(1, len(b.local_tys)) if b.local_name(l)}
    # field names and other symbols the function's own branch conditions speak about (suffix matches)
    for bi in range(fv.n):
        if fv.b.cleanup[bi] or fv.b.term(bi).kind != "switch":
            continue
        try:
            eas = edge_atoms(fv, bi)
        except Exception:
            continue
        for tg, at in eas:
            for tok in re.findall(r"[A-Za-z_][A-Za-z0-9_]*", repr(at)):
                have.add(tok)
    for a in assumptions:
        syms = []

        def walk(x):
            if isinstance(x, tuple) and len(x) == 2 and x[1] == "spec" and isinstance(x[0], str):
                syms.append(x[0])
            elif isinstance(x, (list, tuple)):
                for y in x:
                    walk(y)
        walk(a)
        for s_ in syms:
            base = s_.strip("`")
            base = re.split(r"[.?(\[]", base)[0]
            if _IDENT.match(base) and base not in have and base not in ("self", "len", "true", "false"):
                from .facts import Broken
                raise Broken(f"anchor missing: `{b.name}` has no variable or parameter named `{base}` that the rule's "
                             f"scenario `{show(a)}` refers to (renamed?): the rule table must be updated, nothing is decided")


def scenario_cut(fv, assumptions):
    """edges contradicted by the assumptions.  Fixpoint: once edges are cut, locals whose other
    definitions became unreachable are single-definition again (conditional constants such as
    `let delta = if num == 1 { 1 } else { 2 }`), which may decide further branches."""
    cut = set()
    view = fv
    if os.environ.get("VERIF_NAMEDEP"):
        _log_name_dependence(fv, assumptions)
    _require_named_symbols(fv, assumptions)
    for _ in range(6):
        new = set()
        for bi in range(fv.n):
            if fv.b.cleanup[bi]:
                continue
            if fv.b.term(bi).kind != "switch":
                continue
            for tg, atom in edge_atoms(view, bi):
                if atom is None:
                    continue
                if decide(atom, assumptions) is False:
                    new.add((bi, tg))
        if new <= cut:
            break
        cut |= new
        live = fv.reach(0, cut_edges=cut)
        view = fv.restricted(live)
    cut |= _path_fact_cut(fv, view, assumptions, cut)
    return cut


def _atom_syms(a):
    if a is None:
        return []
    if a[0] in ("le", "eq", "ne"):
        return [s_ for s_, _ in a[1]]
    if a[0] in ("bool", "variant", "notvariant"):
        return [a[1]]
    if a[0] in ("and", "or"):
        return [y for x in a[1] for y in _atom_syms(x)]
    return []


MAX_FACT_STATES = 24


def _path_fact_cut(fv, view, assumptions, cut):
    """one more refinement: a guard spelled as several tests (`a.is_empty() && b.is_empty()` for `len(a) + len(b) == 0`)
    is decided only when the outcome of the earlier test is remembered along the path.  Forward propagation of the
    facts established by branches whose condition speaks about a quantity of the scenario; an edge is cut when it is
    contradicted in every state that reaches it.  Facts about a user variable are dropped where it is reassigned."""
    asyms = [y for a in assumptions for y in _atom_syms(a)]
    if not asyms:
        return set()
    b = fv.b
    rel = {}        # (block, target) -> atom, for switch edges that speak about the scenario's quantities
    for bi in range(fv.n):
        if b.cleanup[bi] or b.term(bi).kind != "switch":
            continue
        for tg, atom in edge_atoms(view, bi):
            if atom is None or atom[0] == "const" or (bi, tg) in cut:
                continue
            if any(_symmatch(x, y) for x in _atom_syms(atom) for y in asyms):
                if decide(atom, assumptions) is None:
                    rel[(bi, tg)] = atom
    if len(rel) < 2:
        return set()
    names_defined = {}
    for l in range(len(b.local_tys)):
        n = b.local_name(l)
        if n:
            for d in fv.defs.get(l, []):
                names_defined.setdefault(d[0], set()).add(n)
    feasible = set()
    seen = {}
    work = [(0, frozenset())]
    overflow = False
    while work:
        blk, facts = work.pop()
        st = seen.setdefault(blk, set())
        if facts in st:
            continue
        if len(st) >= MAX_FACT_STATES:
            overflow = True
            break
        st.add(facts)
        kill = names_defined.get(blk, ())
        if kill:
            facts = frozenset(f for f in facts if not any(s_[0] in kill for s_ in _atom_syms(f)))
        for v in fv.succ[blk]:
            if (blk, v) in cut or (blk, v) in fv.removed:
                continue
            atom = rel.get((blk, v))
            nf = facts
            if atom is not None:
                if decide(atom, list(assumptions) + list(facts)) is False:
                    continue
                nf = facts | {atom}
            feasible.add((blk, v))
            work.append((v, nf))
    if overflow:
        return set()
    return {e for e in rel if e not in feasible and e[0] in seen}


def conditions_on_path_to(fv, sink_block):
    """atoms of every switch edge that all paths to sink must take (for evidence / reports)"""
    out = []
    for bi in sorted(fv.live_blocks()):
        if fv.b.term(bi).kind != "switch":
            continue
        ea = edge_atoms(fv, bi)
        for tg, atom in ea:
            if atom is None:
                continue
            if fv.must_pass(sink_block, {(bi, tg)}) and sink_block in fv.live_blocks():
                out.append((bi, show(atom), fv.b.term(bi).line))
    return out


def known_empty_edges(fv, coll):
    """switch edges on which the collection rendered as `coll` is known to be empty, however that is spelled:
    `coll.is_empty()`, `coll.len() == 0`, `!(coll.len() > 0)`, or the absence of a first / last element
    (`coll.front().is_none()`, `first()`, `back()`, `last()`, `get(0)`, `iter().next()`)"""
    import re
    want = parse_atom(f"len({coll}) == 0")
    pat = re.compile(r"::(front|first|back|last|peek)\(" + re.escape(coll) + r"\)$|::get\(" + re.escape(coll) + r", 0\)$|::next\(.*::iter\(" + re.escape(coll) + r"\)\)$")
    out = set()
    for sb in sorted(fv.live_blocks()):
        if fv.b.term(sb).kind != "switch":
            continue
        for tg, at in edge_atoms(fv, sb):
            if at is None:
                continue
            try:
                if entails(at, want):
                    out.add((sb, tg))
                    continue
            except Exception:
                pass
            if at[0] == "variant" and at[2] == 0 and isinstance(at[1], tuple) and isinstance(at[1][0], str) and pat.search(at[1][0]):
                out.add((sb, tg))      # Option::None of "the first element": there is none
    return out

"""Check context: obligations, floors, violations keyed without line numbers, known
findings (exact key match only, never written at run time), evidence + replay files."""
import hashlib
import json
import os
import time

from .facts import Broken

VERIF = os.path.dirname(os.path.dirname(os.path.abspath(__file__)))
KNOWN = os.path.join(VERIF, "known_findings.json")


class Ctx:
    def __init__(self, pid, tier, prog, info, configs=None):
        self.pid = pid
        self.tier = tier
        self.prog = prog
        self.info = info
        self.t0 = time.time()
        self.obligations = 0
        self.discharged = 0
        self.evaluations = 0
        self.rule_instances = {}     # rule id -> count of matched instances
        self.rule_text = {}          # rule id -> text
        self.samples = []
        self.violations = []         # dict(key, rule, what, where, detail)
        self.notes = []
        self.assumptions = []
        self.explanation = ""
        self.not_decided = ""
        self.configs = configs or ["default"]
        self.functions = set()
        self.extra = {}
        self._seen_keys = set()
        self.config = self.configs[0]

    def set_config(self, cfg, prog, ex=None):
        """thorough tier: evaluate the same rules over another build configuration"""
        self.extra.setdefault("per_config", {})[self.config] = {"obligations": self.obligations, "discharged": self.discharged}
        self.config = cfg
        self.prog = prog
        for k in ("_fv", "_ens", "_men", "_cs", "_cs_inprogress", "_atomic", "_so"):   # per-program caches (keyed by def id)
            self.__dict__.pop(k, None)
        if cfg not in self.configs:
            self.configs.append(cfg)
        self.extra.setdefault("extraction_per_config", {})[cfg] = ex

    # -- bookkeeping -------------------------------------------------------
    def rule(self, rid, text):
        self.rule_text[rid] = text
        self.rule_instances.setdefault(rid, 0)

    def touch(self, body):
        if body is not None:
            self.functions.add(body.name if hasattr(body, "name") else str(body))

    def ob(self, rid, ok, key, what, where=None, detail=None, sample=None):
        """one obligation = one rule instance at one site. key has no line numbers."""
        self.obligations += 1
        self.evaluations += 1
        self.rule_instances[rid] = self.rule_instances.get(rid, 0) + 1
        if ok:
            self.discharged += 1
            if sample is not None and len(self.samples) < 40:
                self.samples.append({"rule": rid, "instance": key, "where": where, "evidence": sample})
        else:
            full = f"{self.pid}/{rid}/{key}"
            if full in self._seen_keys:
                return ok
            self._seen_keys.add(full)
            if self.config != "default":
                what = f"[build configuration {self.config}] {what}"
            self.violations.append({"key": full, "rule": rid, "what": what, "where": where,
                                    "detail": detail})
        return ok

    def count(self, n=1):
        self.evaluations += n

    def floor(self, rid, what, n, minimum):
        """fail closed when fewer instances than were confirmed by hand"""
        if n < minimum:
            raise Broken(f"{self.pid}/{rid}: floor not met for {what}: found {n}, confirmed by hand {minimum}")

    def sample(self, rid, key, where, evidence):
        if len(self.samples) < 60:
            self.samples.append({"rule": rid, "instance": key, "where": where, "evidence": evidence})

    # -- finishing ---------------------------------------------------------
    def finish(self, broken=None):
        known = []
        if os.path.exists(KNOWN):
            known = json.load(open(KNOWN)).get("findings", [])
        known_keys = {k["key"]: k for k in known if k.get("status") == "known" and k.get("property") == self.pid}
        os.makedirs(os.path.join(VERIF, "replay"), exist_ok=True)
        new_v, known_v = [], []
        for v in self.violations:
            (known_v if v["key"] in known_keys else new_v).append(v)
        lines = []
        for v in known_v:
            lines.append(f"KNOWN-FINDING: property={self.pid} {known_keys[v['key']]['what']} [{v['key']}]")
        for v in new_v:
            h = hashlib.sha1(v["key"].encode()).hexdigest()[:10]
            path = os.path.join(VERIF, "replay", f"{self.pid}-{h}.json")
            with open(path, "w") as fh:
                json.dump({"property": self.pid, "tier": self.tier, **v,
                           "rule_text": self.rule_text.get(v["rule"], ""),
                           "facts_fingerprint": self.info.get("fingerprint"),
                           "how_to_replay": f"./check {self.pid} --replay {path}"}, fh, indent=1, default=str)
            lines.append(f"VIOLATION property={self.pid} replay={path}")
            lines.append(f"  rule {v['rule']}: {v['what']}")
            lines.append(f"  key {v['key']}")
            if v.get("where"):
                lines.append(f"  at {v['where']}")
            if v.get("detail"):
                d = v["detail"] if isinstance(v["detail"], str) else json.dumps(v["detail"], default=str)
                lines.append(f"  {d[:1500]}")
        distinct = sum(1 for r, n in self.rule_instances.items() if n > 0)
        if self.prog is not None:
            inl = getattr(self.prog, "inlined", None) or []
            ren = getattr(self.prog, "renamed", None) or []
            if inl or ren:
                # functions that are new relative to the reference tree were analysed as part of their callers
                self.extra["normalisation"] = {"inlined_new_functions": sorted({f"{c} into {a}" for a, c in inl})[:40],
                                               "renamed_functions": [f"{o} analysed as {n}" for o, n in ren][:40]}
        if "per_config" in self.extra:
            prev = sum(v["obligations"] for v in self.extra["per_config"].values())
            prevd = sum(v["discharged"] for v in self.extra["per_config"].values())
            self.extra["per_config"][self.config] = {"obligations": self.obligations - prev, "discharged": self.discharged - prevd}
        ev = {
            "property_id": self.pid,
            "tier": self.tier,
            "seed": int(os.environ.get("VERIF_SEED", "0") or 0),
            "level": "other",
            "coverage": {
                "explanation": self.explanation,
                "not_decided": self.not_decided,
                "obligations": self.obligations,
                "discharged": self.discharged,
                "evaluations": max(self.evaluations, 1),
                "distinct_nontrivial": distinct,
                "rule": "static rules over the type-checked program (MIR facts); one obligation = one rule "
                        "instance at one site (call site, field write, return site, guard scenario, lock edge, "
                        "registry entry); distinct_nontrivial = number of distinct rules with >=1 matched instance. "
                        + " | ".join(f"{k}: {v}" for k, v in self.rule_text.items()),
                "rule_instances": self.rule_instances,
                "samples": self.samples[:40] or [{"note": "no instance sampled"}],
                "functions_analysed": sorted(self.functions)[:400],
                "functions_analysed_count": len(self.functions),
                "program": self.prog.stats() if self.prog is not None else {},
                "configs": self.configs,
                "facts_fingerprint": self.info.get("fingerprint"),
                "extraction": self.info.get("extract"),
                "known_findings_reported": [v["key"] for v in known_v],
                "new_violations": [v["key"] for v in new_v],
                "notes": self.notes,
                "exhaustive": True,
                **self.extra,
            },
            "assumptions": self.assumptions,
            "wall_s": round(time.time() - self.t0 + self.info.get("pre_s", 0), 2),
            "violations": len(new_v),
        }
        if broken:
            ev["coverage"]["broken"] = broken
        # development runs against a scratch copy of the repository (VLS_REPO set) must not overwrite the registered evidence
        evd = os.environ.get("VERIF_EVIDENCE_DIR", os.path.join(VERIF, "evidence"))
        os.makedirs(evd, exist_ok=True)
        with open(os.path.join(evd, f"{self.pid}.json"), "w") as fh:
            json.dump(ev, fh, indent=1, default=str)
        for l in lines:
            print(l)
        if broken:
            print(f"BROKEN property={self.pid}: {broken}")
            return 2
        print(f"{self.pid} [{self.tier}]: {self.obligations} obligations, {self.discharged} discharged, "
              f"{len(known_v)} known findings, {len(new_v)} violations; rules "
              + ", ".join(f"{k}={v}" for k, v in sorted(self.rule_instances.items())))
        return 1 if new_v else 0


def renamed(ctx, mapping, skip=None):
    """A view of `ctx` under which a rule table of another property reports with this property's rule ids
    (`mapping`: foreign rule id -> own rule id).  Shares all state with `ctx`.  `skip(key)`: obligations of the foreign
    table that are not necessary conditions of this property are left to their owner."""
    base = type(ctx)

    class _Renamed(base):
        def rule(s, rid, text):
            return base.rule(s, mapping.get(rid, rid), text)

        def ob(s, rid, ok, key, *a, **k):
            if skip is not None and skip(key):
                return ok
            return base.ob(s, mapping.get(rid, rid), ok, key, *a, **k)

        def floor(s, rid, *a, **k):
            return base.floor(s, mapping.get(rid, rid), *a, **k)

        def sample(s, rid, *a, **k):
            return base.sample(s, mapping.get(rid, rid), *a, **k)

    r = _Renamed.__new__(_Renamed)
    r.__dict__ = ctx.__dict__
    return r

"""Generic rule engines used by the per-property rule tables (E1, E2, E3 wrappers, E4 slices).
Everything here is parameterised by names/slots supplied by rules/Cxx.py."""
from collections import defaultdict

from .facts import Broken
from .cfg import FnView, render, strip_ref, typed_name, subexprs, POLICY_ERROR_FNS
from . import atoms

TEST_UTIL_MARKERS = ("::util::test_utils::", "::util::loopback::", "_for_testing",
                     "::util::mocks::", "::policy::null_validator::", "::util::functional_test_utils")


def is_test_util(name):
    return any(m in name for m in TEST_UTIL_MARKERS)


def fnview(ctx, body, policy=True):
    key = (body.d.id, policy)
    cache = ctx.__dict__.setdefault("_fv", {})
    if key not in cache:
        from . import anchors
        anchors.apply(ctx.prog, body)
        cache[key] = FnView(ctx.prog, body, policy_diverges=policy)
        ctx.touch(body)
    return cache[key]


def owner_fn(prog, body):
    """enclosing named function of a closure body"""
    d = body.d
    while d.kind == "Closure" and d.root is not None:
        d = d.root
        break
    return d


def owner_name(prog, body):
    return norm(owner_fn(prog, body).name)


# ---------------------------------------------------------------- E1: who may call
def call_sites(prog, pred):
    """all call sites (body, bi, call) whose resolved or declared callee name satisfies pred"""
    out = []
    for b in prog.bodies.values():
        for bi, c in b.calls():
            n1 = c.callee.name if c.callee else None
            n2 = c.decl.name if c.decl else None
            if (n1 and pred(n1)) or (n2 and pred(n2)):
                out.append((b, bi, c))
    return out


def who_may_call(ctx, rid, callee_pred, allowed, what, floor=0, exclude=lambda n: False):
    """every call site of the callee lies in an allowed function (name -> reason)"""
    sites = [s for s in call_sites(ctx.prog, callee_pred) if not exclude(owner_name(ctx.prog, s[0]))]
    seen = 0
    for b, bi, c in sites:
        on = norm(owner_name(ctx.prog, b))
        ok = on in allowed
        seen += 1
        ctx.touch(b)
        ctx.ob(rid, ok, f"{on}/calls/{short(c.name)}",
               f"{what}: call to `{c.name}` from `{on}` which is not in the allowed set",
               where=f"{b.file}:{c.line}", sample=allowed.get(on))
    ctx.floor(rid, f"call sites of {what}", seen, floor)
    return sites


def short(n):
    return n.replace("lightning_signer::", "ls::")


# ---------------------------------------------------------------- E1: who may write a field
def field_writes(prog, owner_suffix, field, crates=None):
    """all statements/call-dests that write `<owner>.field` (any access route), including
    wholesale construction handled separately.  Yields (body, bi, idx, obj)."""
    out = []
    for b in prog.bodies.values():
        for bi in range(len(b.blocks)):
            if b.cleanup[bi]:
                continue
            for si, s in enumerate(b.stmts(bi)):
                if _writes_field(s.place, owner_suffix, field):
                    out.append((b, bi, si, s))
            t = b.term(bi)
            if t.kind == "call" and _writes_field(t.call.dest, owner_suffix, field):
                out.append((b, bi, "T", t.call))
    return out


def _writes_field(place, owner_suffix, field):
    lf = None
    # the *last* projection element must be the field (writes to sub-parts count too)
    for p in place.proj:
        if isinstance(p, tuple) and p[0] == "f" and p[2] == field and p[1].endswith(owner_suffix):
            lf = p
    return lf is not None


def mut_borrows(prog, owner_suffix, field):
    """&mut borrows of the field (a route to mutate it elsewhere)"""
    out = []
    for b in prog.bodies.values():
        for bi in range(len(b.blocks)):
            if b.cleanup[bi]:
                continue
            for si, s in enumerate(b.stmts(bi)):
                if s.kind == "a" and s.rv.op in ("ref", "ptr") and s.rv.a and \
                   _writes_field(s.rv.place, owner_suffix, field):
                    out.append((b, bi, si, s))
    return out


def constructions(prog, adt_name):
    """Aggregate constructions of an ADT: (body, bi, si, stmt)"""
    out = []
    for b in prog.bodies.values():
        for bi in range(len(b.blocks)):
            if b.cleanup[bi]:
                continue
            for si, s in enumerate(b.stmts(bi)):
                if s.kind == "a" and s.rv.op == "agg" and isinstance(s.rv.a, tuple) \
                   and s.rv.a[0] == "adt" and s.rv.a[1].name == adt_name:
                    out.append((b, bi, si, s))
    return out


def who_may_write(ctx, rid, owner_suffix, field, allowed, floor=0, allow_derive=True,
                  borrows_allowed=None, skip=None):
    ws = field_writes(ctx.prog, owner_suffix, field)
    if skip is not None:
        ws = [w for w in ws if not skip(owner_name(ctx.prog, w[0]))]
    n = 0
    for b, bi, idx, obj in ws:
        on = owner_name(ctx.prog, b)
        if allow_derive and b.mac and "derive" in b.mac:
            continue
        n += 1
        line = obj.line
        ctx.touch(b)
        ctx.ob(rid, on in allowed, f"{on}/writes/{owner_suffix}.{field}",
               f"field `{owner_suffix}.{field}` is written in `{on}`, outside its allowed writers",
               where=f"{b.file}:{line}", sample=allowed.get(on))
    if borrows_allowed is not None:
        for b, bi, idx, s in mut_borrows(ctx.prog, owner_suffix, field):
            on = owner_name(ctx.prog, b)
            if allow_derive and b.mac and "derive" in b.mac:
                continue
            ctx.touch(b)
            ctx.ob(rid, on in borrows_allowed or on in allowed, f"{on}/mutborrows/{owner_suffix}.{field}",
                   f"`&mut {owner_suffix}.{field}` is taken in `{on}`, outside its allowed writers",
                   where=f"{b.file}:{s.line}")
    ctx.floor(rid, f"writes of {owner_suffix}.{field}", n, floor)
    return ws


# ---------------------------------------------------------------- E2: must pass through
def ok_edges_of_calls(fv, pred, ctx=None, depth=0, through=None):
    """edges taken when a call matching pred returned Ok/Some/true, over all sites in fv.
    `through`: optional callable(call, callee_body) -> bool meaning "this call's success implies
    the guard" (look-through summaries)."""
    edges = set()
    sites = []
    for bi, c in fv.b.calls():
        n1 = c.callee.name if c.callee else ""
        n2 = c.decl.name if c.decl else ""
        hit = pred(n1) or pred(n2)
        if not hit and through is not None:
            hit = through(c)
        if hit:
            es = fv.result_edges(bi, c, "ok")
            sites.append((bi, c, es))
            edges |= es
    return edges, sites


def ensures_ok(ctx, body, guard_pred, depth=3, _stack=None):
    """summary: every success return of `body` passes the Ok of a guard call (directly or
    through callees up to `depth`).  Cached per (body, guard id)."""
    cache = ctx.__dict__.setdefault("_ens", {})
    key = (body.d.id, guard_pred, depth)   # the predicate object itself: id() values are reused after GC
    if key in cache:
        return cache[key]
    _stack = _stack or set()
    if body.d.id in _stack or depth < 0:
        return False
    _stack = _stack | {body.d.id}
    fv = fnview(ctx, body)
    edges = guard_edges(ctx, fv, guard_pred, depth - 1, _stack)
    ok = True
    succ = fv.success_sites()
    if not succ:
        ok = True
    for r in succ:
        if not fv.must_pass(r["block"], edges):
            # tail position `return callee(..)` where every callee ensures the guard
            if r["kind"] == "maybe" and "call" in r and depth > 0:
                c = r["call"]
                n1 = c.callee.name if c.callee else ""
                n2 = c.decl.name if c.decl else ""
                if guard_pred(n1) or guard_pred(n2):
                    continue
                cal = [x for x in ctx.prog.possible_callees(c, body) if not is_test_util(x.name)]
                if cal and all(x.d.local for x in cal) and \
                   all(ensures_ok(ctx, x, guard_pred, depth - 1, _stack) for x in cal) and \
                   any(_mentions_guard(ctx, x, guard_pred, depth) for x in cal):
                    continue
            ok = False
            break
    cache[key] = ok
    return ok


def guard_edges(ctx, fv, guard_pred, depth=2, _stack=None):
    """ok-edges of direct guard calls plus calls whose every possible callee ensures the guard"""
    edges = set()
    for bi, c in fv.b.calls():
        n1 = c.callee.name if c.callee else ""
        n2 = c.decl.name if c.decl else ""
        hit = guard_pred(n1) or guard_pred(n2)
        if not hit and depth >= 0:
            cal = [x for x in ctx.prog.possible_callees(c, fv.b) if not is_test_util(x.name)]
            # closures passed to the callee are bound by the caller
            if cal and all(ensures_ok(ctx, x, guard_pred, depth, _stack) for x in cal) and \
               all(x.d.local for x in cal):
                # only meaningful if callee actually contains/forwards the guard
                hit = any(_mentions_guard(ctx, x, guard_pred, depth) for x in cal)
        if hit:
            edges |= fv.result_edges(bi, c, "ok")
    return edges


def _mentions_guard(ctx, body, guard_pred, depth):
    cache = ctx.__dict__.setdefault("_men", {})
    key = (body.d.id, guard_pred)
    if key in cache:
        return cache[key]
    cache[key] = False
    r = False
    for bi, c in body.calls():
        n1 = c.callee.name if c.callee else ""
        n2 = c.decl.name if c.decl else ""
        if guard_pred(n1) or guard_pred(n2):
            r = True
            break
        if depth > 0:
            for x in ctx.prog.possible_callees(c, body):
                if x.d.local and _mentions_guard(ctx, x, guard_pred, depth - 1):
                    r = True
                    break
        if r:
            break
    cache[key] = r
    return r


def must_pass_guard(ctx, rid, body, sink_blocks, guard_pred, guard_name, sink_name, depth=2):
    """E2 obligation per sink: every path entry->sink passes Ok of guard"""
    fv = fnview(ctx, body)
    edges = guard_edges(ctx, fv, guard_pred, depth)
    res = True
    for sb, sline in sink_blocks:
        ok = fv.must_pass(sb, edges) and bool(edges)
        if sb not in fv.live_blocks():
            ok = True
        if not ok:
            # `return guard(..).map_err(..)`: the function's result *is* the guard's result
            for r in fv.return_sites():
                if r["block"] == sb and "call" in r:
                    e = fv._call_expr(r["call"], 0)
                    if e[0] == "call" and guard_pred(e[1]):
                        ok = True
        wit = None
        if not ok:
            p = fv.path(0, sb, cut_edges=edges)
            wit = {"path_lines": fv.lines_of_path(p), "guard_sites_found": len(edges)}
        ctx.ob(rid, ok, f"{body.name}/{sink_name}/needs/{guard_name}",
               f"`{body.name}`: {sink_name} is reachable without a successful `{guard_name}`",
               where=f"{body.file}:{sline}", detail=wit,
               sample=f"every path to {sink_name} passes Ok of {guard_name}")
        res = res and ok
    return res


def site_block(r):
    """the block to ask dominance / reachability-of-this-outcome questions about: where the outcome's value is made when the
    return statement merely copies a local that is set on several paths, else the returning block"""
    return r.get("def_block", r["block"])


def success_blocks(fv):
    return [(site_block(r), r["line"]) for r in fv.success_sites()]


def call_blocks(fv, pred):
    out = []
    for bi, c in fv.b.calls():
        n1 = c.callee.name if c.callee else ""
        n2 = c.decl.name if c.decl else ""
        if pred(n1) or pred(n2):
            out.append((bi, c.line, c))
    return out


# ---------------------------------------------------------------- E3: scenario refusal
def scenario_refused(ctx, rid, body, scenario, sinks, key, what, translate=None, depth=2,
                     extra_cut=None):
    """under the conjunction `scenario` (list of atom strings) no sink block is reachable.
    Look-through: a checked call to a local function that cannot succeed under the scenario
    (translated to its parameters) has its ok-edges cut."""
    fv = fnview(ctx, body)
    assum = [atoms.parse_atom(a) if isinstance(a, str) else a for a in scenario]
    cut = atoms.scenario_cut(fv, assum)
    if depth > 0:
        cut |= _callee_refusal_cuts(ctx, fv, assum, depth)
    if extra_cut:
        cut |= extra_cut
    live = fv.reach(0, cut_edges=cut)
    bad = [(sb, ln) for sb, ln in sinks if sb in live]
    detail = None
    if bad:
        p = fv.path(0, bad[0][0], cut_edges=cut)
        detail = {"scenario": scenario, "witness_path_lines": fv.lines_of_path(p),
                  "edges_cut": len(cut)}
    ctx.ob(rid, not bad, key, what, where=f"{body.file}:{bad[0][1] if bad else body.line}", detail=detail,
           sample={"scenario": scenario, "edges_cut_by_scenario": len(cut), "sinks": len(sinks)})
    return not bad


def _callee_refusal_cuts(ctx, fv, assum, depth):
    cut = set()
    for bi, c in fv.b.calls():
        if c.callee is None:
            continue
        cal = [x for x in ctx.prog.possible_callees(c, fv.b) if not is_test_util(x.name)]
        if not cal or not all(x.d.local for x in cal):
            continue
        if c.callee.name in POLICY_ERROR_FNS:
            continue
        oke = fv.result_edges(bi, c, "ok")
        if not oke:
            continue
        allrefuse = True
        for x in cal:
            tr = translate_assumptions(fv, c, x, assum)
            if tr is None or not cannot_succeed(ctx, x, tr, depth - 1):
                allrefuse = False
                break
        if allrefuse:
            cut |= oke
    return cut


def translate_assumptions(fv, call, callee_body, assum):
    """rename caller symbols passed as arguments to the callee's parameter names"""
    ren = {}
    for i, a in enumerate(call.args):
        if i >= callee_body.argc:
            break
        pname = callee_body.local_name(i + 1)
        if pname is None:
            continue
        e = strip_ref(fv.expr(a))
        ren[render(e)] = pname
        tn = typed_name(e)
        if tn:
            ren.setdefault(tn, pname)
    out = []
    for a in assum:
        out.append(_rename_atom(a, ren, fv))
    return out


def _rename_atom(a, ren, fv):
    k = a[0]
    def rs(s):
        r, t = s
        if t == "spec":
            # find which caller rendering this spec symbol matches
            for cr, pn in ren.items():
                if cr == r or cr.endswith("." + r):
                    return (pn, "spec")
            return s
        if r in ren:
            return (ren[r], "spec")
        return s
    if k in ("le", "eq", "ne"):
        return (k, tuple((rs(s), c) for s, c in a[1]), a[2])
    if k == "bool":
        return ("bool", rs(a[1]), a[2])
    if k in ("variant", "notvariant"):
        return (k, rs(a[1]), a[2])
    return a


def cannot_succeed(ctx, body, assum, depth):
    cache = ctx.__dict__.setdefault("_cs", {})
    key = (body.d.id, repr(assum), depth)
    if key in cache:
        return cache[key]
    # co-inductive: a delegating wrapper (OnchainValidator -> inner dyn Validator) that re-enters itself
    # through CHA succeeds only if some non-recursive implementation does
    prog_set = ctx.__dict__.setdefault("_cs_inprogress", set())
    pk = (body.d.id, repr(assum))
    if pk in prog_set:
        return True
    prog_set.add(pk)
    try:
        return _cannot_succeed(ctx, body, assum, depth, cache, key)
    finally:
        prog_set.discard(pk)


def _cannot_succeed(ctx, body, assum, depth, cache, key):
    fv = fnview(ctx, body)
    cut = atoms.scenario_cut(fv, assum)
    if depth > 0:
        cut |= _callee_refusal_cuts(ctx, fv, assum, depth)
    live = fv.reach(0, cut_edges=cut)
    succ = []
    for r in fv.success_sites():
        if r["block"] not in live:
            continue
        if r["kind"] == "maybe" and "call" in r and depth > 0:
            # tail position `return callee(..)`: succeeds only if the callee can
            c = r["call"]
            cal = [x for x in ctx.prog.possible_callees(c, body) if not is_test_util(x.name)]
            if cal and all(x.d.local for x in cal):
                allref = True
                for x in cal:
                    tr = translate_assumptions(fv, c, x, assum)
                    if not cannot_succeed(ctx, x, tr, depth - 1):
                        allref = False
                        break
                if allref:
                    continue
        succ.append(r)
    r = not succ
    cache[key] = r
    return r


# ---------------------------------------------------------------- field reads
def field_reads(prog, owner_suffix, field):
    """statements / call args that read `<owner>.field`"""
    out = []
    def has(pl):
        return pl is not None and any(isinstance(p, tuple) and p[0] == "f" and p[2] == field
                                      and p[1].endswith(owner_suffix) for p in pl.proj)
    for b in prog.bodies.values():
        for bi in range(len(b.blocks)):
            if b.cleanup[bi]:
                continue
            for si, s in enumerate(b.stmts(bi)):
                if s.kind != "a":
                    continue
                rv = s.rv
                if has(rv.place) or any(has(o.place) for o in rv.ops):
                    out.append((b, bi, si, s))
            t = b.term(bi)
            if t.kind == "call" and any(has(a.place) for a in t.call.args):
                out.append((b, bi, "T", t.call))
    return out


# ---------------------------------------------------------------- E4: provenance
def mentions_param(e, name):
    return any(x[0] == "param" and x[1] == name for x in subexprs(e))


def mentions_field(e, owner_suffix, field):
    return any(x[0] == "field" and x[3] == field and x[2].endswith(owner_suffix) for x in subexprs(e))


def mentions_call(e, frag, prog=None, _seen=None):
    """expression contains a call to a function whose name contains frag; with `prog`, also looks
    inside the bodies of closures appearing in the expression (and their nested closures)."""
    for x in subexprs(e):
        if x[0] == "call" and frag in x[1]:
            return True
        if prog is not None and x[0] == "closure":
            _seen = _seen or set()
            if x[1] in _seen:
                continue
            _seen.add(x[1])
            if body_calls(prog, x[1], frag, _seen):
                return True
    return False


def body_calls(prog, name, frag, _seen=None):
    ds = [d for d in prog.by_name.get(name, []) if d.id in prog.bodies]
    for d in ds:
        b = prog.bodies[d.id]
        for bi, c in b.calls():
            n1 = c.callee.name if c.callee else ""
            n2 = c.decl.name if c.decl else ""
            if frag in n1 or frag in n2:
                return True
            for cd in c.cls:
                if cd.name not in (_seen or set()):
                    (_seen if _seen is not None else set()).add(cd.name)
                    if body_calls(prog, cd.name, frag, _seen):
                        return True
    return False


import re as _re


def norm(name):
    """names modulo lifetime spelling"""
    return _re.sub(r"'[a-z_][a-z0-9_]*", "'_", name)


def params_mentioned(e):
    return sorted({x[1] for x in subexprs(e) if x[0] == "param"})


def taint_escapes(fv, src_local, passthrough=(), sanitizers=("cmp::PartialEq",)):
    """forward taint from a local; returns list of (bi, description) where the tainted value
    flows anywhere other than a sanitizer (comparison) or a value-preserving step."""
    from .cfg import IDENTITY_CALLS, UNWRAP_CALLS
    b = fv.b
    tainted = {src_local}
    escapes = []
    work = [src_local]
    seen_use = set()
    while work:
        l = work.pop()
        for bi, idx, kind, obj in fv._uses(l):
            key = (bi, idx, l)
            if key in seen_use:
                continue
            seen_use.add(key)
            if kind == "stmt":
                s = obj
                if s.place.is_local() and s.place.local != 0:
                    rv = s.rv
                    if rv.op == "bin" and rv.a in ("Eq", "Ne"):
                        continue  # sanitised
                    if s.place.local not in tainted:
                        tainted.add(s.place.local)
                        work.append(s.place.local)
                else:
                    escapes.append((bi, f"stored to {s.place!r}", s.line))
            elif kind == "callarg":
                call, ai = obj
                nm = call.callee.name if call.callee else "<fnptr>"
                if any(x in nm for x in sanitizers):
                    continue
                if any(f in nm for f in IDENTITY_CALLS) or any(nm.endswith(u) for u in UNWRAP_CALLS) \
                   or any(x in nm for x in passthrough):
                    if call.dest.is_local() and call.dest.local != 0:
                        if call.dest.local not in tainted:
                            tainted.add(call.dest.local)
                            work.append(call.dest.local)
                        continue
                escapes.append((bi, f"passed to {nm}", call.line))
            elif kind == "switch":
                pass
    return escapes, tainted


def closure_calls(prog, cdef, pred, _seen=None):
    """does the closure body (or closures nested in it) call something matching pred"""
    _seen = _seen if _seen is not None else set()
    if cdef.id in _seen or cdef.id not in prog.bodies:
        return False
    _seen.add(cdef.id)
    b = prog.bodies[cdef.id]
    for bi, c in b.calls():
        n1 = c.callee.name if c.callee else ""
        n2 = c.decl.name if c.decl else ""
        if pred(n1) or pred(n2):
            return True
        for cd in c.cls:
            if closure_calls(prog, cd, pred, _seen):
                return True
    return False


def call_blocks_deep(ctx, fv, pred):
    """call sites matching pred directly, or receiving a closure whose body calls pred
    (catch_panic!, with_channel, map_err ...)"""
    out = []
    for bi, c in fv.b.calls():
        n1 = c.callee.name if c.callee else ""
        n2 = c.decl.name if c.decl else ""
        if pred(n1) or pred(n2) or any(closure_calls(ctx.prog, cd, pred) for cd in c.cls):
            out.append((bi, c.line, c))
    return out


def find_call_in_closures(ctx, body, pred):
    """(closure_body, bi, call) for calls matching pred inside closures rooted at body"""
    out = []
    for cb in ctx.prog.closures_of(body):
        for bi, c in cb.calls():
            n1 = c.callee.name if c.callee else ""
            n2 = c.decl.name if c.decl else ""
            if pred(n1) or pred(n2):
                out.append((cb, bi, c))
    return out


# ---------------------------------------------------------------- comparison-site refusal
def comparison_sites(fv, operand_pred):
    """calls to PartialEq::eq/ne (or bin Eq/Ne statements) whose two operand renderings satisfy operand_pred"""
    out = []
    for bi, c in fv.b.calls():
        nm = c.callee.name if c.callee else ""
        if "cmp::PartialEq" in nm and (nm.endswith("::ne") or nm.endswith("::eq")) and len(c.args) == 2:
            r0, r1 = render(fv.expr(c.args[0])), render(fv.expr(c.args[1]))
            if operand_pred(r0, r1) or operand_pred(r1, r0):
                out.append((bi, c, nm.endswith("::ne"), r0, r1))
    return out


def mismatch_refused(ctx, rid, body, operand_pred, key, what, sinks=None, floor=1, policy=True):
    """for every comparison of the two designated operands: when they differ, no sink (default: success
    return) is reachable"""
    fv = fnview(ctx, body, policy)
    sites = eq_sites(fv, operand_pred)
    ctx.ob(rid, len(sites) >= floor, f"{key}/comparison-present",
           f"{what}: the comparison is no longer made in `{body.name}`", where=f"{body.file}:{body.line}",
           sample=f"{len(sites)} comparison site(s)")
    sinks = sinks if sinks is not None else success_blocks(fv)
    for bi, line, equal_edges, differ_edges, r0, r1 in sites:
        live = fv.reach(0, cut_edges=equal_edges)
        # only paths that go through this comparison matter
        bad = [s for s in sinks if s[0] in live and any(s[0] in fv.reach(v, cut_edges=equal_edges) for (_, v) in differ_edges)]
        ctx.ob(rid, bool(differ_edges) and not bad, f"{key}/mismatch-refused",
               f"{what}: `{body.name}` can still succeed when `{r0[:80]}` differs from `{r1[:80]}`",
               where=f"{body.file}:{line}", sample=f"{r0[:60]} vs {r1[:60]}: sink unreachable on the != edge")
    # ... and the comparison is on *every* path to the sink: no branch (a retry shortcut, a feature test) reaches the
    # sink without having taken an equal-edge
    alleq = set()
    for s_ in sites:
        alleq |= s_[2]
    if sites:
        byp = [s_ for s_ in sinks if not fv.must_pass(s_[0], alleq)]
        pth = fv.path(0, byp[0][0], cut_edges=alleq) if byp else None
        ctx.ob(rid, bool(alleq) and not byp, f"{key}/comparison-on-every-path",
               f"{what}: `{body.name}` can reach its sink without making the comparison at all"
               + (f" (path lines {fv.lines_of_path(pth)[-8:]})" if pth else ""),
               where=f"{body.file}:{byp[0][1] if byp else body.line}", sample="sink dominated by the == edge")
    return sites


def consistent_cut(fv, start_block, stop_nodes=()):
    """edges infeasible on paths that start at `start_block`, because an earlier branch on the same named boolean
    variable (not reassigned in between) already fixed its value"""
    b = fv.b
    nv = fv.named() if not fv.keep_names else fv
    facts = []
    for sb in sorted(fv.live_blocks()):
        if b.term(sb).kind != "switch":
            continue
        for tg, atom in atoms.edge_atoms(nv, sb):
            if atom is None or atom[0] != "bool":
                continue
            if (sb, tg) in fv.removed:
                continue
            if start_block != sb and fv.must_pass(start_block, {(sb, tg)}) and start_block in fv.live_blocks():
                facts.append((atom, sb))
    if not facts:
        return set()
    cut = set()
    after = fv.reach(start_block, cut_nodes=set(stop_nodes))
    for sb in sorted(after):
        if b.term(sb).kind != "switch":
            continue
        for tg, atom in atoms.edge_atoms(nv, sb):
            if atom is None or atom[0] != "bool":
                continue
            for fact, fb in facts:
                if fb == sb:
                    continue
                if atoms.entails(fact, atoms.negate(atom)):
                    # the variable must not be redefined between start and this switch
                    name = atom[1][0]
                    locs = [l for l in range(len(b.local_tys)) if b.local_name(l) == name]
                    defblocks = {d[0] for l in locs for d in fv.defs.get(l, [])}
                    between = after & {x for x in range(fv.n) if sb in fv.reach(x, cut_nodes=set(stop_nodes))}
                    if not (defblocks & (between - {start_block})):
                        cut.add((sb, tg))
    return cut


# ---------------------------------------------------------------- loops
def loops_over(fv, iter_pred):
    """`for x in <collection>` loops: (header_block, next_call, body_entry_edges, exit_edges) for every
    Iterator::next call whose iterator expression rendering satisfies iter_pred"""
    out = []
    for bi, c in fv.b.calls():
        nm = c.callee.name if c.callee else ""
        if nm.endswith("Iterator>::next") or nm.endswith("::next") and "iter" in nm.lower():
            if not c.args:
                continue
            src = render(fv.expr(c.args[0]))
            if iter_pred(src):
                out.append((bi, c, fv.result_edges(bi, c, "ok"), fv.result_edges(bi, c, "err")))
    return out


def iteration_possible(fv, header, body_edges, cut):
    """can one iteration of the loop complete (control returns to the header) avoiding `cut` edges"""
    for (u, v) in body_edges:
        if (u, v) in cut:
            continue
        if header in fv.reach(v, cut_edges=cut):
            return True
    return False


def element_scenario_refused(ctx, rid, body, iter_pred, scenario, key, what, named=True, floor=1):
    """per-element bound: in the loop over the collection, an iteration whose element satisfies `scenario`
    cannot complete (it ends in a refusal)"""
    fv = fnview(ctx, body)
    if named:
        fv = fv.named()
    ls = loops_over(fv, iter_pred)
    ctx.ob(rid, len(ls) >= floor, f"{key}/loop-present", f"{what}: loop over the collection not found in `{body.name}`",
           where=f"{body.file}:{body.line}", sample=f"{len(ls)} loop(s)")
    assum = [atoms.parse_atom(a) if isinstance(a, str) else a for a in scenario]
    cut = atoms.scenario_cut(fv, assum)
    for h, c, be, ee in ls:
        poss = iteration_possible(fv, h, be, cut)
        ctx.ob(rid, bool(cut) and not poss, key, what, where=f"{body.file}:{c.line}",
               detail={"scenario": scenario, "edges_cut": len(cut)},
               sample={"scenario": scenario, "edges_cut": len(cut), "loop_line": c.line})
    return ls


def iteration_must_pass(ctx, rid, body, iter_pred, guard_pred, guard_name, key, what):
    """every completed iteration passes Ok of the guard call"""
    fv = fnview(ctx, body)
    ls = loops_over(fv, iter_pred)
    ge = guard_edges(ctx, fv, guard_pred, 0)
    for h, c, be, ee in ls:
        poss = iteration_possible(fv, h, be, ge)
        ctx.ob(rid, bool(ge) and not poss, key, what, where=f"{body.file}:{c.line}",
               sample=f"each iteration passes Ok({guard_name})")
    ctx.ob(rid, len(ls) >= 1, f"{key}/loop-present", f"{what}: loop not found", where=f"{body.file}:{body.line}")


def named_scenario_refused(ctx, rid, body, scenario, key, what, sinks=None, policy=True, depth=0, need_cut=True):
    """scenario refusal evaluated over the named view (user variable names are symbols)"""
    fv0 = fnview(ctx, body, policy)
    fv = fv0.named()
    assum = [atoms.parse_atom(a) if isinstance(a, str) else a for a in scenario]
    cut = atoms.scenario_cut(fv, assum)
    if depth > 0:
        cut |= _callee_refusal_cuts(ctx, fv0, assum, depth)
    live = fv.reach(0, cut_edges=cut)
    sinks = sinks if sinks is not None else success_blocks(fv)
    bad = [s for s in sinks if s[0] in live]
    detail = None
    if bad or (need_cut and not cut):
        p = fv.path(0, bad[0][0], cut_edges=cut) if bad else None
        detail = {"scenario": scenario, "witness_path_lines": fv.lines_of_path(p), "edges_cut": len(cut)}
    ctx.ob(rid, (bool(cut) or not need_cut) and not bad, key, what,
           where=f"{body.file}:{bad[0][1] if bad else body.line}", detail=detail,
           sample={"scenario": scenario, "edges_cut": len(cut)})
    return not bad


# ---------------------------------------------------------------- bool payloads
def payload_bool_edges(fv, bi, call):
    """for a call returning Result<bool,_> / Option<bool> / (bool, _): edges taken when the inner bool is
    true / false.  Returns (true_edges, false_edges)."""
    b = fv.b
    if not call.dest.is_local():
        return set(), set()
    carriers = {call.dest.local}
    bools = set()
    changed = True
    while changed:
        changed = False
        for bj in fv.live_blocks():
            for s in b.stmts(bj):
                if s.kind != "a" or not s.place.is_local():
                    continue
                rv = s.rv
                pl = rv.ops[0].place if rv.op == "use" and rv.ops else (rv.place if rv.op == "ref" else None)
                if pl is None or pl.local not in carriers:
                    continue
                dst = s.place.local
                fields = [p for p in pl.proj if isinstance(p, tuple) and p[0] == "f"]
                if b.ty(dst) == "bool" and fields and fields[-1][2] == "0":
                    if dst not in bools:
                        bools.add(dst)
                        changed = True
                elif dst not in carriers and b.ty(dst) != "bool":
                    carriers.add(dst)
                    changed = True
            t = b.term(bj)
            if t.kind == "call" and t.call.args and t.call.args[0].place is not None and \
               t.call.args[0].place.local in carriers and t.call.dest.is_local():
                nm = t.call.callee.name if t.call.callee else ""
                from .cfg import IDENTITY_CALLS, UNWRAP_CALLS
                if any(f in nm for f in IDENTITY_CALLS) or any(nm.endswith(u) for u in UNWRAP_CALLS):
                    d = t.call.dest.local
                    if b.ty(d) == "bool":
                        if d not in bools:
                            bools.add(d)
                            changed = True
                    elif d not in carriers:
                        carriers.add(d)
                        changed = True
    te, fe = set(), set()
    for l in bools:
        fv._follow(l, False, "ok", te, set())
        fv._follow(l, False, "err", fe, set())
    # `if let (true, x) = call(..)`: the switch reads the tuple's field 0 in place
    for bj in fv.live_blocks():
        t = b.term(bj)
        if t.kind == "switch" and t.discr.place is not None and t.discr.place.local in carriers:
            fields = [p for p in t.discr.place.proj if isinstance(p, tuple) and p[0] == "f"]
            if fields and fields[-1][2] == "0":
                listed = {v for v, _ in t.arms}
                for v, tg in t.arms:
                    (te if v != 0 else fe).add((bj, tg))
                if listed == {0}:
                    te.add((bj, t.otherwise))
                elif listed == {1}:
                    fe.add((bj, t.otherwise))
    return te, fe


def eq_sites(fv, operand_pred):
    """equality tests between two designated operands, in either form (PartialEq call, or primitive ==/!=
    feeding a branch): [(block, line, equal_edges, differ_edges, r0, r1)]"""
    out = []
    for bi, c, is_ne, r0, r1 in comparison_sites(fv, operand_pred):
        out.append((bi, c.line, fv.result_edges(bi, c, "err" if is_ne else "ok"),
                    fv.result_edges(bi, c, "ok" if is_ne else "err"), r0, r1))
    b = fv.b
    for bi in sorted(fv.live_blocks()):
        t = b.term(bi)
        if t.kind != "switch" or t.discr.place is None or not t.discr.place.is_local():
            continue
        if b.ty(t.discr.place.local) != "bool":
            continue
        e = strip_ref(fv.expr(t.discr))
        pol = True
        while e[0] == "not":
            e = strip_ref(e[1])
            pol = not pol
        if e[0] != "cmp" or e[1] not in ("==", "!="):
            continue
        if any(x[0] == "call" and "cmp::PartialEq" in x[1] for x in [e]):
            continue
        r0, r1 = render(e[2]), render(e[3])
        if not (operand_pred(r0, r1) or operand_pred(r1, r0)):
            continue
        # skip comparisons already reported through their PartialEq call
        if any(o[4] == r0 and o[5] == r1 for o in out):
            continue
        true_e, false_e = set(), set()
        fv._bool_switch(bi, t, False, "ok", true_e)
        fv._bool_switch(bi, t, False, "err", false_e)
        if not pol:
            true_e, false_e = false_e, true_e
        eqe, dife = (true_e, false_e) if e[1] == "==" else (false_e, true_e)
        out.append((bi, t.line, eqe, dife, r0, r1))
    return out


def reach_consistent(fv, starts, cut_nodes=(), cut_edges=(), facts0=()):
    """blocks reachable from `starts` (iterable of blocks) on paths that are consistent in the values of named
    boolean variables: a branch on `x` / `!x` fixes x until x is reassigned.  (A tiny path-sensitive domain: the
    state is the set of known boolean variables.)"""
    b = fv.b
    nv = fv.named() if not fv.keep_names else fv
    cut_nodes = set(cut_nodes)
    cut_edges = set(cut_edges) | fv.removed
    # per block: names of bool variables (re)defined there
    name_of = {l: b.local_name(l) for l in range(len(b.local_tys)) if b.local_name(l) and b.ty(l) == "bool"}
    defs_in = {}
    for l, n in name_of.items():
        for d in fv.defs.get(l, []):
            defs_in.setdefault(d[0], set()).add(n)
    # constant assignments (`flag = true`) establish the value instead of forgetting it
    const_in = {}
    for bi_ in range(fv.n):
        if b.cleanup[bi_]:
            continue
        for st in b.stmts(bi_):
            if st.kind == "a" and st.place.is_local() and st.place.local in name_of:
                n_ = name_of[st.place.local]
                val = None
                if st.rv.op == "use" and st.rv.ops and st.rv.ops[0].const is not None:
                    sv = str(st.rv.ops[0].const.get("s", st.rv.ops[0].const.get("v")))
                    val = True if sv in ("true", "1") else (False if sv in ("false", "0") else None)
                const_in.setdefault(bi_, {})[n_] = val
    edge_atom = {}
    for sb in range(fv.n):
        if b.cleanup[sb] or b.term(sb).kind != "switch":
            continue
        for tg, atom in atoms.edge_atoms(nv, sb):
            if atom is not None and atom[0] == "bool" and atom[1][0] in name_of.values():
                edge_atom[(sb, tg)] = (atom[1][0], atom[2])
    seen = set()
    out = set()
    work = [(s, frozenset(facts0)) for s in starts if s not in cut_nodes]
    while work:
        blk, facts = work.pop()
        if (blk, facts) in seen:
            continue
        seen.add((blk, facts))
        out.add(blk)
        f = dict(facts)
        for n in defs_in.get(blk, ()):
            f.pop(n, None)
        for n, val in const_in.get(blk, {}).items():
            if val is None:
                f.pop(n, None)
            else:
                f[n] = val
        for v in fv.succ[blk]:
            if v in cut_nodes or (blk, v) in cut_edges:
                continue
            ea = edge_atom.get((blk, v))
            nf = dict(f)
            if ea is not None:
                n, val = ea
                if n in nf and nf[n] != val:
                    continue        # inconsistent with what an earlier branch established
                nf[n] = val
            work.append((v, frozenset(nf.items())))
    return out


def closure_env(ctx, parent_body, closure_def):
    """{captured variable name: expression in the parent} for a closure created in parent_body"""
    fv = fnview(ctx, parent_body)
    caps = closure_def.captures or []
    for bi in fv.live_blocks():
        for s in parent_body.stmts(bi):
            if s.kind == "a" and s.rv.op == "agg" and isinstance(s.rv.a, tuple) and s.rv.a[0] == "closure" \
               and s.rv.a[1].id == closure_def.id:
                env = {}
                for i, op in enumerate(s.rv.ops):
                    n = caps[i] if i < len(caps) else str(i)
                    n = n[6:] if n.startswith("_ref__") else n
                    env[n] = fv.expr(op)
                return env
    return {}


def subst_captures(e, env):
    """replace captured-variable symbols ("param", name, -1) by the parent's expressions"""
    if not isinstance(e, tuple):
        return e
    if e and e[0] == "param" and len(e) == 3 and e[2] == -1 and e[1] in env:
        return env[e[1]]
    return tuple(subst_captures(x, env) if isinstance(x, tuple) else x for x in e)


# ---------------------------------------------------------------- bounds are compared on untruncated values
def _narrow_nodes(ctx, fv, e, depth, seen):
    """("narrow", from, to, inner) nodes in the derivation of expression e, looking into the return values of
    in-program callees (depth-bounded)"""
    out = []
    for x in subexprs(e):
        if x[0] == "narrow":
            out.append((fv.b, x))
        elif x[0] == "call" and depth > 0:
            for d in ctx.prog.by_name.get(x[1], []):
                cb = ctx.prog.bodies.get(d.id)
                if cb is None or cb.d.id in seen or not cb.file or "/repo/" in cb.file and False:
                    continue
                cv = fnview(ctx, cb, policy=False).with_narrow()
                if cv.single_def(0) is not None:
                    out += _narrow_nodes(ctx, cv, cv.local_expr(0), depth - 1, seen | {cb.d.id})
                    continue
                # several return sites: every assignment of _0
                for bi in cv.live_blocks():
                    for st in cb.stmts(bi):
                        if st.kind == "a" and st.place.local == 0 and not st.place.proj:
                            if st.rv.op == "cast" and st.rv.a == "IntToInt":
                                o = st.rv.ops[0]
                                sty = cb.ty(o.place.local) if o.place is not None and not o.place.proj else None
                                dty = cb._types[st.rv.extra] if isinstance(st.rv.extra, int) else None
                                from .cfg import INT_WIDTH
                                if sty in INT_WIDTH and dty in INT_WIDTH and INT_WIDTH[sty] > INT_WIDTH[dty]:
                                    if not _cast_guarded(ctx, cb, bi, o, dty):
                                        out.append((cb, ("narrow", sty, dty, cv.expr(o))))
                            for o in st.rv.ops:
                                out += _narrow_nodes(ctx, cv, cv.expr(o), depth - 1, seen | {cb.d.id})
    return out


def _cast_guarded(ctx, cb, bi, operand, dty):
    """the narrowing cast in block bi only runs when its operand fits the target type: the block is unreachable in the
    scenario `operand > MAX(target)` (`if x > u32::MAX as u128 { u32::MAX } else { x as u32 }`, `min(x, MAX) as u32`)"""
    from . import atoms
    from .cfg import INT_WIDTH
    try:
        nv = fnview(ctx, cb, policy=False).named()
        name = render(nv.expr(operand))
        mx = (1 << INT_WIDTH[dty]) - 1 if dty.startswith("u") else (1 << (INT_WIDTH[dty] - 1)) - 1
        cut = atoms.scenario_cut(nv, [atoms.parse_atom(f"{name} > {mx}")])
        return bool(cut) and bi not in nv.reach(0, cut_edges=cut)
    except Exception:
        return False


def bound_comparisons_untruncated(ctx, rid, body, bound_pred, key, depth=2):
    """every integer comparison in `body` one of whose sides mentions a policy bound (bound_pred on the rendering):
    the other side's derivation contains no value-truncating integer cast.  Returns number of comparisons."""
    fv = fnview(ctx, body).with_narrow()
    b = body
    n = 0
    for bi in sorted(fv.live_blocks()):
        for s in b.stmts(bi):
            if s.kind != "a" or s.rv.op != "bin" or s.rv.a not in ("Gt", "Lt", "Ge", "Le", "Eq", "Ne"):
                continue
            l, r = fv.expr(s.rv.ops[0]), fv.expr(s.rv.ops[1])
            rl, rr = render(l), render(r)
            for bound, other, ro in ((rl, r, rr), (rr, l, rl)):
                if not bound_pred(bound) or bound_pred(ro):
                    continue
                n += 1
                bad = _narrow_nodes(ctx, fv, other, depth, {b.d.id})
                where = f"{b.file}:{s.line}"
                desc = "; ".join(f"`{render(x[3])[:70]}` {x[1]} -> {x[2]} in {bb.name.rsplit('::', 1)[-1]}" for bb, x in bad[:3])
                ctx.ob(rid, not bad, f"{key}/{bound.rsplit('.', 1)[-1][:40]}/untruncated",
                       f"`{b.name}` compares `{ro[:80]}` with the policy bound `{bound[:60]}`, but that value was truncated on the "
                       f"way ({desc}): a large enough amount wraps around and passes the bound",
                       where=where, sample=f"{ro[:50]} vs {bound[:40]}: no truncating cast")
    return n


# ---------------------------------------------------------------- values chosen by a branch
def conditional_defs(fv, operand):
    """An operand whose value is chosen by a branch (`let x = if c { A } else { B }`, match arms, Option presence):
    follows plain moves to the local with several definitions and returns
      (root_local, [(block, [operand expressions of that definition])], [(switch block, condition expression)])
    where the switches are those that decide which definition is taken: at least two of their targets lead to
    different, non-empty sets of definitions.  A single-definition operand gives one definition and no switch."""
    b = fv.b
    if operand.place is None or not operand.place.is_local():
        return None, [(None, [fv.expr(operand)])], []
    l = operand.place.local
    seen = set()
    while l not in seen:
        seen.add(l)
        sd = fv.single_def(l)
        if sd is None or sd[1] == "T":
            break
        st = sd[2]
        if st.kind == "a" and st.rv.op == "use" and st.rv.ops and st.rv.ops[0].place is not None \
           and st.rv.ops[0].place.is_local():
            l = st.rv.ops[0].place.local
            continue
        break
    live = fv.live_blocks()
    defs = []
    for (bi, idx, obj) in fv.defs.get(l, []):
        if bi not in live:
            continue
        if idx == "T":
            defs.append((bi, [fv._call_expr(obj, 0)]))
        elif obj.kind == "a":
            ops = [fv.expr(o) for o in obj.rv.ops] if obj.rv.ops else []
            if obj.rv.op == "agg" and isinstance(obj.rv.a, tuple) and obj.rv.a[0] == "adt":
                ops = ops + [("k", f"{obj.rv.a[1].name}::{obj.rv.a[2]}")]
            if obj.rv.op in ("ref", "ptr", "discr") and obj.rv.place is not None:
                ops.append(fv.place_expr(obj.rv.place))
            defs.append((bi, ops))
    dblocks = {bi for bi, _ in defs}
    sw = []
    if len(dblocks) > 1:
        for s in sorted(live):
            t = b.term(s)
            if t.kind != "switch":
                continue
            sets = []
            for tg in set(fv.succ[s]):
                r = fv.reach(tg, cut_nodes={s}) & dblocks
                if r:
                    sets.append(frozenset(r))
            if len(sets) >= 2 and len(set(sets)) >= 2:
                sw.append((s, fv.expr(t.discr)))
    return l, defs, sw


def all_defs(fv, name):
    """rendered definitions of the user variable `name`; a variable initialised from a value chosen by a branch
    (`let x = if c {A} else {B}`, or the result of an inlined helper) yields every alternative"""
    from .cfg import render
    b = fv.b
    out = []
    live = fv.live_blocks()
    for l0 in range(len(b.local_tys)):
        if b.local_name(l0) != name:
            continue
        l, seen = l0, set()
        while l not in seen:
            seen.add(l)
            ds = [d for d in fv.defs.get(l, []) if d[0] in live]
            if len(ds) == 1 and ds[0][1] != "T" and ds[0][2].kind == "a" and ds[0][2].rv.op == "use" and \
               ds[0][2].rv.ops[0].place is not None and ds[0][2].rv.ops[0].place.is_local() and \
               len([d for d in fv.defs.get(ds[0][2].rv.ops[0].place.local, []) if d[0] in live]) > 1:
                l = ds[0][2].rv.ops[0].place.local
                continue
            break
        for (bi, idx, obj) in fv.defs.get(l, []):
            if bi not in live:
                continue
            if idx == "T":
                out.append(render(fv._call_expr(obj, 0)))
            elif obj.kind == "a" and obj.rv.ops:
                out.append(render(fv.expr(obj.rv.ops[0])))
    return out


def is_new_const(rendered):
    """the rendering names a constant that does not exist in the reference tree (introduced by the change)"""
    from . import inline
    kc = inline.known_consts()
    return kc is not None and "::" in rendered and rendered not in kc and rendered.rsplit("::", 1)[-1].isupper()

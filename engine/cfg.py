"""Per-function views over the MIR facts: pruned CFG, must-pass-through by edge removal,
checked-call ("?") recognition, return-site classification, expression reconstruction and
canonical linear atoms (the E2/E3/E4 primitives).  Generic; no repository rule tables here
except the two modelling conventions of DESIGN §3 (policy errors diverge; panics exit)."""
from collections import defaultdict, deque

from .facts import Broken, Operand, Place

POLICY_ERROR_FNS = {
    "lightning_signer::policy::Policy::policy_error",
    "lightning_signer::policy::Policy::temporary_policy_error",
}

# callee name fragments: value-preserving wrappers (result/option container or the value)
IDENTITY_CALLS = (
    "::ops::Deref>::deref", "::ops::DerefMut>::deref_mut", "::clone::Clone>::clone",
    "::convert::AsRef<", "::convert::AsMut<", "::borrow::Borrow<", "::convert::Into<",
    "::convert::From<", "::ops::Try>::branch", "::hint::must_use", "::borrow::ToOwned>::to_owned",
    "Option::<T>::as_ref", "Option::<T>::as_mut", "Result::<T, E>::as_ref", "Option::<T>::cloned",
    "Option::<T>::copied", "Result::<T, E>::map_err", "Option::<T>::ok_or", "Option::<T>::ok_or_else",
    "Result::<T, E>::ok", "Option::<T>::as_deref", "Result::<T, E>::as_deref", "::vec::Vec<T, A>::as_slice",
    "::string::String::as_str", "::iter::IntoIterator>::into_iter", "slice::<impl [T]>::iter",
    "Option::<&T>::cloned", "Option::<&T>::copied", "Option::<T>::take", "<impl [T; N]>::as_slice", "Vec::<T, A>::as_slice", "impl std::clone::Clone for ",
)
UNWRAP_CALLS = ("Result::<T, E>::unwrap", "Result::<T, E>::expect", "Option::<T>::unwrap",
                "Option::<T>::expect", "Option::<T>::unwrap_or", "Result::<T, E>::unwrap_or")
CHECKED_ARITH = {
    "checked_add": "+", "checked_sub": "-", "checked_mul": "*", "checked_div": "/",
    "saturating_add": "+", "saturating_sub": "sat-", "wrapping_add": "+", "wrapping_sub": "-",
}
BINOPS = {"Add": "+", "AddWithOverflow": "+", "AddUnchecked": "+", "Sub": "-",
          "SubWithOverflow": "-", "SubUnchecked": "-", "Mul": "*", "MulWithOverflow": "*",
          "MulUnchecked": "*", "Div": "/", "Rem": "%"}
CMPOPS = {"Gt": ">", "Ge": ">=", "Lt": "<", "Le": "<=", "Eq": "==", "Ne": "!="}


# names introduced by compiler desugarings (`?`, `for`, format_args!), not by the programmer
DESUGAR_NAMES = {"val", "residual", "iter", "__next", "args", "e", "err"}


INT_WIDTH = {"u8": 8, "u16": 16, "u32": 32, "u64": 64, "u128": 128, "usize": 64,
             "i8": 8, "i16": 16, "i32": 32, "i64": 64, "i128": 128, "isize": 64}


def _closure_diverges(prog, cdef):
    """the closure body never returns (every path ends in a panic / diverging call)"""
    b = prog.bodies.get(cdef.id)
    if b is None:
        return False
    seen, work = {0}, [0]
    while work:
        bi = work.pop()
        t = b.term(bi)
        if t.kind == "ret":
            return False
        for s_ in b.succs(bi):
            if not b.cleanup[s_] and s_ not in seen:
                seen.add(s_)
                work.append(s_)
    return True


def short(name):
    """last path segments for display"""
    return name


class FnView:
    def __init__(self, prog, body, policy_diverges=True):
        self.prog = prog
        self.b = body
        n = len(body.blocks)
        self.n = n
        self.succ = [[t for t in body.succs(i) if not body.cleanup[t]] for i in range(n)]
        self.removed = set()
        self._defs = None
        self._expr_cache = {}
        self.restrict = None
        self.keep_names = False
        self.policy_sites = []   # (bi, tag)
        self._thread_const_switches()
        if policy_diverges:
            self._prune_policy()

    def _thread_const_switches(self):
        """`x = const true; goto J` where J is nothing but `switch(x)`: the outcome is known, go straight to the arm.
        (`matches!(..)`, `a && b` and similar lower to a boolean temporary that is set to a constant on each path and
        tested right after the join; without this every path through the join could take either arm.)"""
        b = self.b
        for bi in range(self.n):
            if b.cleanup[bi]:
                continue
            t = b.term(bi)
            if t.kind != "goto" or not t.targets:
                continue
            j = t.targets[0]
            if b.cleanup[j] or b.stmts(j):
                continue
            tj = b.term(j)
            if tj.kind != "switch" or tj.discr.place is None or not tj.discr.place.is_local():
                continue
            l = tj.discr.place.local
            val = None
            for st in b.stmts(bi):
                if st.kind == "a" and st.place.is_local() and st.place.local == l:
                    val = None
                    if st.rv.op == "use" and st.rv.ops and st.rv.ops[0].const is not None and "v" in st.rv.ops[0].const:
                        val = int(st.rv.ops[0].const["v"])
            if val is None:
                continue
            tgt = next((tg for v, tg in tj.arms if v == val), tj.otherwise)
            if tgt is not None and not b.cleanup[tgt]:
                self.succ[bi] = [tgt]
        # the same for `r = Ok(..) | Err(..); goto J` where J is nothing but `c = Try::branch(r)` followed by the switch on
        # c's discriminant (the `?` applied to the result slot of an inlined helper): an Err definition goes to the Break arm,
        # an Ok definition to the Continue arm
        for bi in range(self.n):
            if b.cleanup[bi]:
                continue
            t = b.term(bi)
            if t.kind != "goto" or not t.targets:
                continue
            j = t.targets[0]
            hops = 0
            fwd = {}      # locals that merely forward the result slot on the way (`dest = move slot`)

            def _only_moves(blk):
                for st_ in b.stmts(blk):
                    if not (st_.kind == "a" and st_.place.is_local() and st_.rv.op == "use" and st_.rv.ops and
                            st_.rv.ops[0].place is not None and st_.rv.ops[0].place.is_local()):
                        return False
                return True
            while hops < 4 and not b.cleanup[j] and _only_moves(j) and b.term(j).kind == "goto" and b.term(j).targets:
                for st_ in b.stmts(j):
                    fwd[st_.place.local] = st_.rv.ops[0].place.local
                j = b.term(j).targets[0]      # the inlined callee's return block, then the caller's continuation
                hops += 1
            if b.cleanup[j] or not _only_moves(j):
                continue
            for st_ in b.stmts(j):
                fwd[st_.place.local] = st_.rv.ops[0].place.local
            tj = b.term(j)
            if tj.kind != "call" or tj.call.callee is None or "ops::Try>::branch" not in tj.call.callee.name:
                continue
            a0 = tj.call.args[0].place if tj.call.args else None
            if a0 is None or not a0.is_local() or not tj.call.dest.is_local() or not tj.targets:
                continue
            l = a0.local
            seen_ = set()
            while l in fwd and l not in seen_:
                seen_.add(l)
                l = fwd[l]
            k = tj.targets[0]
            if b.cleanup[k]:
                continue
            ks = b.stmts(k)
            tk = b.term(k)
            if len(ks) != 1 or ks[0].kind != "a" or ks[0].rv.op != "discr" or ks[0].rv.place is None or \
               ks[0].rv.place.local != tj.call.dest.local or tk.kind != "switch" or tk.discr.place is None or \
               tk.discr.place.local != ks[0].place.local:
                continue
            arm = None
            for st in b.stmts(bi):
                if st.kind == "a" and st.place.is_local() and st.place.local == l:
                    arm = None
                    rv = st.rv
                    if rv.op == "agg" and isinstance(rv.a, tuple) and rv.a[0] == "adt":
                        if rv.a[2] in ("Ok", "Some"):
                            arm = 0
                        elif rv.a[2] in ("Err", "None"):
                            arm = 1
            if arm is None:
                continue
            tgt = next((tg for v, tg in tk.arms if v == arm), tk.otherwise)
            if tgt is not None and not b.cleanup[tgt]:
                self.succ[bi] = [tgt]

    # ------------------------------------------------------------- definitions
    @property
    def defs(self):
        """local -> list of (bi, idx|'T', what) full definitions; partial writes in self.partial"""
        if self._defs is None:
            d = defaultdict(list)
            part = defaultdict(list)
            b = self.b
            for bi in range(self.n):
                if b.cleanup[bi]:
                    continue
                for si, s in enumerate(b.stmts(bi)):
                    if s.place.is_local():
                        d[s.place.local].append((bi, si, s))
                    else:
                        part[s.place.local].append((bi, si, s))
                t = b.term(bi)
                if t.kind == "call":
                    if t.call.dest.is_local():
                        d[t.call.dest.local].append((bi, "T", t.call))
                    else:
                        part[t.call.dest.local].append((bi, "T", t.call))
            self._defs = d
            self.partial = part
        return self._defs

    def single_def(self, local):
        ds = self.defs.get(local, [])
        if self.restrict is not None:
            ds = [d for d in ds if d[0] in self.restrict]
        if len(ds) == 1 and not self._mut_partial(local):
            # a value that is later mutated through `&mut local` (extend, push, closures capturing it mutably)
            # is not described by its initialiser
            return ds[0]
        return None

    def _mut_borrowed_cached(self, local):
        c = self.__dict__.setdefault("_mb_cache", {})
        if local not in c:
            c[local] = self._mut_borrowed(local)
        return c[local]

    def restricted(self, live):
        """same function, but a local counts as single-definition when only one of its
        definitions lies in `live` blocks"""
        import copy
        v = copy.copy(self)
        v.restrict = set(live)
        v._expr_cache = {}
        return v

    def _mut_borrowed(self, local):
        b = self.b
        for bi in range(self.n):
            if b.cleanup[bi]:
                continue
            for s in b.stmts(bi):
                if s.kind == "a" and s.rv.op in ("ref", "ptr") and s.rv.a and s.rv.place.local == local \
                   and "*" not in s.rv.place.proj:
                    return True
        return False

    def _mut_partial(self, local):
        # partial writes through a *direct* projection (not through deref) change the local itself
        for (_, _, s) in self.partial.get(local, []):
            pl = s.place if hasattr(s, "place") and not hasattr(s, "args") else s.dest
            if pl.proj and pl.proj[0] != "*":
                return True
        return False

    # ------------------------------------------------------------- CFG helpers
    def edges(self):
        for u in range(self.n):
            for v in self.succ[u]:
                if (u, v) not in self.removed:
                    yield u, v

    def reach(self, start=0, cut_edges=(), cut_nodes=()):
        """set of blocks reachable from start in the pruned CFG minus cuts"""
        cut_edges = set(cut_edges) | self.removed
        cut_nodes = set(cut_nodes)
        if start in cut_nodes:
            return set()
        seen = {start}
        dq = deque([start])
        while dq:
            u = dq.popleft()
            for v in self.succ[u]:
                if v in seen or v in cut_nodes or (u, v) in cut_edges:
                    continue
                seen.add(v)
                dq.append(v)
        return seen

    def reaches(self, a, b, cut_edges=(), cut_nodes=()):
        return b in self.reach(a, cut_edges, cut_nodes)

    def live_blocks(self):
        return self.reach(0)

    def must_pass(self, sink_block, edge_set, start=0):
        """every path start->sink uses at least one edge of edge_set (vacuous if unreachable)"""
        return sink_block not in self.reach(start, cut_edges=edge_set)

    def path(self, a, b, cut_edges=(), cut_nodes=()):
        """one witness path (list of blocks) or None"""
        cut_edges = set(cut_edges) | self.removed
        cut_nodes = set(cut_nodes)
        prev = {a: None}
        dq = deque([a])
        while dq:
            u = dq.popleft()
            if u == b:
                out = []
                while u is not None:
                    out.append(u)
                    u = prev[u]
                return out[::-1]
            for v in self.succ[u]:
                if v in prev or v in cut_nodes or (u, v) in cut_edges:
                    continue
                prev[v] = u
                dq.append(v)
        return None

    def lines_of_path(self, p):
        out = []
        for bi in p or []:
            t = self.b.term(bi)
            if t.line and (not out or out[-1] != t.line):
                out.append(t.line)
        return out

    # ------------------------------------------------------------- policy pruning
    def _prune_policy(self):
        """DESIGN §3.1: a call to Policy::policy_error (non-permissive policy) returns Err;
        remove the Continue edge of the `?` that consumes it."""
        b = self.b
        for bi, c in b.calls():
            if c.decl is not None and c.decl.name in POLICY_ERROR_FNS or \
               c.callee is not None and c.callee.name in POLICY_ERROR_FNS:
                tag = self._policy_tag(bi, c)
                self.policy_sites.append((bi, tag))
                for e in self.result_edges(bi, c, want="ok"):
                    self.removed.add(e)

    def _policy_tag(self, bi, call):
        # tag argument is args[1]: String made by Into::into(const "policy-...")
        try:
            e = self.expr(call.args[1])
        except Exception:
            return None
        return find_str(e)

    # ------------------------------------------------------------- result edges ("?" etc.)
    def result_edges(self, bi, call, want="ok"):
        """CFG edges taken exactly when the Result/Option/bool produced by `call` (at block bi)
        is Ok/Some/true (want='ok') or Err/None/false (want='err').
        Follows value-preserving wrappers (Try::branch, map_err, ok_or, as_ref ...), `?`,
        `match`, `if let`, `.is_ok()/.is_err()/.is_some()/.is_none()`, unwrap/expect.
        Returns a set of edges; empty if the result is not tested (unchecked)."""
        edges = set()
        if not call.dest.is_local():
            return edges
        self._follow(call.dest.local, False, want, edges, set(), start=(bi, "T"))
        return edges

    def _uses(self, local):
        """all uses (reads) of a local: yields (bi, idx|'T', kind, obj)"""
        b = self.b
        for bi in self.live_blocks():
            for si, s in enumerate(b.stmts(bi)):
                if s.kind == "a":
                    rv = s.rv
                    for o in rv.ops:
                        if o.place is not None and o.place.local == local:
                            yield bi, si, "stmt", s
                            break
                    else:
                        if rv.place is not None and rv.place.local == local:
                            yield bi, si, "stmt", s
            t = b.term(bi)
            if t.kind == "call":
                for ai, a in enumerate(t.call.args):
                    if a.place is not None and a.place.local == local:
                        yield bi, "T", "callarg", (t.call, ai)
            elif t.kind == "switch":
                if t.discr.place is not None and t.discr.place.local == local:
                    yield bi, "T", "switch", t

    def _follow(self, local, inverted, want, edges, seen, start=None):
        """track a local that carries the ok-ness of the original result"""
        if (local, inverted) in seen:
            return
        seen.add((local, inverted))
        b = self.b
        for bi, idx, kind, obj in self._uses(local):
            if kind == "switch":
                # switch directly on a bool local
                t = obj
                ty = b.ty(local)
                if ty == "bool":
                    self._bool_switch(bi, t, inverted, want, edges)
            elif kind == "stmt":
                s = obj
                rv = s.rv
                if not s.place.is_local():
                    continue
                dst = s.place.local
                if rv.op == "discr":
                    # _d = discriminant(local or projection of it)
                    self._discr_switch(dst, local, inverted, want, edges)
                elif rv.op in ("use", "ref"):
                    pl = rv.ops[0].place if rv.op == "use" else rv.place
                    if pl is not None and all(p == "*" for p in pl.proj):
                        self._follow(dst, inverted, want, edges, seen)
                elif rv.op == "un" and rv.a == "Not":
                    self._follow(dst, not inverted, want, edges, seen)
            elif kind == "callarg":
                call, ai = obj
                nm = call.callee.name if call.callee else ""
                if not call.dest.is_local():
                    continue
                dst = call.dest.local
                if ai == 0 and any(f in nm for f in IDENTITY_CALLS):
                    self._follow(dst, inverted, want, edges, seen)
                elif ai == 0 and (nm.endswith("::is_ok") or nm.endswith("::is_some")):
                    self._follow(dst, inverted, want, edges, seen)
                elif ai == 0 and (nm.endswith("::is_err") or nm.endswith("::is_none")):
                    self._follow(dst, not inverted, want, edges, seen)
                elif ai == 0 and any(nm.endswith(u) for u in UNWRAP_CALLS[:4]):
                    # unwrap/expect: continuing means Ok/Some
                    if (want == "ok") != inverted and call.target is not None:
                        edges.add((bi, call.target))
                elif ai == 0 and nm.endswith("::unwrap_or_else") and call.cls and \
                        all(_closure_diverges(self.prog, cd) for cd in call.cls):
                    # unwrap_or_else(|e| panic!(..)): same as expect
                    if (want == "ok") != inverted and call.target is not None:
                        edges.add((bi, call.target))

    def _bool_switch(self, bi, t, inverted, want, edges):
        # arms: [(0, F)] otherwise T  (or explicit values)
        for v, tgt in t.arms:
            truth = (v != 0)
            if inverted:
                truth = not truth
            if truth == (want == "ok"):
                edges.add((bi, tgt))
        # otherwise arm: the values not listed; for bool with arm 0 listed, otherwise == true
        listed = {v for v, _ in t.arms}
        if len(listed) == 1:
            other_truth = (0 in listed)
            if inverted:
                other_truth = not other_truth
            if other_truth == (want == "ok"):
                edges.add((bi, t.otherwise))

    def _discr_switch(self, dlocal, src_local, inverted, want, edges):
        b = self.b
        ty = b.ty(src_local)
        okidx = ok_discr(ty)
        if okidx is None:
            return
        for bi in self.live_blocks():
            t = b.term(bi)
            if t.kind == "switch" and t.discr.place is not None and t.discr.place.local == dlocal \
               and t.discr.place.is_local():
                # only the switch fed by this discriminant read (same block or dominated)
                for v, tgt in t.arms:
                    is_ok = (v == okidx)
                    if inverted:
                        is_ok = not is_ok
                    if is_ok == (want == "ok"):
                        edges.add((bi, tgt))
                listed = {v for v, _ in t.arms}
                if len(listed) == 1 and t.otherwise is not None:
                    # two-variant enum with one arm listed: otherwise is the other variant
                    tgt_live = t.otherwise
                    stm = b.term(tgt_live)
                    if stm.kind != "unreachable":
                        other_ok = (okidx not in listed)
                        if inverted:
                            other_ok = not other_ok
                        if other_ok == (want == "ok"):
                            edges.add((bi, t.otherwise))

    # ------------------------------------------------------------- return sites
    def return_sites(self):
        """classify every assignment of the return place _0.  A site is positioned at the block that assigns _0;
        when _0 is a copy of another local, one site per distinct kind of that local's definitions is produced
        (still positioned at the block assigning _0).
        list of dict(block, kind, how, line) kind in ok/err/maybe/some/none/true/false/value"""
        out = []
        live = self.live_blocks()
        for (bi, idx, obj) in self.defs.get(0, []):
            if bi not in live:
                continue
            for (kind, how, line, extra) in self._classify_def(idx, obj, set()):
                d = {"block": bi, "kind": kind, "how": how, "line": line}
                d.update(extra)
                out.append(d)
        # de-duplicate
        seen, res = set(), []
        for d in out:
            k = (d["block"], d["kind"], d["how"], d.get("def_block"))
            if k not in seen:
                seen.add(k)
                res.append(d)
        return res

    def _classify_def(self, idx, obj, seen):
        if idx == "T":
            call = obj
            nm = call.callee.name if call.callee else "<fnptr>"
            if "FromResidual" in nm and "from_residual" in nm:
                kind = "err"
            else:
                kind = "maybe"
            return [(kind, f"call {nm}", call.line, {"call": call})]
        s = obj
        if s.kind != "a":
            return []
        rv = s.rv
        if rv.op == "agg" and isinstance(rv.a, tuple) and rv.a[0] == "adt":
            v = rv.a[2]
            kind = {"Ok": "ok", "Err": "err", "Some": "some", "None": "none",
                    "Continue": "ok", "Break": "err"}.get(v, "value")
            return [(kind, f"{rv.a[1].name}::{v}", s.line, {"stmt": s})]
        if rv.op == "use" and rv.ops[0].place is not None and rv.ops[0].place.is_local():
            l = rv.ops[0].place.local
            if l in seen:
                return []
            res = []
            ds = [d for d in self.defs.get(l, []) if d[0] in self.live_blocks()]
            if not ds or self._mut_borrowed(l):
                # written through a `&mut` handed to a closure/callee: value unknown
                return [("value", repr(rv), s.line, {"stmt": s})]
            for (bi2, idx2, obj2) in ds:
                for (k, h, ln, ex) in self._classify_def(idx2, obj2, seen | {l}):
                    ex2 = ex if "call" in ex else {"stmt": s, "def_stmt": ex.get("stmt")}
                    if len(ds) > 1:
                        # the copied local gets its value on several paths (`let r = if c { Some(..) } else { None }; r`, the
                        # result of an inlined helper): remember where *this* kind of value is made, so that "this outcome
                        # only behind guard G" can be asked about that block instead of the join
                        ex2 = dict(ex2, def_block=ex.get("def_block", bi2))
                    res.append((k, h, s.line, ex2))
            return res
        if rv.op == "use" and rv.ops[0].const is not None:
            sv = rv.ops[0].const["s"]
            kind = {"true": "true", "false": "false"}.get(sv, "value")
            if "None" in sv and "Option" in self.b.const_ty(rv.ops[0].const):
                kind = "none"
            return [(kind, f"const {sv}", s.line, {"stmt": s})]
        return [("value", repr(rv), s.line, {"stmt": s})]

    def success_sites(self):
        """return sites that may deliver a non-error result"""
        return [r for r in self.return_sites() if r["kind"] not in ("err", "none", "false")]

    # ------------------------------------------------------------- expressions
    def expr(self, op, depth=0):
        """symbolic expression of an operand (tuple tree)"""
        if isinstance(op, Operand):
            if op.const is not None:
                return self._const_expr(op.const)
            if op.place is None:
                return ("opaque", "rt")
            return self.place_expr(op.place, depth)
        raise TypeError(op)

    def _const_expr(self, c):
        if "v" in c and self.b.const_ty(c) == "bool":
            return ("k", "true" if int(c["v"]) else "false")
        if "v" in c:
            d = self.b.const_def(c, "def")
            if d is not None:
                from . import inline
                kc = inline.known_consts()
                if kc is None or d.name in kc:
                    return ("int", int(c["v"]), d.name)
            return ("int", int(c["v"]))
        s = c["s"]
        if s.startswith('"'):
            return ("str", s[1:-1])
        d = self.b.const_def(c, "def")
        if c.get("promoted"):
            pv = c.get("pv", "")
            # `_1 = Enum::Variant; _0 = &_1`  -> the variant path ; otherwise the description
            import re as _re
            m = _re.match(r"^_1 = ([A-Za-z_][A-Za-z0-9_:<>]*)(?:\s*\{\s*\})?; _0 = &_1$", pv)
            if m:
                return ("k", m.group(1))
            # `(a..=b)`: temporaries, then RangeInclusive::new(a, b)
            m = _re.search(r"_1 = std::ops::RangeInclusive::<\w+>::new\(([^,]+), ([^)]+)\); _0 = &_1$", pv)
            if m:
                env = {}
                for part in pv.split("; "):
                    mm = _re.match(r"^(_\d+) = const (.+?)(?: as \w+ \(IntToInt\))?$", part)
                    if mm:
                        env[mm.group(1)] = self._promoted_int(mm.group(2))

                def arg(t):
                    t = t.strip()
                    if t.startswith("const "):
                        return self._promoted_int(t[6:])
                    return env.get(t.replace("move ", "").replace("copy ", ""))
                lo, hi = arg(m.group(1)), arg(m.group(2))
                if lo is not None and hi is not None:
                    return ("ref", ("call", "std::ops::RangeInclusive::<Idx>::new", (lo, hi)))
            # a constant range `(a..b)` / `(a..=b)` as written in `(a..b).contains(&x)`
            m = _re.match(r"^_1 = std::ops::Range::<\w+> \{ start: const ([^,]+), end: const ([^ ]+) \}; _0 = &_1$", pv)
            if m:
                lo, hi = self._promoted_int(m.group(1)), self._promoted_int(m.group(2))
                if lo is not None and hi is not None:
                    return ("ref", ("adt", "std::ops::Range", "Range", (("start", lo), ("end", hi))))
            return ("k", "promoted{" + pv[:200] + "}")
        if d is not None:
            return ("named", d.name)
        f = self.b.const_def(c, "fn")
        if f is not None:
            return ("fnitem", f.name)
        return ("k", s)

    def _promoted_int(self, txt):
        """`1_u64` or the path of an integer constant, as it is printed inside a promoted constant"""
        import re as _re
        m = _re.match(r"^(-?\d+)(?:_[ui](?:\d+|size))?$", txt)
        if m:
            return ("int", int(m.group(1)))
        m = _re.match(r"^std::num::<impl ([ui])(\d+)>::(MAX|MIN)$", txt)
        if m:
            bits = int(m.group(2))
            if m.group(1) == "u":
                return ("int", (1 << bits) - 1 if m.group(3) == "MAX" else 0)
            return ("int", (1 << (bits - 1)) - 1 if m.group(3) == "MAX" else -(1 << (bits - 1)))
        for k, (v, ty) in self.prog.consts.items():
            if self.prog.defs[k].name == txt:
                return ("int", v, txt)
        return None

    def place_expr(self, pl, depth=0):
        base = self.local_expr(pl.local, depth)
        e = base
        for p in pl.proj:
            if p == "*":
                e = deref(e)
            elif isinstance(p, tuple) and p[0] == "f":
                e = field(e, p[1], p[2])
            elif isinstance(p, tuple) and p[0] == "v":
                e = ("variant", e, p[1])
            elif isinstance(p, tuple) and p[0] == "i":
                e = ("index", e, self.local_expr(p[1], depth + 1))
            elif isinstance(p, tuple) and p[0] == "c":
                e = ("index", e, ("int", p[1] if not p[2] else -p[1]))
            else:
                e = ("proj", e, str(p))
        return e

    def local_expr(self, local, depth=0):
        key = local
        if key in self._expr_cache:
            return self._expr_cache[key]
        if depth > 40:
            return ("var", f"_{local}")
        self._expr_cache[key] = ("var", self._vname(local))  # cycle guard
        e = self._local_expr(local, depth)
        if e[0] not in ("param", "var", "let"):
            n = self.b.local_name(local)
            if n is not None and n not in DESUGAR_NAMES:
                # named views keep every user variable name; plain views keep the name of a variable that is
                # later mutated through `&mut` (its initialiser alone does not describe it)
                if self.keep_names or (not self.b.ty(local).startswith(("&", "*")) and self._mut_borrowed_cached(local)):
                    e = ("let", n, e)
        elif e[0] == "var" and self.keep_names and e[1].startswith("_") and e[1][1:].isdigit():
            # `let name = <value chosen by a branch>` (e.g. the result of an inlined helper): the user variable is the symbol
            n = self.b.local_name(local)
            if n is not None and n not in DESUGAR_NAMES:
                e = ("var", n)
        self._expr_cache[key] = e
        return e

    def named(self):
        """view whose expressions keep user variable names: a named single-definition local is
        ("let", name, value); render() shows the name, subexprs() still sees the value"""
        import copy
        v = copy.copy(self)
        v.keep_names = True
        v._expr_cache = {}
        return v

    def with_narrow(self):
        """view in which a value-truncating integer cast (`x as u32` with x: u64) is kept as
        ("narrow", from, to, x) instead of being read as the identity"""
        import copy
        v = copy.copy(self)
        v.keep_narrow = True
        v._expr_cache = {}
        return v

    def _single_success_def(self, local, depth):
        """`local` is set on several paths, exactly one of them to `Ok(v)` / `Some(v)` and all others to an error / None
        value (the result slot of an inlined `Result`- or `Option`-returning helper): the value v.  Whoever takes the
        payload of `local` (`?`, `if let Some`, `unwrap`) is on the success path and therefore sees v."""
        live = self.live_blocks()
        ds = [d for d in self.defs.get(local, []) if d[0] in live]
        if len(ds) < 2:
            return None
        good = []
        for (bi, idx, obj) in ds:
            if idx == "T":
                nm = obj.callee.name if obj.callee else ""
                if "FromResidual" in nm:
                    continue
                return None
            if obj.kind != "a":
                return None
            rv = obj.rv
            if rv.op == "agg" and isinstance(rv.a, tuple) and rv.a[0] == "adt":
                v = rv.a[2]
                if v in ("Ok", "Some") and len(rv.ops) == 1:
                    good.append(rv.ops[0])
                    continue
                if v in ("Err", "None"):
                    continue
            if rv.op == "use" and rv.ops and rv.ops[0].const is not None and "None" in rv.ops[0].const.get("s", ""):
                continue
            return None
        if len(good) != 1:
            return None
        return self.expr(good[0], depth + 1)

    def _vname(self, local):
        n = self.b.local_name(local)
        return n if n else f"_{local}"

    def _local_expr(self, local, depth):
        b = self.b
        if 1 <= local <= b.argc:
            if not self.defs.get(local):
                return ("param", self._vname(local), local)
            return ("var", self._vname(local))
        sd = self.single_def(local)
        if sd is None:
            ok1 = self._single_success_def(local, depth)
            if ok1 is not None:
                return ("okof", ok1, ("var", self._vname(local)))
            return ("var", self._vname(local))
        bi, idx, obj = sd
        if idx == "T":
            return self._call_expr(obj, depth)
        s = obj
        if s.kind != "a":
            return ("var", self._vname(local))
        rv = s.rv
        if rv.op == "use":
            return self.expr(rv.ops[0], depth + 1)
        if rv.op == "ref" or rv.op == "ptr":
            return ("ref", self.place_expr(rv.place, depth + 1))
        if rv.op == "bin":
            l = self.expr(rv.ops[0], depth + 1)
            r = self.expr(rv.ops[1], depth + 1)
            if rv.a in BINOPS:
                e = (BINOPS[rv.a], l, r)
                if rv.a.endswith("WithOverflow"):
                    return ("ovf", e)
                return e
            if rv.a in CMPOPS:
                return ("cmp", CMPOPS[rv.a], l, r)
            return ("bin", rv.a, l, r)
        if rv.op == "un":
            x = self.expr(rv.ops[0], depth + 1)
            if rv.a == "Not":
                return ("not", x)
            if rv.a == "Neg":
                return ("-", ("int", 0), x)
            if rv.a == "PtrMetadata":
                return ("len", deref(x) if x[0] == "ref" else x)
            return ("un", rv.a, x)
        if rv.op == "cast":
            x = self.expr(rv.ops[0], depth + 1)
            if rv.a == "IntToInt" and getattr(self, "keep_narrow", False):
                o = rv.ops[0]
                st = self.b.ty(o.place.local) if o.place is not None and not o.place.proj else None
                dt = self.b._types[rv.extra] if isinstance(rv.extra, int) else None
                if st in INT_WIDTH and dt in INT_WIDTH and INT_WIDTH[st] > INT_WIDTH[dt] and x[0] not in ("int", "k"):
                    return ("narrow", st, dt, x)
            if rv.a in ("IntToInt", "PointerCoercion", "PtrToPtr", "Transmute"):
                return x
            return ("cast", rv.a, x)
        if rv.op == "discr":
            ty = self.b._types[rv.extra] if rv.extra is not None else ""
            return ("discr", self.place_expr(rv.place, depth + 1), ty)
        if rv.op == "agg":
            a = rv.a
            ops = tuple(self.expr(o, depth + 1) for o in rv.ops)
            if isinstance(a, tuple) and a[0] == "adt":
                if a[2] in ("Some", "Ok", "Continue") and len(ops) == 1:
                    return ("wrap", ops[0])
                return ("adt", a[1].name, a[2], tuple(zip(a[3], ops)))
            if a == "tuple":
                return ("tuple", ops)
            if isinstance(a, tuple):
                return (a[0], a[1].name, ops)
            return (str(a), ops)
        return ("opaque", repr(rv))

    def _call_expr(self, call, depth):
        nm = call.callee.name if call.callee else "<fnptr>"
        args = [self.expr(a, depth + 1) for a in call.args]
        if args and (any(f in nm for f in IDENTITY_CALLS) or
                     (nm.endswith("::deref") and "Deref" in nm) or (nm.endswith("::deref_mut") and "DerefMut" in nm)):
            return args[0]
        if args and any(nm.endswith(u) for u in UNWRAP_CALLS[:4]):
            return payload(args[0])
        if len(args) == 2 and (nm.endswith("ops::Index<I>>::index") or nm.endswith("ops::IndexMut<I>>::index_mut")
                               or "ops::Index<" in nm and nm.endswith("::index")):
            return ("index", strip_ref(args[0]), strip_ref(args[1]))
        last = nm.rsplit("::", 1)[-1]
        if last in CHECKED_ARITH and len(args) == 2 and ("num::" in nm or "core::num" in nm or "<impl u" in nm or "<impl i" in nm):
            e = (CHECKED_ARITH[last], strip_ref(args[0]), strip_ref(args[1]))
            if last.startswith("checked"):
                return ("wrap", e)
            return e
        if ("cmp::PartialEq" in nm) and len(args) == 2:
            op = "==" if last == "eq" else "!="
            return ("cmp", op, strip_ref(args[0]), strip_ref(args[1]))
        if ("cmp::PartialOrd" in nm) and len(args) == 2 and last in ("lt", "le", "gt", "ge"):
            op = {"lt": "<", "le": "<=", "gt": ">", "ge": ">="}[last]
            return ("cmp", op, strip_ref(args[0]), strip_ref(args[1]))
        if "ops::Add<" in nm and last == "add" and len(args) == 2:
            return ("+", strip_ref(args[0]), strip_ref(args[1]))
        if "ops::Sub<" in nm and last == "sub" and len(args) == 2:
            return ("-", strip_ref(args[0]), strip_ref(args[1]))
        if last == "len" and len(args) == 1:
            return ("len", strip_ref(args[0]))
        if last == "is_empty" and len(args) == 1:
            return ("cmp", "==", ("len", strip_ref(args[0])), ("int", 0))
        if last in ("min", "max") and len(args) == 2 and "cmp::" in nm:
            return (last, strip_ref(args[0]), strip_ref(args[1]))
        return ("call", nm, tuple(args))


# ----------------------------------------------------------------- expression helpers
def deref(e):
    if e[0] == "ref":
        return e[1]
    if e[0] == "let" and e[2][0] == "ref":
        return e[2][1]
    return e  # auto-deref of a param reference: keep the symbol


def strip_ref(e):
    """strip references only (named views keep ("let", name, value) wrappers)"""
    while e[0] == "ref":
        e = e[1]
    return e


def peel(e):
    """strip references and variable-name wrappers"""
    while e[0] in ("ref", "let"):
        e = e[1] if e[0] == "ref" else e[2]
    return e


def field(e, owner, name):
    e = peel(e)
    if owner == "{closure}":
        # captured variable: reads like the variable itself
        return ("param", name[6:] if name.startswith("_ref__") else name, -1)
    if e[0] == "ovf" and owner == "()" and name == "0":
        return e[1]
    if e[0] == "ovf" and owner == "()" and name == "1":
        return ("overflowed", e[1])
    if e[0] == "tuple" and owner == "()" and name.isdigit() and int(name) < len(e[1]):
        return e[1][int(name)]
    if e[0] == "variant" and name == "0" and e[2] in ("Some", "Ok", "Continue"):
        return payload(e[1])
    if e[0] == "adt":
        for n, v in e[3]:
            if n == name:
                return v
    return ("field", e, owner, name)


def payload(e):
    e0 = strip_ref(e)
    e = peel(e)
    if e[0] == "wrap":
        return e[1]
    if e[0] == "okof":
        return e[1]
    return ("payload", e0 if e0[0] == "let" else e)


def find_str(e):
    """first string literal inside an expression tree"""
    if isinstance(e, tuple):
        if e and e[0] == "str":
            return e[1]
        for x in e[1:]:
            r = find_str(x)
            if r is not None:
                return r
    return None


def ok_discr(ty):
    """discriminant value meaning success for a type string"""
    if ty.startswith("&"):
        ty = ty.lstrip("&").replace("mut ", "", 1).strip()
    if ty.startswith("std::result::Result<") or ty.startswith("core::result::Result<"):
        return 0
    if ty.startswith("std::option::Option<") or ty.startswith("core::option::Option<"):
        return 1
    if ty.startswith("std::ops::ControlFlow<") or ty.startswith("core::ops::ControlFlow<"):
        return 0
    return None


def render(e):
    """human-readable, stable rendering of an expression (also used as symbol identity)"""
    k = e[0]
    if k == "int":
        return e[2].rsplit("::", 1)[-1] if len(e) > 2 else str(e[1])
    if k == "str":
        return repr(e[1])
    if k in ("named", "fnitem", "k", "opaque"):
        return str(e[1])
    if k == "param":
        return e[1]
    if k == "var":
        return e[1]
    if k == "ref":
        return render(e[1])
    if k == "let":
        return e[1]
    if k == "field":
        return f"{render(e[1])}.{e[3]}"
    if k == "variant":
        return f"({render(e[1])} as {e[2]})"
    if k == "okof":
        return render(e[2])
    if k == "payload":
        return f"{render(e[1])}?"
    if k == "wrap":
        return f"Some({render(e[1])})"
    if k == "ovf":
        return render(e[1])
    if k == "overflowed":
        return f"overflow({render(e[1])})"
    if k in ("+", "-", "*", "/", "%", "sat-"):
        return f"({render(e[1])} {k} {render(e[2])})"
    if k == "cmp":
        return f"({render(e[2])} {e[1]} {render(e[3])})"
    if k == "not":
        return f"!{render(e[1])}"
    if k == "len":
        return f"len({render(e[1])})"
    if k in ("min", "max"):
        return f"{k}({render(e[1])}, {render(e[2])})"
    if k == "call":
        nm = e[1]
        return f"{nm}({', '.join(render(a) for a in e[2])})"
    if k == "index":
        return f"{render(e[1])}[{render(e[2])}]"
    if k == "discr":
        return f"discr({render(e[1])})"
    if k == "tuple":
        return "(" + ", ".join(render(a) for a in e[1]) + ")"
    if k == "adt":
        if not e[3] and e[1].endswith("option::Option") and e[2] == "None":
            return "None"
        return f"{e[1]}::{e[2]}{{{', '.join(n + ': ' + render(v) for n, v in e[3])}}}"
    if k == "cast":
        return f"{render(e[2])} as {e[1]}"
    return str(e)


def typed_name(e):
    """`OwnerType.field` of the last field projection, if any (typed access path)"""
    e = peel(e)
    if e[0] == "field":
        owner = e[2].rsplit("::", 1)[-1]
        return f"{owner}.{e[3]}"
    if e[0] == "payload":
        t = typed_name(e[1])
        return t + "?" if t else None
    return None


def subexprs(e):
    yield e
    if isinstance(e, tuple):
        for x in e[1:]:
            if isinstance(x, tuple):
                if x and isinstance(x[0], str):
                    yield from subexprs(x)
                else:
                    for y in x:
                        if isinstance(y, tuple) and y and isinstance(y[0], str):
                            yield from subexprs(y)
                        elif isinstance(y, tuple) and len(y) == 2 and isinstance(y[1], tuple):
                            yield from subexprs(y[1])


def mentions(e, pred):
    return any(pred(x) for x in subexprs(e))

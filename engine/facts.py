"""Loader + linker for vlsfacts dumps: def table, bodies, impl/trait tables (CHA),
closure binding, call graph.  No rule logic."""
import glob
import json
import os
import re
from collections import defaultdict


class Broken(Exception):
    """The checker cannot decide (anchor missing, floor not met, empty facts): exit 2."""


import re as _re
_FACADE = _re.compile(r'(?<![A-Za-z0-9_:])(?:(?:lightning_signer|vls_protocol_signer|vls_protocol|vls_common|vls_persist)::)?(?:core|alloc)::')


class Def:
    __slots__ = ("id", "name", "kind", "krate", "local", "file", "line", "params", "pub",
                 "container", "item_name", "root", "is_bin", "captures")

    def __init__(self, o):
        self.id = o["id"]
        self.name = o["name"]
        self.kind = o["kind"]
        self.krate = o["krate"]
        self.local = o["local"]
        self.file = o.get("file")
        self.line = o.get("line")
        self.params = o.get("params")
        self.pub = o.get("pub")
        self.container = None
        self.item_name = o.get("item_name")
        self.root = None
        self.is_bin = False
        self.captures = o.get("captures")

    def __repr__(self):
        return f"<Def {self.name}>"

    @property
    def loc(self):
        return f"{self.file}:{self.line}" if self.file else self.krate


class Place:
    __slots__ = ("local", "proj")

    def __init__(self, raw):
        self.local = raw[0]
        self.proj = tuple(tuple(x) if isinstance(x, list) else x for x in raw[1:])

    def fields(self):
        return [p for p in self.proj if isinstance(p, tuple) and p[0] == "f"]

    def last_field(self):
        for p in reversed(self.proj):
            if isinstance(p, tuple) and p[0] == "f":
                return p
        return None

    def is_local(self):
        return not self.proj

    def key(self):
        return (self.local, self.proj)

    def __repr__(self):
        s = f"_{self.local}"
        for p in self.proj:
            if p == "*":
                s = f"(*{s})"
            elif isinstance(p, tuple) and p[0] == "f":
                s += f".{p[2]}"
            elif isinstance(p, tuple) and p[0] == "v":
                s = f"({s} as {p[1]})"
            elif isinstance(p, tuple) and p[0] == "i":
                s += f"[_{p[1]}]"
            elif isinstance(p, tuple) and p[0] == "c":
                s += f"[{'-' if p[2] else ''}{p[1]}]"
            elif isinstance(p, tuple) and p[0] == "s":
                s += f"[{p[1]}..{p[2]}]"
            else:
                s += f"<{p}>"
        return s


class Operand:
    __slots__ = ("kind", "place", "const")

    def __init__(self, raw):
        self.kind = raw[0]  # c / m / k / rt
        self.place = None
        self.const = None
        if self.kind in ("c", "m"):
            self.place = Place(raw[1])
        elif self.kind == "k":
            self.const = raw[1]

    def __repr__(self):
        if self.place is not None:
            return ("move " if self.kind == "m" else "") + repr(self.place)
        if self.const is not None:
            return "const " + self.const["s"]
        return "rt"

    def int_value(self):
        if self.const is not None and "v" in self.const:
            return int(self.const["v"])
        return None

    def str_value(self):
        if self.const is not None:
            s = self.const["s"]
            if s.startswith('"') and s.endswith('"'):
                return s[1:-1]
        return None


class Rvalue:
    __slots__ = ("op", "a", "ops", "place", "extra")

    def __init__(self, raw):
        self.op = raw[0]
        self.a = None      # operator name / cast kind / aggregate kind
        self.ops = []      # operands
        self.place = None
        self.extra = None
        op = self.op
        if op in ("use", "repeat"):
            self.ops = [Operand(raw[1])]
        elif op in ("ref", "ptr"):
            self.a = raw[1]
            self.place = Place(raw[2])
        elif op == "cast":
            self.a = raw[1]
            self.ops = [Operand(raw[2])]
            self.extra = raw[3]
        elif op == "bin":
            self.a = raw[1]
            self.ops = [Operand(raw[2]), Operand(raw[3])]
        elif op == "un":
            self.a = raw[1]
            self.ops = [Operand(raw[2])]
        elif op == "discr":
            self.place = Place(raw[1])
            self.extra = raw[2] if len(raw) > 2 else None
        elif op == "agg":
            self.a = raw[1]
            self.ops = [Operand(x) for x in raw[2]]
        elif op == "tls":
            self.extra = raw[1]
        else:
            self.extra = raw[1] if len(raw) > 1 else None

    def __repr__(self):
        if self.op == "use":
            return repr(self.ops[0])
        if self.op == "ref":
            return ("&mut " if self.a else "&") + repr(self.place)
        if self.op == "ptr":
            return ("&raw mut " if self.a else "&raw const ") + repr(self.place)
        if self.op == "bin":
            return f"{self.a}({self.ops[0]!r}, {self.ops[1]!r})"
        if self.op == "un":
            return f"{self.a}({self.ops[0]!r})"
        if self.op == "cast":
            return f"{self.ops[0]!r} as<{self.a}>"
        if self.op == "discr":
            return f"discriminant({self.place!r})"
        if self.op == "agg":
            a = self.a
            if isinstance(a, tuple) and a[0] == "adt":
                return f"{a[1].name}::{a[2]} {{{', '.join(f'{n}: {o!r}' for n, o in zip(a[3], self.ops))}}}"
            if isinstance(a, tuple):
                return f"{a[0]} {a[1].name} {self.ops!r}"
            return f"{a} {self.ops!r}"
        return f"{self.op} {self.extra!r}"


class Stmt:
    __slots__ = ("kind", "place", "rv", "variant", "line")

    def __init__(self, raw, remap=None):
        self.kind = raw[0]
        self.place = Place(raw[1])
        if self.kind == "a":
            self.rv = Rvalue(raw[2])
            if remap is not None and self.rv.op == "agg" and isinstance(self.rv.a, list):
                a = self.rv.a
                if a[0] == "adt":
                    self.rv.a = ("adt", remap[a[1]], a[2], tuple(a[3]))
                else:
                    self.rv.a = (a[0], remap[a[1]])
            self.variant = None
        else:
            self.rv = None
            self.variant = raw[2]
        self.line = raw[3]

    def __repr__(self):
        if self.kind == "a":
            return f"{self.place!r} = {self.rv!r}"
        return f"discriminant({self.place!r}) = {self.variant}"


class Term:
    __slots__ = ("kind", "raw", "targets", "call", "discr", "arms", "otherwise", "place", "line",
                 "cond", "expected", "msg", "switch_ty")

    def __init__(self, raw):
        self.kind = raw[0]
        self.raw = raw
        self.targets = []
        self.call = None
        self.discr = None
        self.arms = None
        self.otherwise = None
        self.place = None
        self.line = 0
        self.cond = None
        self.expected = None
        self.msg = None
        self.switch_ty = None
        k = self.kind
        if k == "goto":
            self.targets = [raw[1]]
        elif k == "switch":
            self.discr = Operand(raw[1])
            self.arms = [(int(v), b) for v, b in raw[2]]
            self.otherwise = raw[3]
            self.switch_ty = raw[4]
            self.line = raw[5]
            self.targets = [b for _, b in self.arms] + [self.otherwise]
        elif k == "ret":
            self.line = raw[1]
        elif k == "drop":
            self.place = Place(raw[1])
            self.targets = [raw[2]]
            self.line = raw[3]
        elif k == "assert":
            self.cond = Operand(raw[1])
            self.expected = raw[2]
            self.targets = [raw[3]]
            self.msg = raw[4]
            self.line = raw[5]
        elif k == "call":
            self.call = Call(raw[1])
            self.line = self.call.line
            if self.call.target is not None:
                self.targets = [self.call.target]


class Call:
    __slots__ = ("f", "rk", "r", "ga", "cls", "_args", "_dest", "target", "line", "mac", "_fp",
                 "callee", "decl", "_o")

    def __init__(self, o):
        self._o = o
        self.f = o.get("f")
        self.rk = o.get("rk")
        self.r = o.get("r")
        self.ga = o.get("ga", [])
        self.cls = o.get("cls", [])
        self._args = None
        self._dest = None
        self.target = o["t"]
        self.line = o["line"]
        self.mac = o.get("mac")
        self._fp = None
        self.callee = None   # Def of resolved callee (or declared one)
        self.decl = None     # Def of the declared callee (trait method for trait calls)

    @property
    def args(self):
        if self._args is None:
            self._args = [Operand(a) for a in self._o["args"]]
        return self._args

    @property
    def dest(self):
        if self._dest is None:
            self._dest = Place(self._o["dest"])
        return self._dest

    @property
    def fp(self):
        if self._fp is None and "fp" in self._o:
            self._fp = Operand(self._o["fp"])
        return self._fp

    @property
    def name(self):
        return self.callee.name if self.callee else "<fnptr>"

    def __repr__(self):
        return f"{self.dest!r} = {self.name}({', '.join(map(repr, self.args))}) [{self.rk}]"


class Body:
    def __init__(self, o, prog, remap, types):
        self.d = remap[o["d"]]
        self.argc = o["argc"]
        self.file = o["file"]
        self.line = o["line"]
        self.mac = o.get("mac")
        self.local_tys = [types[t] for t in o["locals"]]
        self.names = [(n, Place(p)) for n, p in o["names"]]
        self.blocks = []
        self.cleanup = []
        self._types = types
        for cl, stmts, term in o["blocks"]:
            self.cleanup.append(bool(cl))
            self.blocks.append([stmts, Term(term), False])
        self._local_name = None
        self._cache = {}
        self._raw = o

    @property
    def name(self):
        return self.d.name

    def local_name(self, l):
        if self._local_name is None:
            self._local_name = {}
            for n, p in self.names:
                if p.is_local():
                    self._local_name.setdefault(p.local, n)
        return self._local_name.get(l)

    def ty(self, l):
        return self.local_tys[l]

    def stmts(self, bi):
        blk = self.blocks[bi]
        if not blk[2]:
            blk[0] = [Stmt(s, self._remap) for s in blk[0]]
            blk[2] = True
        return blk[0]

    def term(self, bi):
        return self.blocks[bi][1]

    def succs(self, bi):
        return self.blocks[bi][1].targets

    def calls(self):
        for bi, blk in enumerate(self.blocks):
            t = blk[1]
            if t.kind == "call" and not self.cleanup[bi]:
                yield bi, t.call

    def switch_ty(self, t):
        return self._types[t.switch_ty]

    def const_def(self, const, key="def"):
        """Def referenced by a constant operand (`def`: named const, `fn`: fn item)."""
        if const is not None and key in const:
            return self._remap[const[key]]
        return None

    def const_ty(self, const):
        return self._types[const["t"]]


class Program:
    def __init__(self, facts_dir, crates=None):
        self.dir = facts_dir
        self.defs = {}          # id -> Def
        self.by_name = defaultdict(list)
        self.bodies = {}        # id -> Body
        self.impls = []
        self.traits = {}        # trait id -> {"items":[...]}
        self.adts = {}          # adt id -> record
        self.consts = {}        # def id -> int
        self.crates = {}
        self._raws = {}
        seen_crates = set()
        files = sorted(glob.glob(os.path.join(facts_dir, "*.jsonl")))
        if not files:
            raise Broken(f"no fact files in {facts_dir}")
        for f in files:
            base = os.path.basename(f)
            m = re.match(r"(.+)-(lib|bin)-[0-9a-f]+\.jsonl$", base)
            if not m:
                continue
            cname, ckind = m.group(1), m.group(2)
            if crates is not None and cname not in crates:
                continue
            if (cname, ckind) in seen_crates:
                continue  # proc-macro crates are compiled twice (host/target): identical
            seen_crates.add((cname, ckind))
            self._load(f, cname, ckind == "bin")
        for d in self.defs.values():
            self.by_name[d.name].append(d)
        # functions that are new relative to the reference tree (extracted helpers) are inlined at their call sites
        from . import inline
        self.inlined = inline.run(self, self._raws, self._make_body)
        self._raws = None
        self._link()

    def _make_body(self, o, remap, types):
        b = Body(o, self, remap, types)
        for blk in b.blocks:
            t = blk[1]
            if t.kind == "call":
                c = t.call
                if c.f is not None:
                    c.decl = remap[c.f]
                    c.callee = remap[c.r] if c.r is not None else c.decl
                c.cls = [remap[x] for x in c.cls]
        # remap def references inside constants / aggregates lazily: keep table
        b._remap = remap
        return b

    # ------------------------------------------------------------------ load
    def _load(self, path, cname, is_bin):
        types = None
        remap = None
        nbodies = 0
        with open(path) as fh:
            for line in fh:
                # no_std builds spell the facade paths core:: / alloc:: (or <crate>::alloc::): one spelling for all
                line = _FACADE.sub("std::", line)
                o = json.loads(line)
                k = o["k"]
                if k == "crate":
                    self.crates[cname + ("[bin]" if is_bin else "")] = o
                elif k == "types":
                    types = o["v"]
                elif k == "defs":
                    remap = []
                    raw = o["v"]
                    for r in raw:
                        if is_bin and r["local"]:
                            r["id"] = "bin!" + r["id"]
                            r["name"] = "bin!" + r["name"]
                        d = self.defs.get(r["id"])
                        if d is None or (r["local"] and not d.local):
                            nd = Def(r)
                            nd.is_bin = is_bin and r["local"]
                            if d is not None:
                                # keep identity stable: update in place
                                for s in Def.__slots__:
                                    if s not in ("container", "root"):
                                        setattr(d, s, getattr(nd, s))
                            else:
                                d = nd
                                self.defs[d.id] = d
                        remap.append(d)
                    for r, d in zip(raw, remap):
                        if "container" in r and d.container is None:
                            d.container = remap[r["container"]]
                        if "root" in r and d.root is None:
                            d.root = remap[r["root"]]
                elif k == "body":
                    b = self._make_body(o, remap, types)
                    self.bodies[b.d.id] = b
                    self._raws[b.d.id] = (o, remap, types)
                    nbodies += 1
                elif k == "impl":
                    rec = {
                        "d": remap[o["d"]],
                        "self": o["self"],
                        "self_adt": remap[o["self_adt"]] if "self_adt" in o else None,
                        "trait": remap[o["trait"]] if "trait" in o else None,
                        "trait_ref": o.get("trait_ref"),
                        "items": [
                            {"d": remap[i["d"]], "name": i["name"], "kind": i["kind"],
                             "trait_item": remap[i["trait_item"]] if "trait_item" in i else None}
                            for i in o["items"]
                        ],
                    }
                    self.impls.append(rec)
                elif k == "trait":
                    d = remap[o["d"]]
                    self.traits[d.id] = {
                        "d": d,
                        "items": [{"d": remap[i["d"]], "name": i["name"], "kind": i["kind"],
                                   "default": i["default"]} for i in o["items"]],
                    }
                elif k == "adt":
                    d = remap[o["d"]]
                    self.adts[d.id] = {"d": d, "kind": o["adt_kind"], "attrs": o["attrs"],
                                       "variants": o["variants"]}
                elif k == "const":
                    self.consts[remap[o["d"]].id] = (int(o["v"]), o["ty"])
        if nbodies == 0 and not cname.endswith("_derive"):
            raise Broken(f"fact file {path} has zero bodies")

    # ------------------------------------------------------------------ link
    def _link(self):
        # trait method id -> list of implementing method Defs (CHA)
        self.impl_of = defaultdict(list)
        # trait id -> list of impl records
        self.impls_of_trait = defaultdict(list)
        for im in self.impls:
            if im["trait"] is not None:
                self.impls_of_trait[im["trait"].id].append(im)
                overridden = set()
                for it in im["items"]:
                    if it["trait_item"] is not None:
                        self.impl_of[it["trait_item"].id].append((im, it["d"]))
                        overridden.add(it["trait_item"].id)
                tr = self.traits.get(im["trait"].id)
                if tr:
                    for it in tr["items"]:
                        if it["default"] and it["d"].id not in overridden and it["kind"] == "AssocFn":
                            # default body used by this impl
                            self.impl_of[it["d"].id].append((im, it["d"]))
        # callers index
        self.callers = defaultdict(list)   # callee id -> [(Body, bi, Call)]
        for b in self.bodies.values():
            for bi, c in b.calls():
                if c.callee is not None:
                    self.callers[c.callee.id].append((b, bi, c))
                    if c.decl is not None and c.decl.id != c.callee.id:
                        self.callers[c.decl.id].append((b, bi, c))

    # ------------------------------------------------------------------ queries
    def fn(self, name):
        """Body by pretty name; anchor failure if absent."""
        ds = [d for d in self.by_name.get(name, []) if d.id in self.bodies]
        if not ds:
            raise Broken(f"anchor missing: function `{name}` is not in the analysed program")
        if len(ds) > 1:
            raise Broken(f"anchor ambiguous: `{name}` matches {len(ds)} bodies")
        b = self.bodies[ds[0].id]
        from . import anchors
        anchors.apply(self, b)
        return b

    def has_fn(self, name):
        return any(d.id in self.bodies for d in self.by_name.get(name, []))

    def find_fns(self, pred):
        return [b for b in self.bodies.values() if pred(b)]

    def closures_of(self, body):
        """closure bodies whose typeck root is `body` (transitively nested)."""
        out = []
        for b in self.bodies.values():
            if b.d.kind == "Closure" and b.d.root is not None and b.d.root.id == body.d.id:
                out.append(b)
        return out

    def possible_callees(self, call, body=None):
        """Resolved callee bodies for a call site (CHA for virtual / unresolved trait calls,
        closure binding for Fn* calls on closures named in generic args)."""
        out = []
        c = call
        if c.callee is None:
            return out
        if c.rk in ("item", "intrinsic"):
            if c.callee.id in self.bodies:
                out.append(self.bodies[c.callee.id])
            return out
        if c.rk == "closure_once":
            if c.callee.id in self.bodies:
                out.append(self.bodies[c.callee.id])
            return out
        # virtual / unresolved: declared trait method
        tm = c.decl if c.decl is not None else c.callee
        if c.rk == "virtual":
            tm = c.callee
        for im, d in self.impl_of.get(tm.id, []):
            if d.id in self.bodies:
                out.append(self.bodies[d.id])
        return out

    def impls_of(self, trait_name):
        """impl records of a trait by pretty name (re-exports resolved by the compiler)"""
        return [im for im in self.impls if im["trait"] is not None and im["trait"].name == trait_name]

    def adt(self, name):
        ds = [d for d in self.by_name.get(name, []) if d.id in self.adts]
        if not ds:
            raise Broken(f"anchor missing: type `{name}`")
        return self.adts[ds[0].id]

    def stats(self):
        return {
            "crates": sorted(self.crates.keys()),
            "bodies": len(self.bodies),
            "call_sites": sum(1 for b in self.bodies.values() for _ in b.calls()),
            "impls": len(self.impls),
            "adts": len(self.adts),
        }


def fmt_body(b, prog=None):
    """Readable MIR-like listing (debugging aid and replay payload)."""
    out = [f"fn {b.name}  [{b.file}:{b.line}] argc={b.argc}"]
    for i, t in enumerate(b.local_tys):
        n = b.local_name(i)
        out.append(f"    let _{i}: {t}" + (f"  // {n}" if n else ""))
    for bi in range(len(b.blocks)):
        stmts, term = b.stmts(bi), b.term(bi)
        out.append(f"  bb{bi}{' (cleanup)' if b.cleanup[bi] else ''}:")
        for s in stmts:
            out.append(f"      {s!r}   // L{s.line}")
        if term.kind == "call":
            out.append(f"      {term.call!r} -> bb{term.call.target}   // L{term.line}"
                       + (f" mac={term.call.mac}" if term.call.mac else "")
                       + (f" cls={[d.name for d in term.call.cls]}" if term.call.cls else ""))
        elif term.kind == "switch":
            out.append(f"      switch {term.discr!r} {term.arms} else bb{term.otherwise}   // L{term.line}")
        elif term.kind == "assert":
            out.append(f"      assert {term.cond!r}=={term.expected} ({term.msg}) -> bb{term.targets[0]}")
        elif term.kind == "drop":
            out.append(f"      drop {term.place!r} -> bb{term.targets[0]}")
        else:
            out.append(f"      {term.kind} {term.targets}")
    return "\n".join(out)


if __name__ == "__main__":
    import sys
    from engine import extract
    d, fpr, info = extract.facts_dir("default")
    p = Program(d)
    print(p.stats())
    for a in sys.argv[1:]:
        cands = [n for n in p.by_name if a in n and any(x.id in p.bodies for x in p.by_name[n])]
        if a in cands:
            cands = [a]
        for n in cands[:5]:
            print(fmt_body(p.fn(n)))

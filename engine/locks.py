"""E7: lock-order analysis over MIR.

lock class  = protected type T of a MutexGuard<'_, T> / RwLock*Guard<'_, T> local
acquisition = a call whose destination local has a guard type (Mutex::lock().unwrap(), wrapper
              functions returning a guard such as Node::get_state, ...)
held set    = forward may-analysis over the CFG: gen at acquisition / move of a guard local,
              kill at Drop of the local or when it is moved into a call / the return place
edges       = h -> c whenever class c may be acquired (directly, through callees by CHA, or through a
              closure passed at that call site) while a guard of class h may be held
"""
import re
from collections import defaultdict, deque

GUARD_RE = re.compile(r"(?:Mutex|RwLockRead|RwLockWrite)Guard<'[^,>]*, (.*)>$")


def guard_class(ty):
    if "Guard<" not in ty:
        return None
    m = GUARD_RE.search(ty)
    if not m:
        return None
    # only a bare guard (not Result<Guard>, Option<Guard>, &Guard ...)
    head = ty[:m.start()]
    if head.strip() not in ("std::sync::", "lightning_signer::sync::", "tokio::sync::", "std::sync::poison::",
                            "std::sync::poison::mutex::", "std::sync::poison::rwlock::", "tokio::sync::mutex::"):
        return None
    return short_class(m.group(1))


def short_class(t):
    t = re.sub(r"\b(?:[a-z_][a-z0-9_]*::)+", "", t)   # drop module paths
    return t


class LockAnalysis:
    def __init__(self, prog, scope=lambda b: True, skip=lambda name: False):
        self.prog = prog
        self.skip = skip
        self.bodies = [b for b in prog.bodies.values() if scope(b)]
        self._acq = {}            # body id -> {class: witness path (list of str)}
        self._local = {}          # body id -> per-body facts
        self.fn_param_callers = defaultdict(set)  # generic callee id -> closure defs passed to it
        for b in prog.bodies.values():
            for bi, c in b.calls():
                if c.cls and c.callee is not None:
                    for cd in c.cls:
                        self.fn_param_callers[c.callee.id].add(cd.id)

    # --------------------------------------------------------------- per body
    def facts(self, b):
        f = self._local.get(b.d.id)
        if f is not None:
            return f
        guards = {}
        for i, t in enumerate(b.local_tys):
            gc = guard_class(t)
            if gc is not None:
                guards[i] = gc
        n = len(b.blocks)
        gen = defaultdict(set)     # block -> locals acquired at its terminator (effective in successor)
        kill_stmt = defaultdict(set)
        acq_sites = []
        moves = []
        for bi in range(n):
            if b.cleanup[bi]:
                continue
            t = b.term(bi)
            if t.kind == "call":
                c = t.call
                if c.dest.is_local() and c.dest.local in guards:
                    nm = c.callee.name if c.callee else ""
                    # moving an existing guard through unwrap()/expect()/map is not a new acquisition
                    src_guard = None
                    for a in c.args:
                        if a.place is not None and a.kind == "m" and a.place.is_local():
                            if a.place.local in guards:
                                src_guard = a.place.local
                    acq_sites.append((bi, c, guards[c.dest.local], src_guard))
        f = {"guards": guards, "acq_sites": acq_sites}
        self._local[b.d.id] = f
        return f

    def held_at_blocks(self, b):
        """may-held guard locals at entry of each block and just before each terminator"""
        f = self.facts(b)
        guards = f["guards"]
        n = len(b.blocks)
        if not guards:
            return None
        # locals that carry an already-wrapped lock result (LockResult<Guard>) are not tracked; the guard
        # becomes held at the call that produces the bare guard local.
        IN = [set() for _ in range(n)]
        OUT_T = [set() for _ in range(n)]   # held just before terminator executes
        work = deque([0])
        seen = {0}
        while work:
            bi = work.popleft()
            cur = set(IN[bi])
            for s in b.stmts(bi):
                if s.kind == "a":
                    # moves between guard locals
                    if s.place.is_local() and s.place.local in guards and s.rv.op == "use":
                        o = s.rv.ops[0]
                        if o.place is not None and o.place.is_local() and o.place.local in guards:
                            cur.discard(o.place.local)
                            cur.add(s.place.local)
                    elif s.rv.op in ("use", "agg"):
                        for o in s.rv.ops:
                            if o.kind == "m" and o.place is not None and o.place.is_local() and o.place.local in cur:
                                # moved into an aggregate / other place: conservatively keep held under new owner
                                if s.place.is_local() and s.place.local == 0:
                                    cur.discard(o.place.local)   # returned to caller
            OUT_T[bi] = set(cur)
            t = b.term(bi)
            nxt = set(cur)
            if t.kind == "drop" and t.place.is_local():
                nxt.discard(t.place.local)
            elif t.kind == "call":
                c = t.call
                for a in c.args:
                    if a.kind == "m" and a.place is not None and a.place.is_local() and a.place.local in nxt:
                        nxt.discard(a.place.local)   # moved into callee (drop(guard), unwrap ...)
                if c.dest.is_local() and c.dest.local in guards:
                    nxt.add(c.dest.local)
            for s_ in b.succs(bi):
                if b.cleanup[s_]:
                    continue
                if not nxt <= IN[s_] or s_ not in seen:
                    IN[s_] |= nxt
                    seen.add(s_)
                    work.append(s_)
        return OUT_T

    # --------------------------------------------------------------- summaries
    def acquires(self, b, _stack=None):
        """classes this body may acquire (itself or via callees / closures passed at its call sites)"""
        key = b.d.id
        if key in self._acq:
            return self._acq[key]
        _stack = _stack or set()
        if key in _stack:
            return {}
        _stack = _stack | {key}
        out = {}
        f = self.facts(b)
        for bi, c, cls, src in f["acq_sites"]:
            if src is None:
                out.setdefault(cls, [f"{b.name} ({b.file}:{c.line}) locks {cls}"])
        for bi, c in b.calls():
            for cal in self.callees_of(c, b):
                if self.skip(cal.name):
                    continue
                sub = self.acquires(cal, _stack)
                for k, w in sub.items():
                    if k not in out:
                        out[k] = [f"{b.name} ({b.file}:{c.line})"] + w
        self._acq[key] = out
        return out

    def callees_of(self, c, b):
        res = list(self.prog.possible_callees(c, b))
        # closures passed at this site are (potentially) invoked by the callee
        for cd in c.cls:
            if cd.id in self.prog.bodies:
                res.append(self.prog.bodies[cd.id])
        return [x for x in res if x.d.id != b.d.id]

    # --------------------------------------------------------------- edges
    def edges(self):
        """{(h, c): witness}"""
        E = {}
        for b in self.bodies:
            if self.skip(b.name):
                continue
            f = self.facts(b)
            held = self.held_at_blocks(b)
            if held is None:
                # this body holds nothing itself; but a closure body runs under the locks of whoever calls it:
                continue
            guards = f["guards"]
            for bi in range(len(b.blocks)):
                if b.cleanup[bi]:
                    continue
                t = b.term(bi)
                if t.kind != "call":
                    continue
                hs = {guards[l] for l in held[bi]}
                if not hs:
                    continue
                c = t.call
                # do not count the guard being moved into this very call as held *across* it when it is consumed
                moved = {a.place.local for a in c.args if a.kind == "m" and a.place is not None and a.place.is_local()}
                hs = {guards[l] for l in held[bi] if l not in moved}
                acq = {}
                if c.dest.is_local() and c.dest.local in guards and not any(m in guards for m in moved):
                    acq[guards[c.dest.local]] = [f"{b.name} ({b.file}:{c.line}) locks {guards[c.dest.local]}"]
                for cal in self.callees_of(c, b):
                    if self.skip(cal.name):
                        continue
                    for k, w in self.acquires(cal).items():
                        acq.setdefault(k, [f"{b.name} ({b.file}:{c.line}) calls"] + w)
                # calls through generic Fn parameters: closures that callers passed to *this* function run here
                if c.callee is not None and c.rk in ("unresolved",) and ("FnOnce" in c.callee.name or
                                                                           "FnMut" in c.callee.name or
                                                                           "::Fn<" in c.callee.name):
                    for cid in self.fn_param_callers.get(b.d.id, ()):
                        if cid in self.prog.bodies:
                            cb = self.prog.bodies[cid]
                            for k, w in self.acquires(cb).items():
                                acq.setdefault(k, [f"{b.name} ({b.file}:{c.line}) invokes closure"] + w)
                for h in hs:
                    for k, w in acq.items():
                        lst = E.setdefault((h, k), [])
                        if not any(x["fn"] == b.name for x in lst):
                            lst.append({"fn": b.name, "holder": f"{b.name} holds {h} at {b.file}:{c.line}",
                                        "path": w})
        return E


def sccs(nodes, edges):
    """Tarjan; returns list of components (lists) with >1 node or a self-loop"""
    adj = defaultdict(list)
    for (a, b) in edges:
        adj[a].append(b)
    index = {}
    low = {}
    stack = []
    on = set()
    out = []
    counter = [0]

    def strong(v):
        index[v] = low[v] = counter[0]
        counter[0] += 1
        stack.append(v)
        on.add(v)
        for w in adj[v]:
            if w not in index:
                strong(w)
                low[v] = min(low[v], low[w])
            elif w in on:
                low[v] = min(low[v], index[w])
        if low[v] == index[v]:
            comp = []
            while True:
                w = stack.pop()
                on.discard(w)
                comp.append(w)
                if w == v:
                    break
            if len(comp) > 1 or (v, v) in edges:
                out.append(sorted(comp))
    import sys
    sys.setrecursionlimit(10000)
    for v in nodes:
        if v not in index:
            strong(v)
    return out

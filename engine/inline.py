"""Inlining of functions that are new relative to the reference tree.

The rule tables were written against the call structure of the reference tree (rules/known_functions.json lists
every function that exists there, over all build configurations).  A function that is not in that list was
introduced by the change under analysis - typically a helper extracted from one of the functions the rules talk
about.  To keep the rules about the *behaviour on every path* rather than about where the statements happen to
live, every direct call of such a new function (same crate, resolved statically) is replaced by the callee's MIR:
parameters become assignments from the arguments, `return` becomes an assignment of the call's destination followed
by a jump to the call's target.  The new function's own body is then dropped from the program when no direct call
of it remains, so who-may-call / who-may-write rules attribute its effects to its callers.
"""
import json
import os

KNOWN = os.path.join(os.path.dirname(os.path.dirname(os.path.abspath(__file__))), "rules", "known_functions.json")
MAX_ROUNDS = 4
MAX_CALLEE_BLOCKS = 400


def known_functions():
    """functions of the reference tree, minus the *transparent* ones: small private single-caller helpers that the rule
    tables deliberately do not name.  They are always inlined into their caller, so the rules see the same program whether
    a maintainer keeps such a helper, inlines it by hand or re-extracts it under another name."""
    if not os.path.exists(KNOWN):
        return None
    ref = json.load(open(KNOWN))
    return set(ref["functions"]) - set(ref.get("transparent", []))


def signature(b):
    """container + parameter and return types of a function (to recognise a function that was only renamed)"""
    import hashlib
    cont = b.name.rsplit("::", 1)[0]
    tys = [b.local_tys[i] for i in range(0, b.argc + 1)]
    return hashlib.sha1((cont + "|" + "|".join(tys)).encode()).hexdigest()[:16]


def renamed_functions(prog):
    """functions of the reference tree that are missing, paired with the one new function of the same container and
    signature: the Def gets its reference name back (rules name functions), and is not treated as new"""
    if not os.path.exists(KNOWN):
        return []
    ref = json.load(open(KNOWN))
    sigs = ref.get("signatures", {})
    known = set(ref["functions"])
    present = {b.name for b in prog.bodies.values()}
    new = [b for b in prog.bodies.values() if b.d.kind != "Closure" and b.d.local and b.name not in known
           and not (b.mac and "derive" in b.mac)]
    if not new:
        return []
    by_sig = {}
    for b in new:
        by_sig.setdefault(signature(b), []).append(b)
    out = []
    for name, sg in sigs.items():
        if name in present or sg not in by_sig:
            continue
        cands = by_sig.get(sg, [])
        # the signature includes the container path, so a candidate lives in the same impl / module
        if len(cands) == 1 and len([n for n, s2 in sigs.items() if s2 == sg and n not in present]) == 1:
            b = cands[0]
            old = b.d.name
            b.d.name = name
            prog.by_name[name].append(b.d)
            out.append((old, name))
    return out


_KC = None


def known_consts():
    """names of the constants of the reference tree (None when there is no reference list): a constant introduced by the
    change under analysis is shown by its value, not by its name"""
    global _KC
    if _KC is None:
        _KC = set(json.load(open(KNOWN)).get("consts", [])) if os.path.exists(KNOWN) else False
    return _KC or None


def _place(raw, off):
    out = [raw[0] + off]
    for p in raw[1:]:
        if isinstance(p, list) and p and p[0] == "i":
            out.append(["i", p[1] + off] + list(p[2:]))
        else:
            out.append(p)
    return out


def _operand(raw, off):
    if raw[0] in ("c", "m"):
        return [raw[0], _place(raw[1], off)] + list(raw[2:])
    return raw


def _rvalue(raw, off):
    op = raw[0]
    if op in ("use", "repeat"):
        return [op, _operand(raw[1], off)] + list(raw[2:])
    if op in ("ref", "ptr"):
        return [op, raw[1], _place(raw[2], off)] + list(raw[3:])
    if op == "cast":
        return [op, raw[1], _operand(raw[2], off)] + list(raw[3:])
    if op == "bin":
        return [op, raw[1], _operand(raw[2], off), _operand(raw[3], off)] + list(raw[4:])
    if op == "un":
        return [op, raw[1], _operand(raw[2], off)] + list(raw[3:])
    if op == "discr":
        return [op, _place(raw[1], off)] + list(raw[2:])
    if op == "agg":
        return [op, raw[1], [_operand(x, off) for x in raw[2]]] + list(raw[3:])
    return raw


def _stmt(raw, off):
    if raw[0] == "a":
        return ["a", _place(raw[1], off), _rvalue(raw[2], off)] + list(raw[3:])
    return [raw[0], _place(raw[1], off)] + list(raw[2:])


def _term(raw, off, boff, ret_to, dest, line):
    """returns (extra statements, terminator)"""
    k = raw[0]
    if k == "goto":
        return [], ["goto", raw[1] + boff]
    if k == "switch":
        return [], ["switch", _operand(raw[1], off), [[v, b + boff] for v, b in raw[2]],
                    (raw[3] + boff) if raw[3] is not None else None] + list(raw[4:])
    if k == "ret":
        st = [["a", dest, ["use", ["m", [off]]], raw[1] if len(raw) > 1 else line]]
        if ret_to is None:
            return st, ["unreachable"]
        return st, ["goto", ret_to]
    if k == "drop":
        return [], ["drop", _place(raw[1], off), raw[2] + boff] + list(raw[3:])
    if k == "assert":
        return [], ["assert", _operand(raw[1], off), raw[2], raw[3] + boff] + list(raw[4:])
    if k == "call":
        o = dict(raw[1])
        o["args"] = [_operand(a, off) for a in o["args"]]
        o["dest"] = _place(o["dest"], off)
        if o.get("t") is not None:
            o["t"] = o["t"] + boff
        if "fp" in o:
            o["fp"] = _operand(o["fp"], off)
        return [], ["call", o]
    return [], raw


def inline_site(caller_raw, bi, callee_raw):
    """new raw body of the caller with the call at block `bi` replaced by the callee's blocks"""
    cl, stmts, term = caller_raw["blocks"][bi]
    call = term[1]
    off = len(caller_raw["locals"])
    boff = len(caller_raw["blocks"])
    new = dict(caller_raw)
    new["locals"] = list(caller_raw["locals"]) + list(callee_raw["locals"])
    # the callee's variable names are kept, also when the caller has a variable of the same name: an extracted helper
    # normally keeps the names of the variables it took over (and of the arguments it is handed)
    new["names"] = list(caller_raw["names"]) + [[n, _place(p, off)] for n, p in callee_raw["names"]]
    blocks = [list(b) for b in caller_raw["blocks"]]
    line = call.get("line", 0)
    pre = list(stmts)
    for i, a in enumerate(call["args"]):
        if i + 1 > callee_raw["argc"]:
            break
        pre.append(["a", [off + i + 1], ["use", a], line])
    blocks[bi] = [cl, pre, ["goto", boff]]
    # arguments that are integer / bool constants decide the callee's switches on that parameter
    const_params = {}
    for i, a in enumerate(call["args"]):
        if i + 1 <= callee_raw["argc"] and a[0] == "k" and isinstance(a[1], dict) and "v" in a[1]:
            const_params[i + 1] = int(a[1]["v"])
    assigned = {}
    for ccl, cst, ctm in callee_raw["blocks"]:
        for s in cst:
            if not s[1][1:]:
                assigned.setdefault(s[1][0], []).append(s)
        if ctm[0] == "call" and not ctm[1]["dest"][1:]:
            assigned.setdefault(ctm[1]["dest"][0], []).append(None)

    def const_of(op):
        if op[0] not in ("c", "m") or op[1][1:]:
            return None
        l = op[1][0]
        if l in const_params and l not in assigned:
            return const_params[l]
        ds = assigned.get(l, [])
        if len(ds) == 1 and ds[0] is not None and ds[0][0] == "a" and ds[0][2][0] == "use":
            src = ds[0][2][1]
            if src[0] in ("c", "m") and not src[1][1:] and src[1][0] in const_params and src[1][0] not in assigned:
                return const_params[src[1][0]]
        return None
    ret_blocks = []
    for k, (ccl, cst, ctm) in enumerate(callee_raw["blocks"]):
        if ctm[0] == "switch":
            cv = const_of(ctm[1])
            if cv is not None:
                tgt = next((b_ for v, b_ in ctm[2] if int(v) == cv), ctm[3])
                if tgt is not None:
                    ctm = ["goto", tgt]
        if ctm[0] == "ret":
            ret_blocks.append(boff + k)
        extra, t2 = _term(ctm, off, boff, call.get("t"), call["dest"], line)
        blocks.append([ccl or cl, [_stmt(s, off) for s in cst] + extra, t2])
    # a helper returning a constant bool that the caller branches on at once: jump to the branch taken
    tgt = call.get("t")
    dest = call["dest"]
    if tgt is not None and not dest[1:] and not blocks[tgt][1] and blocks[tgt][2][0] == "switch":
        sw = blocks[tgt][2]
        if sw[1][0] in ("c", "m") and sw[1][1] == dest:
            def arm(v):
                return next((b_ for x, b_ in sw[2] if int(x) == v), sw[3])
            for rb in ret_blocks:
                # the value returned through this block: constant assigned to the callee's _0 in the block itself ...
                def last_const(stmts):
                    val = None
                    for s_ in stmts:
                        if s_[0] == "a" and s_[1] == [off]:
                            rv = s_[2]
                            val = int(rv[1][1]["v"]) if rv[0] == "use" and rv[1][0] == "k" and isinstance(rv[1][1], dict) and "v" in rv[1][1] else None
                    return val
                v = last_const(blocks[rb][1][:-1])
                if v is not None and arm(v) is not None:
                    blocks[rb][2] = ["goto", arm(v)]
                    continue
                # ... or in every predecessor that jumps here (`_0 = const false; goto ret`)
                if len(blocks[rb][1]) == 1:
                    for pb in range(boff, len(blocks)):
                        if blocks[pb][2] == ["goto", rb]:
                            pv = last_const(blocks[pb][1])
                            if pv is not None and arm(pv) is not None:
                                blocks[pb][1] = blocks[pb][1] + [["a", dest, ["use", ["k", {"t": 0, "s": "true" if pv else "false", "v": str(pv)}]], line]]
                                blocks[pb][2] = ["goto", arm(pv)]
    new["blocks"] = blocks
    return new


def run(prog, raws, make_body):
    """prog: Program after loading; raws: body id -> (raw body, remap, types); make_body(raw, remap, types) -> Body.
    Returns the list of inlined (caller, callee) names."""
    known = known_functions()
    if known is None:
        return []
    prog.renamed = renamed_functions(prog)
    new_fns = {}
    for bid, b in prog.bodies.items():
        if b.d.kind == "Closure" or not b.d.local or b.name in known or bid not in raws:
            continue
        if b.mac and "derive" in b.mac:
            continue
        if len(b.blocks) > MAX_CALLEE_BLOCKS:
            continue
        new_fns[bid] = b
    if not new_fns:
        return []
    done = []
    for _ in range(MAX_ROUNDS):
        changed = False
        for bid in list(prog.bodies.keys()):
            b = prog.bodies[bid]
            if bid not in raws:
                continue
            sites = [(bi, c) for bi, c in b.calls()
                     if c.callee is not None and c.rk == "item" and c.callee.id in new_fns and c.callee.id != bid
                     and c.callee.id in raws and raws[c.callee.id][2] is raws[bid][2]]
            if not sites:
                continue
            raw, remap, types = raws[bid]
            # one site at a time (block numbers of earlier blocks are stable: callee blocks are appended)
            for bi, c in sites:
                raw = inline_site(raw, bi, raws[c.callee.id][0])
                done.append((b.name, c.callee.name))
            raws[bid] = (raw, remap, types)
            prog.bodies[bid] = make_body(raw, remap, types)
            changed = True
        if not changed:
            break
    # closures of a new function now belong to the (single) function it was inlined into; drop the new function
    callers_of = {}
    for a, c in done:
        callers_of.setdefault(c, set()).add(a)
    for bid, nb in list(new_fns.items()):
        still = any(c.callee is not None and c.callee.id == bid for b in prog.bodies.values() for _, c in b.calls()
                    if b.d.id != bid)
        if nb.name in callers_of and not still:
            tgt = sorted(callers_of[nb.name])[0]
            tds = [d for d in prog.by_name.get(tgt, []) if d.id in prog.bodies]
            for b in prog.bodies.values():
                if b.d.kind == "Closure" and b.d.root is not None and b.d.root.id == bid and tds:
                    b.d.root = tds[0]
            del prog.bodies[bid]
    return done

"""E5 / E6: effects over monitored state classes.

A *class* is a set of (owner ADT suffix, field) pairs (or a whole owner).  A mutation site is
 (a) an assignment whose place passes through a monitored field,
 (b) a call that receives `&mut <place through a monitored field>` (Vec::push, mem::swap, Option::take, ...),
 (c) a call to a function whose summary says it may mutate the class (transitively; CHA + closures).
E5 (failure atomicity): no mutation site reaches a refusal exit.
E6 (persist before acknowledge): every success return reachable from a mutation passes the Ok of the persister
    call that stores the class.
"""
from collections import defaultdict

from .cfg import FnView, render, strip_ref, subexprs
from . import rulelib as R

READONLY_CALLS = (
    "::fmt::", "::clone::Clone>::clone", "::cmp::", "::ops::Deref>::deref", "::len", "::is_empty", "::iter",
    "::get", "::contains", "::as_ref", "::borrow::Borrow", "::hash::", "::to_string", "::to_owned", "::as_slice",
    "::first", "::last", "::keys", "::values",
)
# &mut-taking std methods that do not change the receiver's observable value
MUT_BUT_PURE = ("::iter_mut", "::as_mut", "::deref_mut", "::borrow_mut", "::get_mut", "::values_mut", "::as_deref_mut",
                "::entry", "::last_mut", "::first_mut", "::index_mut")


class Classes:
    def __init__(self, spec):
        """spec: {class_name: [(owner_suffix, field or None)]}"""
        self.spec = spec

    def classify_proj(self, proj):
        """classes touched by a projection path"""
        out = set()
        for p in proj:
            if isinstance(p, tuple) and p[0] == "f":
                for cname, items in self.spec.items():
                    for owner, field in items:
                        if p[1].endswith(owner) and (field is None or field == p[2]):
                            out.add(cname)
        return out

    def classify_expr(self, e):
        out = set()
        for x in subexprs(e):
            if x[0] == "field":
                for cname, items in self.spec.items():
                    for owner, field in items:
                        if x[2].endswith(owner) and (field is None or field == x[3]):
                            out.add(cname)
        return out


class Effects:
    def __init__(self, ctx, classes, skip=R.is_test_util, pure_fns=()):
        self.ctx = ctx
        self.prog = ctx.prog
        self.cl = classes
        self.skip = skip
        self.pure_fns = set(pure_fns)
        self._local = {}
        self._sum = {}

    # ------------------------------------------------------------ local mutation sites
    def local_sites(self, body):
        """[(bi, 'S'|'T', classes, description, line)] for kinds (a) and (b)"""
        k = body.d.id
        if k in self._local:
            return self._local[k]
        out = []
        fv = R.fnview(self.ctx, body)
        # locals that hold `&mut <monitored place>` (direct) -> class set
        mutref = {}
        owned = lambda l: l > body.argc and not body.ty(l).startswith(("&", "*"))
        self._owned = owned
        for bi in range(fv.n):
            if body.cleanup[bi]:
                continue
            for s in body.stmts(bi):
                if s.kind == "a" and s.rv.op in ("ref", "ptr") and s.rv.a and s.place.is_local():
                    cs = self.cl.classify_proj(s.rv.place.proj)
                    if cs and "*" not in s.rv.place.proj and owned(s.rv.place.local):
                        cs = set()      # &mut into a value owned by this function (a staged copy / fresh object)
                    if not cs and s.rv.place.local in mutref and all(p == "*" for p in s.rv.place.proj):
                        cs = mutref[s.rv.place.local]      # reborrow
                    if cs:
                        mutref[s.place.local] = set(cs)
        # propagate through plain moves/copies of the reference
        changed = True
        while changed:
            changed = False
            for bi in range(fv.n):
                if body.cleanup[bi]:
                    continue
                for s in body.stmts(bi):
                    if s.kind == "a" and s.place.is_local() and s.rv.op in ("use", "cast") and s.rv.ops and \
                       s.rv.ops[0].place is not None and s.rv.ops[0].place.is_local() and \
                       s.rv.ops[0].place.local in mutref and s.place.local not in mutref:
                        mutref[s.place.local] = set(mutref[s.rv.ops[0].place.local])
                        changed = True
                    if s.kind == "a" and s.rv.op in ("ref", "ptr") and s.rv.a and s.place.is_local() and \
                       s.place.local not in mutref and s.rv.place.local in mutref and \
                       all(p == "*" for p in s.rv.place.proj):
                        mutref[s.place.local] = set(mutref[s.rv.place.local])
                        changed = True
        for bi in range(fv.n):
            if body.cleanup[bi]:
                continue
            for si, s in enumerate(body.stmts(bi)):
                cs = self.cl.classify_proj(s.place.proj)
                if cs and "*" not in s.place.proj and owned(s.place.local):
                    cs = set()          # field of a local value, not of shared state
                # write through a &mut local that points into monitored state
                if not cs and s.place.proj and s.place.proj[0] == "*" and s.place.local in mutref:
                    cs = mutref[s.place.local]
                if cs:
                    out.append((bi, "S", set(cs), f"write {s.place!r}", s.line))
            t = body.term(bi)
            if t.kind == "call":
                c = t.call
                nm = c.callee.name if c.callee else ""
                cs = set()
                for a in c.args:
                    if a.place is not None and a.place.is_local() and a.place.local in mutref:
                        cs |= mutref[a.place.local]
                if cs and not any(x in nm for x in MUT_BUT_PURE) and not any(x in nm for x in READONLY_CALLS):
                    # a local callee that receives &mut state: use its summary instead (more precise)
                    cal = self.prog.possible_callees(c, body)
                    if cal and all(x.d.local for x in cal):
                        pass  # handled by (c)
                    else:
                        out.append((bi, "T", cs, f"{nm.rsplit('::', 2)[-2] if '::' in nm else ''}::{nm.rsplit('::', 1)[-1]}(&mut state)", c.line))
                if self.cl.classify_proj(c.dest.proj):
                    out.append((bi, "T", self.cl.classify_proj(c.dest.proj), f"write {c.dest!r}", c.line))
                # returned &mut into monitored state (as_mut / get_mut ...): track the destination as a mutref
                if cs and any(x in nm for x in MUT_BUT_PURE) and c.dest.is_local():
                    mutref[c.dest.local] = set(cs)
        self._local[k] = out
        return out

    # ------------------------------------------------------------ summaries
    def summary(self, body, _stack=None):
        """classes this function may mutate (transitively)"""
        k = body.d.id
        if k in self._sum:
            return self._sum[k]
        _stack = _stack or set()
        if k in _stack:
            return set()
        _stack = _stack | {k}
        if self.skip(body.name) or body.name in self.pure_fns:
            self._sum[k] = set()
            return set()
        out = set()
        for (_, _, cs, _, _) in self.local_sites(body):
            out |= cs
        for bi, c in body.calls():
            for cal in self.callees(c, body):
                out |= self.summary(cal, _stack)
        self._sum[k] = out
        return out

    def callees(self, c, body):
        res = [x for x in self.prog.possible_callees(c, body) if not self.skip(x.name)]
        for cd in c.cls:
            if cd.id in self.prog.bodies:
                res.append(self.prog.bodies[cd.id])
        return [x for x in res if x.d.id != body.d.id]

    def sites(self, body, classes=None):
        """all mutation sites in body incl. calls to mutating callees: (bi, classes, desc, line)"""
        out = []
        for (bi, k, cs, d, ln) in self.local_sites(body):
            if classes is None or cs & classes:
                out.append((bi, cs if classes is None else cs & classes, d, ln))
        fv = R.fnview(self.ctx, body)
        for bi, c in body.calls():
            cs = set()
            names = []
            for cal in self.callees(c, body):
                s = self.summary(cal)
                if s:
                    cs |= s
                    names.append(cal.name)
            if cs and self.args_are_local(fv, body, c):
                cs = set()
            if classes is not None:
                cs &= classes
            if cs:
                out.append((bi, cs, f"call {names[0]}" + (f" (+{len(names) - 1})" if len(names) > 1 else ""), c.line))
        return out


def _root_local(fv, body, local, depth=0):
    """follow reference locals back to the local they point into; returns (local, through_deref_of_param)"""
    if depth > 12:
        return local
    if not body.ty(local).startswith(("&", "*")) and "MutexGuard" not in body.ty(local):
        return local
    ds = fv.defs.get(local, [])
    if len(ds) != 1:
        return local
    bi, idx, obj = ds[0]
    if idx == "T":
        if obj.args and obj.args[0].place is not None:
            return _root_local(fv, body, obj.args[0].place.local, depth + 1)
        return local
    if obj.kind != "a":
        return local
    pl = obj.rv.place if obj.rv.op in ("ref", "ptr") else (obj.rv.ops[0].place if obj.rv.ops else None)
    if pl is None:
        return local
    return _root_local(fv, body, pl.local, depth + 1)


def _args_are_local(self, fv, body, call):
    """every by-reference argument of the call is rooted in a value owned by this function"""
    refs = [a for a in call.args if a.place is not None and body.ty(a.place.local).startswith(("&", "*"))]
    if not refs:
        # by-value receivers (Arc clones etc.) may alias shared state: be conservative
        return False
    for a in refs:
        r = _root_local(fv, body, a.place.local)
        if r <= body.argc or body.ty(r).startswith(("&", "*")) or "MutexGuard" in body.ty(r) or \
           "Arc<" in body.ty(r) or "Weak<" in body.ty(r):
            return False
    return True


Effects.args_are_local = _args_are_local


def refusal_exits(ctx, fv, storage_pred=None, kinds=("err",)):
    """return sites that deliver an error and are not caused solely by a storage-layer failure"""
    out = []
    store_edges = set()
    if storage_pred is not None:
        for bi, c in fv.b.calls():
            n1 = c.callee.name if c.callee else ""
            n2 = c.decl.name if c.decl else ""
            if storage_pred(n1) or storage_pred(n2):
                store_edges |= fv.result_edges(bi, c, "err")
    for r in fv.return_sites():
        if r["kind"] not in kinds:
            continue
        if store_edges and r["block"] not in fv.reach(0, cut_edges=store_edges):
            continue    # only reachable through a storage failure
        out.append(r)
    return out, store_edges


def e5_pairs(ctx, eff, body, storage_pred, classes=None, extra_sites=(), _stack=None, kinds=("err",)):
    """[(site, exit)] where a mutation of the classes can be followed by a refusal exit.
    For a call site whose callee may both mutate and fail, exits reachable only through the call's own Err
    edges count only if the callee is itself non-atomic."""
    fv = R.fnview(ctx, body)
    exits, _ = refusal_exits(ctx, fv, storage_pred, kinds)
    out = []
    for site in list(eff.sites(body, classes)) + list(extra_sites):
        bi, cs, desc, ln = site
        t = body.term(bi)
        own_ok = own_err = None
        if t.kind == "call" and (desc.startswith("call ") or desc.startswith("persist")):
            own_ok = fv.result_edges(bi, t.call, "ok")
            own_err = fv.result_edges(bi, t.call, "err")
        for x in exits:
            if x["block"] == bi and t.kind == "call" and x.get("call") is t.call:
                # tail position `return callee(..)`: only the callee's own failure
                if not _callees_atomic(ctx, eff, body, t.call, storage_pred, classes, _stack):
                    out.append((site, x))
                continue
            if not fv.reaches(bi, x["block"]):
                continue
            if own_err:
                # reachable when the call succeeded?
                after_ok = set()
                for (u, v) in own_ok:
                    after_ok |= fv.reach(v)
                if own_ok and x["block"] in after_ok:
                    out.append((site, x))
                elif not _callees_atomic(ctx, eff, body, t.call, storage_pred, classes, _stack):
                    out.append((site, x))
            else:
                out.append((site, x))
    return out


def _callees_atomic(ctx, eff, body, call, storage_pred, classes, _stack):
    _stack = _stack or set()
    # what counts as the callee "failing": Err for Result, false for bool, None for Option
    dty = body.ty(call.dest.local) if call.dest.is_local() else ""
    kinds = ("false",) if dty == "bool" else (("none",) if dty.startswith(("std::option::Option<", "core::option::Option<")) else ("err",))
    for cal in eff.callees(call, body):
        if not eff.summary(cal):
            continue
        if not is_atomic(ctx, eff, cal, storage_pred, classes, _stack | {body.d.id}, kinds):
            return False
    return True


def is_atomic(ctx, eff, body, storage_pred, classes=None, _stack=None, kinds=("err",)):
    """E5 holds inside `body` (transitively)"""
    cache = ctx.__dict__.setdefault("_atomic", {})
    key = (body.d.id, tuple(sorted(classes)) if classes else None, kinds)
    if key in cache:
        return cache[key]
    _stack = _stack or set()
    if body.d.id in _stack:
        return True
    r = not e5_pairs(ctx, eff, body, storage_pred, classes, _stack=_stack | {body.d.id}, kinds=kinds)
    cache[key] = r
    return r

"""E5 / E6: effects over monitored state classes.

A *class* is a set of (owner ADT suffix, field) pairs (or a whole owner).  A mutation site is
 (a) an assignment whose place passes through a monitored field,
 (b) a call that receives `&mut <place through a monitored field>` (Vec::push, mem::swap, Option::take, ...),
 (c) a call to a function whose summary says it may mutate the class (transitively; CHA + closures).
E5 (failure atomicity): no mutation site reaches a refusal exit.
E6 (persist before acknowledge): every success return reachable from a mutation passes the Ok of the persister
    call that stores the class.
"""
from collections import defaultdict

from .cfg import FnView, render, strip_ref, subexprs
from . import rulelib as R

class _RO:
    SUB = ("::fmt::", "::cmp::", "::hash::", "::borrow::Borrow")
    # method names are matched as the last path segment only: `::iter` must not match `std::iter::Extend<T>>::extend`
    METHODS = ("len", "is_empty", "iter", "get", "contains", "contains_key", "as_ref", "to_string", "to_owned", "as_slice",
               "first", "last", "keys", "values", "clone", "deref")

    def __iter__(self):
        return iter(())

    @staticmethod
    def matches(nm):
        return any(x in nm for x in _RO.SUB) or nm.rsplit("::", 1)[-1] in _RO.METHODS


READONLY_CALLS = _RO()
# &mut-taking std methods that do not change the receiver's observable value
MUT_BUT_PURE = ("::iter_mut", "::as_mut", "::deref_mut", "::borrow_mut", "::get_mut", "::values_mut", "::as_deref_mut",
                "::entry", "::last_mut", "::first_mut", "::index_mut")


class Classes:
    def __init__(self, spec, by_type=None):
        """spec: {class_name: [(owner_suffix, field or None)]}
        by_type: {class_name: predicate on a type string} - state that is reached through a lock guard and has no
        field of its own in the access path (the channel map: `MutexGuard<BTreeMap<ChannelId, Arc<Mutex<ChannelSlot>>>>`);
        a `&mut T` local whose T satisfies the predicate points into that class"""
        self.spec = spec
        self.by_type = by_type or {}

    def classify_type(self, ty):
        out = set()
        if ty.startswith("&mut "):
            for cname, pred in self.by_type.items():
                if pred(ty[5:]):
                    out.add(cname)
        return out

    def classify_proj(self, proj):
        """classes touched by a projection path"""
        out = set()
        for p in proj:
            if isinstance(p, tuple) and p[0] == "f":
                for cname, items in self.spec.items():
                    for owner, field in items:
                        if p[1].endswith(owner) and (field is None or field == p[2]):
                            out.add(cname)
        return out

    def classify_expr(self, e):
        out = set()
        for x in subexprs(e):
            if x[0] == "field":
                for cname, items in self.spec.items():
                    for owner, field in items:
                        if x[2].endswith(owner) and (field is None or field == x[3]):
                            out.add(cname)
        return out


class Effects:
    def __init__(self, ctx, classes, skip=R.is_test_util, pure_fns=(), store_calls=None):
        """store_calls: optional predicate on callee names; a call to such a function (a persister write) is a mutation of
        the class "store" and is part of the callers' summaries"""
        self.store_calls = store_calls
        self.ctx = ctx
        self.prog = ctx.prog
        self.cl = classes
        self.skip = skip
        self.pure_fns = set(pure_fns)
        self._local = {}
        self._sum = {}

    # ------------------------------------------------------------ local mutation sites
    def local_sites(self, body):
        """[(bi, 'S'|'T', classes, description, line)] for kinds (a) and (b)"""
        k = body.d.id
        if k in self._local:
            return self._local[k]
        out = []
        fv = R.fnview(self.ctx, body)
        # locals that hold `&mut <monitored place>` (direct) -> class set
        mutref = {}
        owned = lambda l: l > body.argc and not _carries_ref(body.ty(l))
        self._owned = owned
        for bi in range(fv.n):
            if body.cleanup[bi]:
                continue
            for s in body.stmts(bi):
                if s.kind == "a" and s.rv.op in ("ref", "ptr") and s.rv.a and s.place.is_local():
                    cs = self.cl.classify_proj(s.rv.place.proj)
                    if cs and "*" not in s.rv.place.proj and owned(s.rv.place.local):
                        cs = set()      # &mut into a value owned by this function (a staged copy / fresh object)
                    if not cs and s.rv.place.local in mutref and all(p == "*" for p in s.rv.place.proj):
                        cs = mutref[s.rv.place.local]      # reborrow
                    if cs:
                        mutref[s.place.local] = set(cs)
        # `&mut T` locals of a by-type class (result of DerefMut::deref_mut on the guard, of get_mut, ...)
        if self.cl.by_type:
            for bi in range(fv.n):
                if body.cleanup[bi]:
                    continue
                t = body.term(bi)
                if t.kind == "call" and t.call.dest.is_local():
                    cs = self.cl.classify_type(body.ty(t.call.dest.local))
                    if cs:
                        mutref.setdefault(t.call.dest.local, set()).update(cs)
            for l in range(1, body.argc + 1):
                cs = self.cl.classify_type(body.ty(l))
                if cs:
                    mutref.setdefault(l, set()).update(cs)
        # propagate through plain moves/copies of the reference
        changed = True
        while changed:
            changed = False
            for bi in range(fv.n):
                if body.cleanup[bi]:
                    continue
                for s in body.stmts(bi):
                    if s.kind == "a" and s.place.is_local() and s.rv.op in ("use", "cast") and s.rv.ops and \
                       s.rv.ops[0].place is not None and s.rv.ops[0].place.is_local() and \
                       s.rv.ops[0].place.local in mutref and s.place.local not in mutref:
                        mutref[s.place.local] = set(mutref[s.rv.ops[0].place.local])
                        changed = True
                    if s.kind == "a" and s.rv.op in ("ref", "ptr") and s.rv.a and s.place.is_local() and \
                       s.place.local not in mutref and s.rv.place.local in mutref and \
                       all(p == "*" for p in s.rv.place.proj):
                        mutref[s.place.local] = set(mutref[s.rv.place.local])
                        changed = True
        for bi in range(fv.n):
            if body.cleanup[bi]:
                continue
            for si, s in enumerate(body.stmts(bi)):
                cs = self.cl.classify_proj(s.place.proj)
                if cs and "*" not in s.place.proj and owned(s.place.local):
                    cs = set()          # field of a local value, not of shared state
                # write through a &mut local that points into monitored state
                if not cs and s.place.proj and s.place.proj[0] == "*" and s.place.local in mutref:
                    cs = mutref[s.place.local]
                if cs:
                    out.append((bi, "S", set(cs), f"write {s.place!r}", s.line))
            t = body.term(bi)
            if t.kind == "call" and self.store_calls is not None:
                n1 = t.call.callee.name if t.call.callee else ""
                n2 = t.call.decl.name if t.call.decl else ""
                if self.store_calls(n1) or self.store_calls(n2):
                    out.append((bi, "T", {"store"}, "persist " + (n2 or n1).rsplit("::", 1)[-1], t.call.line))
            if t.kind == "call":
                c = t.call
                nm = c.callee.name if c.callee else ""
                cs = set()
                for a in c.args:
                    if a.place is not None and a.place.is_local() and a.place.local in mutref:
                        cs |= mutref[a.place.local]
                if cs and not any(x in nm for x in MUT_BUT_PURE) and not READONLY_CALLS.matches(nm):
                    # a local callee that receives &mut state: use its summary instead (more precise)
                    cal = self.prog.possible_callees(c, body)
                    if cal and all(x.d.local for x in cal) and not all(self._is_container_method(x) for x in cal):
                        pass  # handled by (c)
                    else:
                        out.append((bi, "T", cs, f"{nm.rsplit('::', 2)[-2] if '::' in nm else ''}::{nm.rsplit('::', 1)[-1]}(&mut state)", c.line))
                if self.cl.classify_proj(c.dest.proj):
                    out.append((bi, "T", self.cl.classify_proj(c.dest.proj), f"write {c.dest!r}", c.line))
                # returned &mut into monitored state (as_mut / get_mut ...): track the destination as a mutref
                if cs and any(x in nm for x in MUT_BUT_PURE) and c.dest.is_local():
                    mutref[c.dest.local] = set(cs)
        self._local[k] = out
        return out

    def _is_container_method(self, callee):
        """a method of one of the repository's own generic containers (OrderedSet, OrderedMap, ...) that takes `&mut self`:
        inside it the receiver is just `self`, so its summary cannot name the monitored field it was handed - the call
        site is the mutation"""
        nm = callee.name
        return callee.argc >= 1 and callee.ty(1).startswith("&mut ") and \
            any(x in nm for x in ("OrderedSet", "OrderedMap", "UnorderedSet", "UnorderedMap")) and \
            not any(x in nm for x in MUT_BUT_PURE)

    # ------------------------------------------------------------ summaries
    def summary(self, body, _stack=None):
        """classes this function may mutate (transitively)"""
        k = body.d.id
        if k in self._sum:
            return self._sum[k]
        _stack = _stack or set()
        if k in _stack:
            return set()
        _stack = _stack | {k}
        if self.skip(body.name) or body.name in self.pure_fns:
            self._sum[k] = set()
            return set()
        out = set()
        for (_, _, cs, _, _) in self.local_sites(body):
            out |= cs
        for bi, c in body.calls():
            for cal in self.callees(c, body):
                out |= self.summary(cal, _stack)
        self._sum[k] = out
        return out

    def callees(self, c, body):
        res = [x for x in self.prog.possible_callees(c, body) if not self.skip(x.name)]
        for cd in c.cls:
            if cd.id in self.prog.bodies:
                res.append(self.prog.bodies[cd.id])
        return [x for x in res if x.d.id != body.d.id]

    def sites(self, body, classes=None):
        """all mutation sites in body incl. calls to mutating callees: (bi, classes, desc, line)"""
        out = []
        for (bi, k, cs, d, ln) in self.local_sites(body):
            if classes is None or cs & classes:
                out.append((bi, cs if classes is None else cs & classes, d, ln))
        fv = R.fnview(self.ctx, body)
        for bi, c in body.calls():
            cs = set()
            names = []
            for cal in self.callees(c, body):
                s = self.summary(cal)
                if s:
                    cs |= s
                    names.append(cal.name)
            if cs and self.args_are_local(fv, body, c):
                cs = set()
            if classes is not None:
                cs &= classes
            if cs:
                out.append((bi, cs, f"call {names[0]}" + (f" (+{len(names) - 1})" if len(names) > 1 else ""), c.line))
        return out


def _carries_ref(ty):
    """the type is or contains a borrow / shared handle (so a value of it may alias shared state)"""
    return "&" in ty or "*mut" in ty or "*const" in ty or "MutexGuard" in ty or "Arc<" in ty or "Weak<" in ty \
        or "RefMut<" in ty or "Rc<" in ty


def _root_local(fv, body, local, depth=0):
    """follow reference locals back to the local they point into; returns (local, through_deref_of_param)"""
    if depth > 12:
        return local
    if not _carries_ref(body.ty(local)):
        return local
    ds = fv.defs.get(local, [])
    if len(ds) != 1:
        return local
    bi, idx, obj = ds[0]
    if idx == "T":
        if obj.args and obj.args[0].place is not None:
            return _root_local(fv, body, obj.args[0].place.local, depth + 1)
        return local
    if obj.kind != "a":
        return local
    pl = obj.rv.place if obj.rv.op in ("ref", "ptr") else (obj.rv.ops[0].place if obj.rv.ops else None)
    if pl is None:
        return local
    return _root_local(fv, body, pl.local, depth + 1)


def _args_are_local(self, fv, body, call):
    """every by-reference argument of the call is rooted in a value owned by this function"""
    refs = [a for a in call.args if a.place is not None and _carries_ref(body.ty(a.place.local))]
    if not refs:
        # by-value receivers (Arc clones etc.) may alias shared state: be conservative
        return False
    for a in refs:
        r = _root_local(fv, body, a.place.local)
        if r <= body.argc or _carries_ref(body.ty(r)):
            return False
    return True


Effects.args_are_local = _args_are_local


def _storage_only(ctx, body, storage_pred, _stack=()):
    """`body` is a storage wrapper: it can fail, and every one of its error exits is caused solely by the
    failure of a storage call (directly or through another such wrapper), e.g. Node::update_allowlist"""
    cache = ctx.__dict__.setdefault("_so", {})
    key = body.d.id
    if key in cache:
        return cache[key]
    if key in _stack or len(_stack) > 3:
        return False
    fv = R.fnview(ctx, body)
    errs = [r for r in fv.return_sites() if r["kind"] == "err"]
    maybe = [r for r in fv.return_sites() if r["kind"] == "maybe"]
    res = False
    if errs or maybe:
        ex, se = refusal_exits(ctx, fv, storage_pred, ("err", "maybe"), _stack + (key,))
        res = bool(se) and not ex
    cache[key] = res
    return res


def refusal_exits(ctx, fv, storage_pred=None, kinds=("err",), _stack=()):
    """return sites that deliver an error and are not caused solely by a storage-layer failure"""
    out = []
    store_edges = set()
    if storage_pred is not None:
        for bi, c in fv.b.calls():
            n1 = c.callee.name if c.callee else ""
            n2 = c.decl.name if c.decl else ""
            if storage_pred(n1) or storage_pred(n2):
                store_edges |= fv.result_edges(bi, c, "err")
                # `return persister.update(..).map_err(..)`: the call's result is the function's result
                if not fv.result_edges(bi, c, "err") and not fv.result_edges(bi, c, "ok"):
                    store_edges.add(("tail", bi))
            elif c.callee is not None and c.callee.id in ctx.prog.bodies and c.callee.krate == fv.b.d.krate:
                cb = ctx.prog.bodies[c.callee.id]
                if cb is not fv.b and "Result<" in cb.local_tys[0] and _storage_only(ctx, cb, storage_pred, _stack):
                    store_edges |= fv.result_edges(bi, c, "err")
    tails = {e[1] for e in store_edges if e[0] == "tail"}
    store_edges = {e for e in store_edges if e[0] != "tail"}
    for r in fv.return_sites():
        if r["kind"] not in kinds:
            continue
        if store_edges and r["block"] not in fv.reach(0, cut_edges=store_edges):
            continue    # only reachable through a storage failure
        if tails and "call" in r and r["block"] in tails:
            continue
        if tails and r["kind"] == "maybe" and _tail_of(fv, r, tails):
            continue
        out.append(r)
    if tails and not store_edges:
        store_edges = {("tail", t) for t in tails}
    return out, store_edges


def _tail_of(fv, r, tails):
    """the returned Result is (a map_err/identity image of) the result of a storage call in `tails`"""
    try:
        e = fv.expr(r["stmt"].rv.ops[0]) if "stmt" in r and r["stmt"].rv.ops else None
    except Exception:
        e = None
    if e is None and "call" in r:
        e = fv._call_expr(r["call"], 0)
    if e is None:
        return False
    from .cfg import subexprs
    for t in tails:
        c = fv.b.term(t).call
        nm = c.callee.name if c.callee else ""
        if any(x[0] == "call" and x[1] == nm for x in subexprs(e)):
            return True
    return False


def exit_cause(fv, x):
    """what makes a refusal exit happen, in a form that survives line shifts: the policy tag of the policy_error call
    the exit is behind, else the name of the call whose failure leads (only) to that exit, else "explicit" """
    blk = x["block"]
    best = None
    for bi, tag in getattr(fv, "policy_sites", []):
        if tag and (bi == blk or blk in fv.reach(bi)) and blk not in fv.reach(0, cut_nodes={bi}):
            best = (bi, "policy:" + tag) if best is None or bi > best[0] else best
    if best:
        return best[1]
    cands = []
    for bi, c in fv.b.calls():
        if c.callee is None:
            continue
        nm = c.callee.name
        if any(k in nm for k in ("FromResidual", "Try>::branch", "::map_err", "::into", "convert::From", "::ok_or", "fmt::", "format")):
            continue
        if nm.rsplit("::", 1)[-1] == "next" and "Iterator" in nm:
            continue   # loop plumbing: everything behind a `for` loop is "behind next() == None"; not a cause
        ee = fv.result_edges(bi, c, "err")
        if not ee:
            continue
        if blk not in fv.reach(0, cut_edges=ee) and any(blk in fv.reach(v) or blk == v for (_, v) in ee):
            cands.append((bi, nm))
    if cands:
        return "call:" + max(cands)[1].rsplit("::", 1)[-1]
    return "explicit"


def e5_pairs(ctx, eff, body, storage_pred, classes=None, extra_sites=(), _stack=None, kinds=("err",)):
    """[(site, exit)] where a mutation of the classes can be followed by a refusal exit.
    For a call site whose callee may both mutate and fail, exits reachable only through the call's own Err
    edges count only if the callee is itself non-atomic."""
    fv = R.fnview(ctx, body)
    exits, _ = refusal_exits(ctx, fv, storage_pred, kinds)
    out = []
    for site in list(eff.sites(body, classes)) + list(extra_sites):
        bi, cs, desc, ln = site
        t = body.term(bi)
        own_ok = own_err = None
        if t.kind == "call" and (desc.startswith("call ") or desc.startswith("persist")):
            own_ok = fv.result_edges(bi, t.call, "ok")
            own_err = fv.result_edges(bi, t.call, "err")
        for x in exits:
            if x["block"] == bi and t.kind == "call" and x.get("call") is t.call:
                # tail position `return callee(..)`: only the callee's own failure
                if not _callees_atomic(ctx, eff, body, t.call, storage_pred, classes, _stack):
                    out.append((site, x))
                continue
            if not fv.reaches(bi, x["block"]):
                continue
            if own_err:
                # reachable when the call succeeded?
                after_ok = set()
                for (u, v) in own_ok:
                    after_ok |= fv.reach(v)
                if own_ok and x["block"] in after_ok:
                    out.append((site, x))
                elif not _callees_atomic(ctx, eff, body, t.call, storage_pred, classes, _stack):
                    out.append((site, x))
            else:
                out.append((site, x))
    return out


def _callees_atomic(ctx, eff, body, call, storage_pred, classes, _stack):
    _stack = _stack or set()
    # what counts as the callee "failing": Err for Result, false for bool, None for Option
    dty = body.ty(call.dest.local) if call.dest.is_local() else ""
    kinds = ("false",) if dty == "bool" else (("none",) if dty.startswith(("std::option::Option<", "core::option::Option<")) else ("err",))
    for cal in eff.callees(call, body):
        if not eff.summary(cal):
            continue
        if not is_atomic(ctx, eff, cal, storage_pred, classes, _stack | {body.d.id}, kinds):
            return False
    return True


def is_atomic(ctx, eff, body, storage_pred, classes=None, _stack=None, kinds=("err",)):
    """E5 holds inside `body` (transitively)"""
    cache = ctx.__dict__.setdefault("_atomic", {})
    key = (body.d.id, tuple(sorted(classes)) if classes else None, kinds)
    if key in cache:
        return cache[key]
    _stack = _stack or set()
    if body.d.id in _stack:
        return True
    r = not e5_pairs(ctx, eff, body, storage_pred, classes, _stack=_stack | {body.d.id}, kinds=kinds)
    cache[key] = r
    return r


# ---------------------------------------------------------------------------- E6
def _ack_sites(fv):
    """return sites that acknowledge the request: Ok/Some/true for fallible functions, every return otherwise"""
    rt = fv.b.local_tys[0]
    if rt.startswith(("std::result::Result<", "std::option::Option<")) or rt == "bool":
        return fv.success_sites()
    out = []
    for bi in fv.live_blocks():
        t = fv.b.term(bi)
        if t.kind == "ret":
            out.append({"block": bi, "kind": "value", "line": t.line, "how": "return"})
    return out


def _flows_to_return(fv, call):
    """the call's Result is (an identity / map_err image of) what the function returns"""
    from .cfg import IDENTITY_CALLS
    b = fv.b
    if not call.dest.is_local():
        return False
    seen, work = set(), [call.dest.local]
    while work:
        l = work.pop()
        if l in seen:
            continue
        seen.add(l)
        if l == 0:
            return True
        for bi, idx, kind, obj in fv._uses(l):
            if kind == "stmt" and obj.place.is_local() and obj.rv.op in ("use", "ref") :
                work.append(obj.place.local)
            elif kind == "callarg":
                c2, ai = obj
                nm = c2.callee.name if c2.callee else ""
                if ai == 0 and c2.dest.is_local() and any(f in nm for f in IDENTITY_CALLS):
                    work.append(c2.dest.local)
    return False


class Durability:
    """persist-before-acknowledge.  classes: {name: persister_pred}.  A function *leaks* class D when some success
    return is reachable from a mutation of D without passing, after the mutation, the successful completion of a
    persister call for D (directly or inside a callee that does not leak D itself)."""

    def __init__(self, ctx, eff, persisters, skip=R.is_test_util, mutates_only_on_success=(), exceptions=(),
                 storage_pred=None):
        self.exceptions = set(exceptions)
        self.dropped_results = []
        self.storage_pred = storage_pred
        self.ctx = ctx
        self.eff = eff
        self.persisters = persisters
        self.skip = skip
        self.mutates_only_on_success = set(mutates_only_on_success)
        self._leaks = {}

    def persist_edges(self, fv, body, cls):
        """edges that mean 'a persister call for cls completed successfully'"""
        pred = self.persisters[cls]
        edges = set()
        for bi, c in body.calls():
            n1 = c.callee.name if c.callee else ""
            n2 = c.decl.name if c.decl else ""
            direct = pred(n1) or pred(n2)
            via = False
            if not direct:
                cal = [x for x in self.eff.callees(c, body)]
                # a callee that always persists cls before its own success returns
                via = bool(cal) and all(self.always_persists(x, cls) for x in cal)
            if direct or via:
                es = fv.result_edges(bi, c, "ok")
                if not es and c.target is not None:
                    dty = body.ty(c.dest.local) if c.dest.is_local() else ""
                    if dty.startswith("std::result::Result<") and not _flows_to_return(fv, c):
                        # `let _ = persist();` / `persist().ok();`: a storage error is dropped, the write may not
                        # have happened - this is not a completed persist
                        self.dropped_results.append((body.name, c.line))
                        continue
                    es = {(bi, c.target)}       # returns () or the result *is* the function's result: completion edge
                edges |= es
        return edges

    def always_persists(self, body, cls, _stack=None):
        key = ("ap", body.d.id, cls)
        if key in self._leaks:
            return self._leaks[key]
        _stack = _stack or set()
        if body.d.id in _stack or self.skip(body.name):
            return False
        self._leaks[key] = False
        fv = R.fnview(self.ctx, body)
        pred = self.persisters[cls]
        edges = set()
        for bi, c in body.calls():
            n1 = c.callee.name if c.callee else ""
            n2 = c.decl.name if c.decl else ""
            if pred(n1) or pred(n2):
                es = fv.result_edges(bi, c, "ok")
                if not es and c.target is not None:
                    es = {(bi, c.target)}
                edges |= es
        succ = _ack_sites(fv)
        r = bool(edges) and bool(succ) and all(fv.must_pass(s["block"], edges) for s in succ)
        self._leaks[key] = r
        return r

    def leaks(self, body, cls, _stack=None):
        """list of (site, return_site) pairs: mutation of cls acknowledged without persisting"""
        key = (body.d.id, cls)
        if key in self._leaks:
            return self._leaks[key]
        _stack = _stack or set()
        if body.d.id in _stack or (body.name, cls) in self.exceptions:
            return []
        self._leaks[key] = []
        fv = R.fnview(self.ctx, body)
        pe = self.persist_edges(fv, body, cls)
        out = []
        succ = _ack_sites(fv)
        for (bi, k, cs, desc, ln) in self.eff.local_sites(body):
            if cls not in cs:
                continue
            for r in succ:
                if r["block"] in self._after(fv, bi, pe):
                    out.append(((bi, desc, ln), r))
        for bi, c in body.calls():
            leaking = []
            for cal in self.eff.callees(c, body):
                if cls in self.eff.summary(cal) and self.leaks(cal, cls, _stack | {body.d.id}):
                    leaking.append(cal.name)
            if not leaking or self.eff.args_are_local(fv, body, c):
                continue
            only_ok = None
            if all(x in self.mutates_only_on_success for x in leaking):
                only_ok = fv.result_edges(bi, c, "ok")
            elif fv.result_edges(bi, c, "err") and _callees_atomic(self.ctx, self.eff, body, c, self.storage_pred,
                                                                    {cls}, None):
                # failure-atomic callee: nothing changed when it reports failure
                only_ok = fv.result_edges(bi, c, "ok")
            for r in succ:
                if r["block"] in self._after(fv, bi, pe, only_ok):
                    out.append(((bi, f"call {leaking[0]}", c.line), r))
        self._leaks[key] = out
        return out

    def _after(self, fv, bi, pe, start_edges=None):
        """blocks reachable after the mutation at block bi without completing a persister call.
        Flag refinement: `dirty = true` set together with the mutation and tested later (`if dirty { persist }`):
        the flag's false edge is infeasible after the mutation."""
        cut = set(pe) | self._flag_cuts(fv, bi)
        seen = set()
        starts = [(bi, v) for v in fv.succ[bi]] if start_edges is None else list(start_edges)
        for (u, v) in starts:
            if (u, v) in cut or (u, v) in fv.removed:
                continue
            seen |= fv.reach(v, cut_edges=cut)
        if start_edges is None:
            seen.add(bi)
        return seen

    def _flag_cuts(self, fv, bi):
        b = fv.b
        cuts = set()
        after = fv.reach(bi)
        for sb in after:
            t = b.term(sb)
            if t.kind != "switch" or t.discr.place is None or not t.discr.place.is_local():
                continue
            l = t.discr.place.local
            # switch directly on a bool local, or on a copy of it
            src = l
            sd = fv.defs.get(l, [])
            if len(sd) == 1 and sd[0][1] != "T" and sd[0][2].kind == "a" and sd[0][2].rv.op == "use" and \
               sd[0][2].rv.ops[0].place is not None and sd[0][2].rv.ops[0].place.is_local():
                src = sd[0][2].rv.ops[0].place.local
            if b.ty(src) != "bool":
                continue
            defs = fv.defs.get(src, [])
            if len(defs) < 2 or any(d[1] == "T" for d in defs):
                continue
            vals = []
            for (db, di, st) in defs:
                c = st.rv.ops[0].const if st.kind == "a" and st.rv.op == "use" and st.rv.ops else None
                vals.append((db, c["s"] if c else None))
            if any(v not in ("true", "false") for _, v in vals):
                continue
            true_blocks = {db for db, v in vals if v == "true"}
            false_blocks = {db for db, v in vals if v == "false"}
            # set to true in the mutation's own block (or on every path from it to the test), never reset afterwards
            if (bi in true_blocks or (true_blocks and sb not in fv.reach(bi, cut_nodes=true_blocks))) and \
               not (false_blocks & (after - {bi})):
                for v, tgt in t.arms:
                    if v == 0:
                        cuts.add((sb, tgt))
        return cuts

"""Fact extraction: runs the vlsfacts rustc driver over /repo's *current working tree*
under `cargo +nightly check`, caches the dump by a fingerprint of the sources.

Nothing here decides a property; it only (re)builds the fact base the rules read.
"""
import fcntl
import hashlib
import os
import shutil
import subprocess
import sys
import time

VERIF = os.path.dirname(os.path.dirname(os.path.abspath(__file__)))
REPO = os.environ.get("VLS_REPO", "/repo")
CACHE = os.environ.get("VERIF_CACHE", os.path.join(VERIF, ".cache"))
DRIVER_DIR = os.path.join(VERIF, "driver")
DRIVER = os.path.join(DRIVER_DIR, "target", "release", "vlsfacts")
TARGET = os.path.join(CACHE, "target")

# name -> (cargo args, expected crate fact files (crate names) that MUST be present)
CONFIGS = {
    # the workspace exactly as `cargo build --workspace` unifies it (test_utils ON in vls-core)
    "default": (
        ["--workspace"],
        [
            "lightning_signer", "vls_protocol", "vls_protocol_signer", "vls_persist",
            "lightning_storage_server", "vls_frontend", "vls_proxy", "vlsd",
            "vls_protocol_client", "vls_util", "vls_common",
        ],
    ),
    # production signer stack: no test_utils anywhere (vls-persist's default feature set enables it)
    "signer_prod": (
        ["-p", "vls-protocol-signer", "-p", "vls-persist", "--no-default-features", "--features",
         "vls-protocol-signer/std,vls-persist/std,vls-persist/kvv,vls-persist/redb-kvv"],
        ["lightning_signer", "vls_protocol", "vls_protocol_signer", "vls_persist"],
    ),
    # embedded profile (what vls-signer-stm32 enables): no_std + the two workarounds
    "signer_embedded": (
        ["-p", "vls-protocol-signer", "--no-default-features", "--features",
         "no-std,secp-lowmemory,tracker_size_workaround,timeless_workaround"],
        ["lightning_signer", "vls_protocol", "vls_protocol_signer"],
    ),
    # developer message set
    "proto_dev": (
        ["-p", "vls-protocol", "--features", "developer"],
        ["vls_protocol"],
    ),
}

SKIP_DIRS = {"target", ".git", "node_modules"}


def _sysroot():
    return subprocess.check_output(["rustc", "+nightly", "--print", "sysroot"], text=True).strip()


def source_fingerprint():
    """Hash of every file that can influence the analysed program."""
    h = hashlib.sha256()
    n = 0
    for root, dirs, files in os.walk(REPO):
        dirs[:] = sorted(d for d in dirs if d not in SKIP_DIRS)
        for f in sorted(files):
            if f.endswith((".rs", ".toml", ".lock", ".proto")) or f == "build.rs":
                p = os.path.join(root, f)
                try:
                    with open(p, "rb") as fh:
                        data = fh.read()
                except OSError:
                    continue
                h.update(os.path.relpath(p, REPO).encode())
                h.update(b"\0")
                h.update(hashlib.sha256(data).digest())
                n += 1
    if os.path.exists(DRIVER):
        with open(DRIVER, "rb") as fh:
            h.update(hashlib.sha256(fh.read()).digest())
    return h.hexdigest()[:20], n


def build_driver(quiet=True):
    src_m = max(
        os.path.getmtime(os.path.join(DRIVER_DIR, "src", "main.rs")),
        os.path.getmtime(os.path.join(DRIVER_DIR, "Cargo.toml")),
    )
    if os.path.exists(DRIVER) and os.path.getmtime(DRIVER) >= src_m:
        return
    env = dict(os.environ, CARGO_NET_OFFLINE="true")
    r = subprocess.run(
        ["cargo", "+nightly", "build", "--release", "--offline"],
        cwd=DRIVER_DIR, env=env, stdout=subprocess.PIPE, stderr=subprocess.STDOUT, text=True,
    )
    if r.returncode != 0:
        sys.stderr.write(r.stdout)
        raise SystemExit(2)


def _member_packages():
    """package names whose manifest dir is under REPO (from cargo metadata, offline)."""
    import json
    env = dict(os.environ, CARGO_NET_OFFLINE="true")
    out = subprocess.check_output(
        ["cargo", "+nightly", "metadata", "--offline", "--format-version", "1"],
        cwd=REPO, env=env, stderr=subprocess.DEVNULL, text=True,
    )
    md = json.loads(out)
    names = set()
    for p in md["packages"]:
        if p["manifest_path"].startswith(REPO + "/"):
            names.add(p["name"])
    return names


def _invalidate_members():
    """cargo's freshness cache would skip the wrapper; drop the members' fingerprints."""
    fp = os.path.join(TARGET, "debug", ".fingerprint")
    if not os.path.isdir(fp):
        return
    members = _member_packages()
    for d in os.listdir(fp):
        base = d.rsplit("-", 1)[0]
        if base in members:
            full = os.path.join(fp, d)
            try:
                ents = os.listdir(full)
            except OSError:
                continue
            # keep build-script fingerprints (running protoc etc. again buys nothing)
            if any(e.startswith(("lib-", "bin-", "test-")) for e in ents):
                shutil.rmtree(full, ignore_errors=True)


def facts_dir(config="default", verbose=False):
    """Return the directory holding the fact files for `config` of the current tree."""
    os.makedirs(CACHE, exist_ok=True)
    lock = open(os.path.join(CACHE, "lock"), "w")
    fcntl.flock(lock, fcntl.LOCK_EX)
    try:
        build_driver()
        fpr, nfiles = source_fingerprint()
        out = os.path.join(CACHE, "facts", f"{config}-{fpr}")
        stamp = os.path.join(out, "COMPLETE")
        if os.path.exists(stamp):
            return out, fpr, {"cached": True, "source_files": nfiles}
        if os.path.isdir(out):
            shutil.rmtree(out)
        os.makedirs(out)
        _invalidate_members()
        args, expected = CONFIGS[config]
        env = dict(os.environ)
        env.update(
            LD_LIBRARY_PATH=_sysroot() + "/lib",
            RUSTFLAGS="-Zmir-opt-level=0 -Awarnings",
            RUSTC_WRAPPER=DRIVER,
            VLSFACTS_OUT=out,
            VLSFACTS_ROOT=REPO,
            CARGO_TARGET_DIR=TARGET,
            CARGO_NET_OFFLINE="true",
        )
        env.pop("RUSTC_WORKSPACE_WRAPPER", None)
        t0 = time.time()
        r = subprocess.run(
            ["cargo", "+nightly", "check", "--offline"] + args,
            cwd=REPO, env=env, stdout=subprocess.PIPE, stderr=subprocess.STDOUT, text=True,
        )
        if r.returncode != 0:
            sys.stderr.write(r.stdout[-6000:])
            shutil.rmtree(out, ignore_errors=True)
            print(f"BROKEN: the tree does not build under `cargo check` for config {config}")
            raise SystemExit(2)
        have = {f.split("-lib-")[0] for f in os.listdir(out) if "-lib-" in f}
        missing = [c for c in expected if c not in have]
        if missing:
            print(f"BROKEN: no fact file for crates {missing} (config {config})")
            shutil.rmtree(out, ignore_errors=True)
            raise SystemExit(2)
        with open(stamp, "w") as fh:
            fh.write(f"{time.time() - t0:.1f}\n")
        _gc(config, keep=out)
        return out, fpr, {"cached": False, "source_files": nfiles, "extract_s": round(time.time() - t0, 1)}
    finally:
        fcntl.flock(lock, fcntl.LOCK_UN)
        lock.close()


def _gc(config, keep, n=4):
    base = os.path.join(CACHE, "facts")
    ds = [os.path.join(base, d) for d in os.listdir(base) if d.startswith(config + "-")]
    ds.sort(key=os.path.getmtime, reverse=True)
    for d in ds[n:]:
        if d != keep:
            shutil.rmtree(d, ignore_errors=True)


if __name__ == "__main__":
    cfg = sys.argv[1] if len(sys.argv) > 1 else "default"
    print(facts_dir(cfg))

// vlsfacts: a rustc driver that dumps the type-checked program (MIR at mir-opt-level 0,
// impl/trait/ADT tables, evaluated associated consts) of every crate whose manifest dir
// lies under VLSFACTS_ROOT.  It contains no rule logic: it is a faithful dump that the
// Python engines in /verif/engine consume.  For every other crate it is plain rustc.
//
// Invocation: RUSTC_WRAPPER=<this> cargo +nightly check ...   (argv[1] is the real rustc)
#![feature(rustc_private)]
#![allow(deprecated)]

extern crate rustc_abi;
extern crate rustc_driver;
extern crate rustc_hir;
extern crate rustc_interface;
extern crate rustc_middle;
extern crate rustc_session;
extern crate rustc_span;

use rustc_hir::def::DefKind;
use rustc_hir::def_id::{DefId, LOCAL_CRATE};
use rustc_middle::mir::{
    AggregateKind, BasicBlock, Body, Const, Operand, Place, PlaceElem, Rvalue, StatementKind,
    TerminatorKind,
};
use rustc_middle::ty::print::{with_no_trimmed_paths, with_resolve_crate_name};
use rustc_middle::ty::{self, Instance, InstanceKind, Ty, TyCtxt, TypingEnv};
use rustc_span::Span;
use std::collections::HashMap;
use std::fmt::Write as _;

macro_rules! wntp {
    ($e:expr) => {
        with_resolve_crate_name!(with_no_trimmed_paths!($e))
    };
}

fn jstr(s: &str) -> String {
    let mut o = String::with_capacity(s.len() + 2);
    o.push('"');
    for c in s.chars() {
        match c {
            '"' => o.push_str("\\\""),
            '\\' => o.push_str("\\\\"),
            '\n' => o.push_str("\\n"),
            '\r' => o.push_str("\\r"),
            '\t' => o.push_str("\\t"),
            c if (c as u32) < 0x20 => {
                let _ = write!(o, "\\u{:04x}", c as u32);
            }
            c => o.push(c),
        }
    }
    o.push('"');
    o
}

struct Cx<'tcx> {
    tcx: TyCtxt<'tcx>,
    defs: Vec<String>, // json objects
    def_ix: HashMap<DefId, usize>,
    types: Vec<String>,
    type_ix: HashMap<String, usize>,
}

impl<'tcx> Cx<'tcx> {
    fn ty_str(&self, t: Ty<'tcx>) -> String {
        wntp!(format!("{}", t))
    }
    fn tyi(&mut self, t: Ty<'tcx>) -> usize {
        let s = self.ty_str(t);
        self.tyi_s(s)
    }
    fn tyi_s(&mut self, s: String) -> usize {
        if let Some(i) = self.type_ix.get(&s) {
            return *i;
        }
        let i = self.types.len();
        self.types.push(s.clone());
        self.type_ix.insert(s, i);
        i
    }
    fn line_of(&self, sp: Span) -> (String, usize) {
        let sp = sp.source_callsite();
        if sp.is_dummy() {
            return (String::new(), 0);
        }
        let sm = self.tcx.sess.source_map();
        let loc = sm.lookup_char_pos(sp.lo());
        let fname = format!("{}", loc.file.name.prefer_local_unconditionally());
        (fname, loc.line)
    }
    fn line(&self, sp: Span) -> usize {
        self.line_of(sp).1
    }
    fn macro_name(&self, sp: Span) -> Option<String> {
        if !sp.from_expansion() {
            return None;
        }
        // outermost macro in the backtrace (the one written in the function's source)
        let mut last = None;
        for e in sp.macro_backtrace() {
            last = Some(format!("{}", e.kind.descr()));
        }
        last
    }
    fn unique_id(&self, d: DefId) -> String {
        format!(
            "{}{}",
            self.tcx.crate_name(d.krate),
            self.tcx.def_path(d).to_string_no_crate_verbose()
        )
    }
    fn defi(&mut self, d: DefId) -> usize {
        if let Some(i) = self.def_ix.get(&d) {
            return *i;
        }
        let tcx = self.tcx;
        let i = self.defs.len();
        self.def_ix.insert(d, i);
        self.defs.push(String::new());
        let kind = tcx.def_kind(d);
        let name = wntp!(tcx.def_path_str(d));
        let id = self.unique_id(d);
        let mut o = format!(
            "{{\"id\":{},\"name\":{},\"kind\":{},\"krate\":{},\"local\":{}",
            jstr(&id),
            jstr(&name),
            jstr(&format!("{:?}", kind)),
            jstr(tcx.crate_name(d.krate).as_str()),
            if d.is_local() { "true" } else { "false" }
        );
        if d.is_local() {
            let (f, l) = self.line_of(tcx.def_span(d));
            let _ = write!(o, ",\"file\":{},\"line\":{}", jstr(&f), l);
        }
        if matches!(kind, DefKind::Fn | DefKind::AssocFn) {
            let idents = tcx.fn_arg_idents(d);
            let names: Vec<String> = idents
                .iter()
                .map(|x| match x {
                    Some(id) => jstr(id.name.as_str()),
                    None => "null".to_string(),
                })
                .collect();
            let _ = write!(o, ",\"params\":[{}]", names.join(","));
            let vis = tcx.visibility(d);
            let _ = write!(o, ",\"pub\":{}", if vis.is_public() { "true" } else { "false" });
        }
        if matches!(kind, DefKind::AssocFn | DefKind::AssocConst { .. } | DefKind::AssocTy) {
            if let Some(ai) = tcx.opt_associated_item(d) {
                let cont = ai.container_id(tcx);
                let ci = self.defi(cont);
                let _ = write!(o, ",\"container\":{}", ci);
                let _ = write!(o, ",\"item_name\":{}", jstr(ai.name().as_str()));
            }
        }
        if matches!(kind, DefKind::Closure) {
            let p = tcx.typeck_root_def_id(d);
            let pi = self.defi(p);
            let _ = write!(o, ",\"root\":{}", pi);
            if d.is_local() {
                let names: Vec<String> = tcx
                    .closure_saved_names_of_captured_variables(d)
                    .iter()
                    .map(|s| jstr(s.as_str()))
                    .collect();
                let _ = write!(o, ",\"captures\":[{}]", names.join(","));
            }
        }
        o.push('}');
        self.defs[i] = o;
        i
    }

    fn place(&mut self, body: &Body<'tcx>, p: &Place<'tcx>) -> String {
        let tcx = self.tcx;
        let mut o = format!("[{}", p.local.as_usize());
        let mut pty = rustc_middle::mir::PlaceTy::from_ty(body.local_decls[p.local].ty);
        for elem in p.projection.iter() {
            match elem {
                PlaceElem::Deref => o.push_str(",\"*\""),
                PlaceElem::Field(f, _) => {
                    let mut fname = format!("{}", f.as_usize());
                    let mut owner = String::new();
                    match pty.ty.kind() {
                        ty::Adt(adt, _) => {
                            let vi = pty.variant_index.unwrap_or(rustc_abi::FIRST_VARIANT);
                            if (vi.as_usize()) < adt.variants().len() {
                                let v = adt.variant(vi);
                                if f.as_usize() < v.fields.len() {
                                    fname = v.fields[f].name.as_str().to_string();
                                }
                            }
                            owner = wntp!(tcx.def_path_str(adt.did()));
                        }
                        ty::Closure(d, _) => {
                            let names = tcx.closure_saved_names_of_captured_variables(*d);
                            if f.as_usize() < names.len() {
                                fname = names[f].as_str().to_string();
                            }
                            owner = "{closure}".to_string();
                        }
                        ty::Tuple(_) => owner = "()".to_string(),
                        _ => {}
                    }
                    let _ = write!(o, ",[\"f\",{},{}]", jstr(&owner), jstr(&fname));
                }
                PlaceElem::Downcast(sym, vi) => {
                    let n = match sym {
                        Some(s) => s.as_str().to_string(),
                        None => format!("{}", vi.as_usize()),
                    };
                    let _ = write!(o, ",[\"v\",{}]", jstr(&n));
                }
                PlaceElem::Index(l) => {
                    let _ = write!(o, ",[\"i\",{}]", l.as_usize());
                }
                PlaceElem::ConstantIndex { offset, from_end, .. } => {
                    let _ = write!(o, ",[\"c\",{},{}]", offset, if from_end { 1 } else { 0 });
                }
                PlaceElem::Subslice { from, to, from_end } => {
                    let _ = write!(o, ",[\"s\",{},{},{}]", from, to, if from_end { 1 } else { 0 });
                }
                _ => o.push_str(",\"o\""),
            }
            pty = pty.projection_ty(tcx, elem);
        }
        o.push(']');
        o
    }

    fn generic_closures(&mut self, args: ty::GenericArgsRef<'tcx>) -> Vec<usize> {
        let mut v = vec![];
        for a in args.iter() {
            if let Some(t) = a.as_type() {
                for inner in t.walk() {
                    if let Some(it) = inner.as_type() {
                        if let ty::Closure(d, _) = it.kind() {
                            let i = self.defi(*d);
                            if !v.contains(&i) {
                                v.push(i);
                            }
                        }
                    }
                }
            }
        }
        v
    }

    fn constant(&mut self, owner: DefId, c: &Const<'tcx>) -> String {
        let tcx = self.tcx;
        let t = c.ty();
        let ti = self.tyi(t);
        let disp = wntp!(format!("{}", c));
        let mut o = format!("{{\"t\":{},\"s\":{}", ti, jstr(&disp));
        if t.is_integral() || t.is_bool() || t.is_char() {
            let env = TypingEnv::post_analysis(tcx, owner);
            if let Some(si) = c.try_eval_scalar_int(tcx, env) {
                let bits = si.to_bits_unchecked();
                let v: i128 = if t.is_signed() {
                    let size = si.size();
                    size.sign_extend(bits) as i128
                } else {
                    bits as i128
                };
                let _ = write!(o, ",\"v\":\"{}\"", v);
            }
        }
        if let Const::Unevaluated(u, _) = c {
            let di = self.defi(u.def);
            let _ = write!(o, ",\"def\":{}", di);
            if let Some(pi) = u.promoted {
                o.push_str(",\"promoted\":true");
                // describe the promoted body (e.g. `_1 = Network::Testnet; _0 = &_1`) so rules can see the value
                if u.def.is_local() {
                    let proms = tcx.promoted_mir(u.def);
                    if pi.as_usize() < proms.len() {
                        let pb = &proms[pi];
                        let mut parts: Vec<String> = vec![];
                        for bb in pb.basic_blocks.iter() {
                            for st in bb.statements.iter() {
                                if let StatementKind::Assign(_) = &st.kind {
                                    parts.push(wntp!(format!("{:?}", st)));
                                }
                            }
                            // a promoted constant built by a const fn call, e.g. `(a..=b)` is RangeInclusive::new(a, b)
                            if let Some(term) = &bb.terminator {
                                if let TerminatorKind::Call { .. } = &term.kind {
                                    let t = wntp!(format!("{:?}", term.kind));
                                    let t = t.split(" -> ").next().unwrap_or("").to_string();
                                    parts.push(t);
                                }
                            }
                        }
                        let joined = parts.join("; ");
                        let _ = write!(o, ",\"pv\":{}", jstr(&joined));
                    }
                }
            }
        }
        if let ty::FnDef(d, args) = t.kind() {
            let di = self.defi(*d);
            let _ = write!(o, ",\"fn\":{}", di);
            let cls = self.generic_closures(args);
            if !cls.is_empty() {
                let s: Vec<String> = cls.iter().map(|x| x.to_string()).collect();
                let _ = write!(o, ",\"cls\":[{}]", s.join(","));
            }
        }
        o.push('}');
        o
    }

    fn operand(&mut self, owner: DefId, body: &Body<'tcx>, op: &Operand<'tcx>) -> String {
        match op {
            Operand::Copy(p) => format!("[\"c\",{}]", self.place(body, p)),
            Operand::Move(p) => format!("[\"m\",{}]", self.place(body, p)),
            Operand::Constant(c) => format!("[\"k\",{}]", self.constant(owner, &c.const_)),
            _ => "[\"rt\"]".to_string(),
        }
    }

    fn rvalue(&mut self, owner: DefId, body: &Body<'tcx>, rv: &Rvalue<'tcx>) -> String {
        let tcx = self.tcx;
        match rv {
            Rvalue::Use(op, ..) => format!("[\"use\",{}]", self.operand(owner, body, op)),
            Rvalue::Repeat(op, _) => format!("[\"repeat\",{}]", self.operand(owner, body, op)),
            Rvalue::Ref(_, bk, p) => {
                let m = matches!(bk, rustc_middle::mir::BorrowKind::Mut { .. });
                format!("[\"ref\",{},{}]", if m { 1 } else { 0 }, self.place(body, p))
            }
            Rvalue::RawPtr(k, p) => {
                let m = matches!(k, rustc_middle::mir::RawPtrKind::Mut);
                format!("[\"ptr\",{},{}]", if m { 1 } else { 0 }, self.place(body, p))
            }
            Rvalue::Cast(k, op, t) => {
                let ks = format!("{:?}", k);
                let ks = ks.split('(').next().unwrap_or("").to_string();
                let ti = self.tyi(*t);
                format!("[\"cast\",{},{},{}]", jstr(&ks), self.operand(owner, body, op), ti)
            }
            Rvalue::BinaryOp(b, ops) => {
                let l = self.operand(owner, body, &ops.0);
                let r = self.operand(owner, body, &ops.1);
                format!("[\"bin\",{},{},{}]", jstr(&format!("{:?}", b)), l, r)
            }
            Rvalue::UnaryOp(u, op) => {
                format!("[\"un\",{},{}]", jstr(&format!("{:?}", u)), self.operand(owner, body, op))
            }
            Rvalue::Discriminant(p) => {
                let pty = p.ty(&body.local_decls, tcx).ty;
                let ti = self.tyi(pty);
                format!("[\"discr\",{},{}]", self.place(body, p), ti)
            }
            Rvalue::CopyForDeref(p) => format!("[\"use\",[\"c\",{}]]", self.place(body, p)),
            Rvalue::Aggregate(k, ops) => {
                let opss: Vec<String> = ops.iter().map(|x| self.operand(owner, body, x)).collect();
                let ks = match &**k {
                    AggregateKind::Array(_) => "\"array\"".to_string(),
                    AggregateKind::Tuple => "\"tuple\"".to_string(),
                    AggregateKind::Adt(d, vi, _, _, _) => {
                        let adt = tcx.adt_def(*d);
                        let v = adt.variant(*vi);
                        let fns: Vec<String> =
                            v.fields.iter().map(|f| jstr(f.name.as_str())).collect();
                        let di = self.defi(*d);
                        format!(
                            "[\"adt\",{},{},[{}]]",
                            di,
                            jstr(v.name.as_str()),
                            fns.join(",")
                        )
                    }
                    AggregateKind::Closure(d, _) => {
                        let di = self.defi(*d);
                        format!("[\"closure\",{}]", di)
                    }
                    AggregateKind::Coroutine(d, _) | AggregateKind::CoroutineClosure(d, _) => {
                        let di = self.defi(*d);
                        format!("[\"coroutine\",{}]", di)
                    }
                    AggregateKind::RawPtr(..) => "\"rawptr\"".to_string(),
                };
                format!("[\"agg\",{},[{}]]", ks, opss.join(","))
            }
            Rvalue::ThreadLocalRef(d) => {
                let di = self.defi(*d);
                format!("[\"tls\",{}]", di)
            }
            other => format!("[\"other\",{}]", jstr(&format!("{:?}", other))),
        }
    }

    fn body(&mut self, owner: DefId, out: &mut String) {
        let tcx = self.tcx;
        let body: &Body<'tcx> = tcx.optimized_mir(owner);
        let di = self.defi(owner);
        let _ = write!(out, "{{\"k\":\"body\",\"d\":{},\"argc\":{}", di, body.arg_count);
        let (f, l) = self.line_of(body.span);
        let _ = write!(out, ",\"file\":{},\"line\":{}", jstr(&f), l);
        if let Some(m) = self.macro_name(tcx.def_span(owner)) {
            let _ = write!(out, ",\"mac\":{}", jstr(&m));
        }
        // locals
        let lt: Vec<String> =
            body.local_decls.iter().map(|ld| self.tyi(ld.ty).to_string()).collect();
        let _ = write!(out, ",\"locals\":[{}]", lt.join(","));
        // debug names
        let mut names = vec![];
        for vdi in body.var_debug_info.iter() {
            if let rustc_middle::mir::VarDebugInfoContents::Place(p) = &vdi.value {
                names.push(format!("[{},{}]", jstr(vdi.name.as_str()), self.place(body, p)));
            }
        }
        let _ = write!(out, ",\"names\":[{}]", names.join(","));
        out.push_str(",\"blocks\":[");
        let env = TypingEnv::post_analysis(tcx, owner);
        for (bi, bb) in body.basic_blocks.iter_enumerated() {
            if bi.as_usize() > 0 {
                out.push(',');
            }
            let _ = write!(out, "[{},[", if bb.is_cleanup { 1 } else { 0 });
            let mut first = true;
            for st in bb.statements.iter() {
                let s = match &st.kind {
                    StatementKind::Assign(b) => {
                        let (p, rv) = &**b;
                        Some(format!(
                            "[\"a\",{},{},{}]",
                            self.place(body, p),
                            self.rvalue(owner, body, rv),
                            self.line(st.source_info.span)
                        ))
                    }
                    StatementKind::SetDiscriminant { place, variant_index } => {
                        let pty = place.ty(&body.local_decls, tcx).ty;
                        let vn = match pty.kind() {
                            ty::Adt(adt, _) => adt.variant(*variant_index).name.as_str().to_string(),
                            _ => format!("{}", variant_index.as_usize()),
                        };
                        Some(format!(
                            "[\"sd\",{},{},{}]",
                            self.place(body, place),
                            jstr(&vn),
                            self.line(st.source_info.span)
                        ))
                    }
                    _ => None,
                };
                if let Some(s) = s {
                    if !first {
                        out.push(',');
                    }
                    first = false;
                    out.push_str(&s);
                }
            }
            out.push_str("],");
            let term = bb.terminator();
            let tl = self.line(term.source_info.span);
            let bbn = |b: &BasicBlock| b.as_usize();
            let ts = match &term.kind {
                TerminatorKind::Goto { target } => format!("[\"goto\",{}]", bbn(target)),
                TerminatorKind::SwitchInt { discr, targets } => {
                    let d = self.operand(owner, body, discr);
                    let arms: Vec<String> =
                        targets.iter().map(|(v, b)| format!("[\"{}\",{}]", v, bbn(&b))).collect();
                    let dty = discr.ty(&body.local_decls, tcx);
                    let ti = self.tyi(dty);
                    format!(
                        "[\"switch\",{},[{}],{},{},{}]",
                        d,
                        arms.join(","),
                        bbn(&targets.otherwise()),
                        ti,
                        tl
                    )
                }
                TerminatorKind::Return => format!("[\"ret\",{}]", tl),
                TerminatorKind::Unreachable => "[\"unreachable\"]".to_string(),
                TerminatorKind::UnwindResume => "[\"resume\"]".to_string(),
                TerminatorKind::UnwindTerminate(_) => "[\"abort\"]".to_string(),
                TerminatorKind::Drop { place, target, .. } => {
                    format!("[\"drop\",{},{},{}]", self.place(body, place), bbn(target), tl)
                }
                TerminatorKind::Assert { cond, expected, target, msg, .. } => {
                    let m = format!("{:?}", msg);
                    let m = m.split('(').next().unwrap_or("").to_string();
                    format!(
                        "[\"assert\",{},{},{},{},{}]",
                        self.operand(owner, body, cond),
                        if *expected { 1 } else { 0 },
                        bbn(target),
                        jstr(&m),
                        tl
                    )
                }
                TerminatorKind::Call { func, args, destination, target, fn_span, .. } => {
                    let mut o = String::from("[\"call\",{");
                    let fty = func.ty(&body.local_decls, tcx);
                    let mut have = false;
                    if let ty::FnDef(d, gargs) = fty.kind() {
                        have = true;
                        let fi = self.defi(*d);
                        let _ = write!(o, "\"f\":{}", fi);
                        // resolution
                        let mut rk = "unresolved";
                        let mut ri: Option<usize> = None;
                        if let Ok(Some(inst)) = Instance::try_resolve(tcx, env, *d, gargs) {
                            match inst.def {
                                InstanceKind::Item(rd) => {
                                    rk = "item";
                                    ri = Some(self.defi(rd));
                                }
                                InstanceKind::Virtual(rd, _) => {
                                    rk = "virtual";
                                    ri = Some(self.defi(rd));
                                }
                                InstanceKind::Intrinsic(rd) => {
                                    rk = "intrinsic";
                                    ri = Some(self.defi(rd));
                                }
                                InstanceKind::ClosureOnceShim { call_once: _, .. } => {
                                    rk = "closure_once";
                                    if let ty::Closure(cd, _) = gargs.type_at(0).kind() {
                                        ri = Some(self.defi(*cd));
                                    }
                                }
                                InstanceKind::FnPtrShim(..) => rk = "fnptr_shim",
                                InstanceKind::DropGlue(..) => rk = "drop_glue",
                                InstanceKind::CloneShim(..) => rk = "clone_shim",
                                InstanceKind::ReifyShim(rd, _) => {
                                    rk = "item";
                                    ri = Some(self.defi(rd));
                                }
                                InstanceKind::VTableShim(rd) => {
                                    rk = "item";
                                    ri = Some(self.defi(rd));
                                }
                                _ => rk = "shim",
                            }
                            // a direct closure call resolves to Item(closure def)
                        }
                        let _ = write!(o, ",\"rk\":{}", jstr(rk));
                        if let Some(ri) = ri {
                            let _ = write!(o, ",\"r\":{}", ri);
                        }
                        if gargs.len() > 0 {
                            let gs: Vec<String> = gargs
                                .iter()
                                .map(|a| jstr(&wntp!(format!("{}", a))))
                                .collect();
                            let _ = write!(o, ",\"ga\":[{}]", gs.join(","));
                            let cls = self.generic_closures(gargs);
                            if !cls.is_empty() {
                                let s: Vec<String> = cls.iter().map(|x| x.to_string()).collect();
                                let _ = write!(o, ",\"cls\":[{}]", s.join(","));
                            }
                        }
                    }
                    if !have {
                        let _ = write!(o, "\"fp\":{}", self.operand(owner, body, func));
                    }
                    let a: Vec<String> =
                        args.iter().map(|x| self.operand(owner, body, &x.node)).collect();
                    let _ = write!(o, ",\"args\":[{}]", a.join(","));
                    let _ = write!(o, ",\"dest\":{}", self.place(body, destination));
                    match target {
                        Some(t) => {
                            let _ = write!(o, ",\"t\":{}", bbn(t));
                        }
                        None => o.push_str(",\"t\":null"),
                    }
                    let _ = write!(o, ",\"line\":{}", self.line(*fn_span));
                    if let Some(m) = self.macro_name(term.source_info.span) {
                        let _ = write!(o, ",\"mac\":{}", jstr(&m));
                    }
                    o.push_str("}]");
                    o
                }
                TerminatorKind::TailCall { .. } => "[\"tailcall\"]".to_string(),
                TerminatorKind::Yield { resume, .. } => format!("[\"goto\",{}]", bbn(resume)),
                TerminatorKind::CoroutineDrop => "[\"ret\",0]".to_string(),
                TerminatorKind::FalseEdge { real_target, .. } => {
                    format!("[\"goto\",{}]", bbn(real_target))
                }
                TerminatorKind::FalseUnwind { real_target, .. } => {
                    format!("[\"goto\",{}]", bbn(real_target))
                }
                TerminatorKind::InlineAsm { .. } => "[\"asm\"]".to_string(),
            };
            out.push_str(&ts);
            out.push(']');
        }
        out.push_str("]}\n");
    }
}

struct Cb;

impl rustc_driver::Callbacks for Cb {
    fn after_analysis<'tcx>(
        &mut self,
        _c: &rustc_interface::interface::Compiler,
        tcx: TyCtxt<'tcx>,
    ) -> rustc_driver::Compilation {
        let outdir = match std::env::var("VLSFACTS_OUT") {
            Ok(d) => d,
            Err(_) => return rustc_driver::Compilation::Continue,
        };
        let crate_name = tcx.crate_name(LOCAL_CRATE).to_string();
        let mut cx = Cx {
            tcx,
            defs: vec![],
            def_ix: HashMap::new(),
            types: vec![],
            type_ix: HashMap::new(),
        };
        let mut out = String::new();
        let mut nbodies = 0usize;
        // bodies
        for ldid in tcx.mir_keys(()).iter() {
            let d = ldid.to_def_id();
            let kind = tcx.def_kind(d);
            if !matches!(kind, DefKind::Fn | DefKind::AssocFn | DefKind::Closure) {
                continue;
            }
            if !tcx.is_mir_available(d) {
                continue;
            }
            // coroutine bodies (async fn state machines) are dumped too; their kind is Closure
            cx.body(d, &mut out);
            nbodies += 1;
        }
        // crate items: impls, traits, adts, assoc consts
        let items = tcx.hir_crate_items(());
        for ldid in items.definitions() {
            let d = ldid.to_def_id();
            match tcx.def_kind(d) {
                DefKind::Impl { .. } => {
                    let self_ty = tcx.type_of(d).instantiate_identity().skip_norm_wip();
                    let di = cx.defi(d);
                    let mut o = format!(
                        "{{\"k\":\"impl\",\"d\":{},\"self\":{}",
                        di,
                        jstr(&cx.ty_str(self_ty))
                    );
                    if let ty::Adt(adt, _) = self_ty.kind() {
                        let ai = cx.defi(adt.did());
                        let _ = write!(o, ",\"self_adt\":{}", ai);
                    }
                    if let Some(tr) = tcx.impl_opt_trait_ref(d) {
                        let tr = tr.instantiate_identity().skip_norm_wip();
                        let ti = cx.defi(tr.def_id);
                        let _ = write!(
                            o,
                            ",\"trait\":{},\"trait_ref\":{}",
                            ti,
                            jstr(&wntp!(format!("{}", tr)))
                        );
                    }
                    let mut its = vec![];
                    for ai in tcx.associated_items(d).in_definition_order() {
                        let ii = cx.defi(ai.def_id);
                        let mut s = format!(
                            "{{\"d\":{},\"name\":{},\"kind\":{}",
                            ii,
                            jstr(ai.name().as_str()),
                            jstr(&format!("{:?}", tcx.def_kind(ai.def_id)))
                        );
                        if let Some(ti) = ai.trait_item_def_id() {
                            let tii = cx.defi(ti);
                            let _ = write!(s, ",\"trait_item\":{}", tii);
                        }
                        s.push('}');
                        its.push(s);
                    }
                    let _ = write!(o, ",\"items\":[{}]}}\n", its.join(","));
                    out.push_str(&o);
                }
                DefKind::Trait => {
                    let di = cx.defi(d);
                    let mut its = vec![];
                    for ai in tcx.associated_items(d).in_definition_order() {
                        let ii = cx.defi(ai.def_id);
                        let s = format!(
                            "{{\"d\":{},\"name\":{},\"kind\":{},\"default\":{}}}",
                            ii,
                            jstr(ai.name().as_str()),
                            jstr(&format!("{:?}", tcx.def_kind(ai.def_id))),
                            if ai.defaultness(tcx).has_value() { "true" } else { "false" }
                        );
                        its.push(s);
                    }
                    let _ = write!(
                        out,
                        "{{\"k\":\"trait\",\"d\":{},\"items\":[{}]}}\n",
                        di,
                        its.join(",")
                    );
                }
                DefKind::Struct | DefKind::Enum | DefKind::Union => {
                    let adt = tcx.adt_def(d);
                    let di = cx.defi(d);
                    let sm = tcx.sess.source_map();
                    let attr_strs = |did: DefId| -> Vec<String> {
                        let mut v = vec![];
                        for a in tcx.get_all_attrs(did) {
                            if let rustc_hir::Attribute::Unparsed(item) = a {
                                if let Ok(sn) = sm.span_to_snippet(item.span) {
                                    v.push(jstr(&sn));
                                }
                            }
                        }
                        v
                    };
                    let mut vs = vec![];
                    for v in adt.variants().iter() {
                        let mut fs = vec![];
                        for f in v.fields.iter() {
                            let fty = tcx.type_of(f.did).instantiate_identity().skip_norm_wip();
                            fs.push(format!(
                                "{{\"name\":{},\"ty\":{},\"attrs\":[{}],\"line\":{}}}",
                                jstr(f.name.as_str()),
                                jstr(&cx.ty_str(fty)),
                                attr_strs(f.did).join(","),
                                cx.line(tcx.def_span(f.did))
                            ));
                        }
                        vs.push(format!(
                            "{{\"name\":{},\"attrs\":[{}],\"fields\":[{}]}}",
                            jstr(v.name.as_str()),
                            attr_strs(v.def_id).join(","),
                            fs.join(",")
                        ));
                    }
                    let _ = write!(
                        out,
                        "{{\"k\":\"adt\",\"d\":{},\"adt_kind\":{},\"attrs\":[{}],\"variants\":[{}]}}\n",
                        di,
                        jstr(&format!("{:?}", tcx.def_kind(d))),
                        attr_strs(d).join(","),
                        vs.join(",")
                    );
                }
                DefKind::AssocConst { .. } | DefKind::Const { .. } => {
                    let t = tcx.type_of(d).instantiate_identity().skip_norm_wip();
                    if t.is_integral() || t.is_bool() {
                        if tcx.generics_of(d).requires_monomorphization(tcx) {
                            continue;
                        }
                        // trait-level declarations without a value are skipped
                        if let Some(ai) = tcx.opt_associated_item(d) {
                            if !ai.defaultness(tcx).has_value() {
                                continue;
                            }
                        }
                        if let Ok(val) = tcx.const_eval_poly(d) {
                            if let Some(si) = val.try_to_scalar_int() {
                                let bits = si.to_bits_unchecked();
                                let v: i128 = if t.is_signed() {
                                    si.size().sign_extend(bits) as i128
                                } else {
                                    bits as i128
                                };
                                let di = cx.defi(d);
                                let _ = write!(
                                    out,
                                    "{{\"k\":\"const\",\"d\":{},\"ty\":{},\"v\":\"{}\"}}\n",
                                    di,
                                    jstr(&cx.ty_str(t)),
                                    v
                                );
                            }
                        }
                    }
                }
                _ => {}
            }
        }
        // header (written first in the file)
        let mut head = String::new();
        let _ = write!(
            head,
            "{{\"k\":\"crate\",\"name\":{},\"bodies\":{},\"manifest_dir\":{},\"features\":{}}}\n",
            jstr(&crate_name),
            nbodies,
            jstr(&std::env::var("CARGO_MANIFEST_DIR").unwrap_or_default()),
            jstr(&std::env::var("VLSFACTS_FEATURES").unwrap_or_default())
        );
        let _ = write!(head, "{{\"k\":\"types\",\"v\":[");
        for (i, t) in cx.types.iter().enumerate() {
            if i > 0 {
                head.push(',');
            }
            head.push_str(&jstr(t));
        }
        head.push_str("]}\n");
        let _ = write!(head, "{{\"k\":\"defs\",\"v\":[{}]}}\n", cx.defs.join(","));
        head.push_str(&out);
        let kind = if tcx.crate_types().iter().any(|t| format!("{:?}", t).contains("Executable")) {
            "bin"
        } else {
            "lib"
        };
        let stable = format!("{:x}", tcx.stable_crate_id(LOCAL_CRATE).as_u64());
        let path = format!("{}/{}-{}-{}.jsonl", outdir, crate_name, kind, stable);
        let tmp = format!("{}.tmp{}", path, std::process::id());
        if std::fs::write(&tmp, head.as_bytes()).is_err() || std::fs::rename(&tmp, &path).is_err() {
            eprintln!("vlsfacts: cannot write {}", path);
            std::process::exit(3);
        }
        rustc_driver::Compilation::Continue
    }
}

fn main() {
    let mut args: Vec<String> = std::env::args().collect();
    // RUSTC_WRAPPER convention: argv[1] is the path of the real rustc; drop it.
    if args.len() > 1 && (args[1].ends_with("rustc") || args[1].contains("/rustc")) {
        args.remove(1);
    }
    let root = std::env::var("VLSFACTS_ROOT").unwrap_or_else(|_| "/repo".to_string());
    let mdir = std::env::var("CARGO_MANIFEST_DIR").unwrap_or_default();
    let in_scope = (mdir == root || mdir.starts_with(&format!("{}/", root)))
        && !args.iter().any(|a| a == "build_script_build")
        && std::env::var("VLSFACTS_OUT").is_ok()
        && !args.iter().any(|a| a == "--print" || a.starts_with("--print=") || a == "-vV");
    if in_scope {
        let mut cb = Cb;
        rustc_driver::run_compiler(&args, &mut cb);
    } else {
        struct Plain;
        impl rustc_driver::Callbacks for Plain {}
        let mut cb = Plain;
        rustc_driver::run_compiler(&args, &mut cb);
    }
}

"""C17 — externally stored state is authenticated against tampering, swapping and replay."""
from engine import rulelib as R
from engine import atoms
from engine.rulelib import fnview
from engine.cfg import render, strip_ref, peel, subexprs

CRATES = ["lightning_signer", "lightning_storage_server", "vls_frontend", "vlsd", "vls_util", "vls_proxy", "vls_persist"]
LS = "lightning_signer::persist::"
LSS = "lightning_storage_server::util::"

CLAIM = {
    "text": "Decides coverage, comparison shape and nonce provenance of the authentication code (both copies: vls-core "
            "persist and lightning-storage-server util): (R17.1) add_to_hmac feeds key bytes, the 8-byte big-endian "
            "version and the value, in that order, in both copies (sibling agreement); compute_shared_hmac feeds the "
            "secret, the nonce and every record of the list through add_to_hmac; compute_hmac covers key, version and "
            "value; remove_and_check_hmac refuses values shorter than a tag, splits the last 32 bytes as the tag, "
            "recomputes over the remaining value and returns Ok only on tag equality; (R17.2) freshness: "
            "ExternalPersistHelper::check_hmac returns exactly the result of a whole-value equality between the "
            "received tag and compute_shared_hmac(shared_secret, last_nonce, records) — no prefix/zip/length-blind "
            "comparison; last_nonce is written only by new_nonce from the entropy source, and the put-side tags use "
            "the distinct constants 0x01/0x02; (R17.3) injectivity of the MAC input: every variable-length input of a "
            "MAC engine must be length-framed or be the final input of the stream; the unframed key and value inputs "
            "of both add_to_hmac copies are reported (known findings); (R17.4) the reader of the externally stored state "
            "(every caller of ExternalPersist::get; today ExternalPersistWithHelper::init_state, an async state "
            "machine analysed as its coroutine body) sends the request only after new_nonce and can complete, or install "
            "fetched records, only through the true edge of check_hmac. The per-value checks inside the LSS client "
            "(`PrivClient::get`) are decided only through remove_and_check_hmac (R17.1); (R17.5) at start-up the fetched "
            "records reach the local store's own version/content comparison complete: the cloud-staged store's and "
            "the persister's put_batch_unlogged hand the whole batch, element for element, to the local put_batch "
            "(same rule as C16 R16.5); (R17.6) CloudKVVStore::is_in_sync answers true only through the whole-value "
            "equality of the fetched last-writer record (version and content) with the locally stored one. "
            "Cryptographic strength is not decided.",
    "note": "bitcoin_hashes HmacEngine semantics by name; values are not traced across await points",
    "technique": "static analysis: ordered-effect extraction (MAC input sequence) + sibling agreement + return-value provenance",
}


CLAIM["text"] += (" (R17.7) restore path, disk side: the batch that applies the fetched cloud state (put_batch_unlogged -> put_batch) refuses "
                  "the *whole* batch as soon as one record is stale or conflicts at its version - the mismatch flag is only ever "
                  "set, a later unchanged record cannot clear it - and commits / updates the version cache only without a "
                  "mismatch (same obligations as C16 R16.2).")

def run(ctx):
    ctx.explanation = CLAIM["text"]
    ctx.not_decided = "cryptographic strength; provenance of values across await points of the async read path"
    r171(ctx)
    r172(ctx)
    r173(ctx)
    r174(ctx)
    r175(ctx)
    r176(ctx)
    r177(ctx)


def rpo(fv):
    seen, out = set(), []
    stack = [(0, iter(fv.succ[0]))]
    seen.add(0)
    while stack:
        node, it = stack[-1]
        for v in it:
            if v not in seen:
                seen.add(v)
                stack.append((v, iter(fv.succ[v])))
                break
        else:
            out.append(node)
            stack.pop()
    return out[::-1]


def mac_inputs(ctx, b):
    """ordered list of (rendered data expression, type of the data before unsizing, line)"""
    fv = fnview(ctx, b, policy=False)
    nv = fv.named()
    out = []
    for bi in rpo(fv):
        t = b.term(bi)
        if t.kind != "call":
            continue
        c = t.call
        nm = (c.decl.name if c.decl else "") + "|" + (c.callee.name if c.callee else "")
        if nm.endswith("HashEngine::input") or "HashEngine>::input" in nm:
            e = nv.expr(c.args[1])
            # type before the unsizing coercion
            ty = ""
            a = c.args[1]
            if a.place is not None:
                l = a.place.local
                ty = b.ty(l)
                sd = fv.single_def(l)
                if sd is not None and sd[1] != "T" and sd[2].kind == "a" and sd[2].rv.op == "cast" and sd[2].rv.ops[0].place is not None:
                    ty = b.ty(sd[2].rv.ops[0].place.local)
            out.append((render(strip_ref(e)), ty, c.line))
    return out


def r171(ctx):
    ctx.rule("R17.1", "MAC coverage: key, version, value (per record), secret and nonce; tag check on stored values")
    p = ctx.prog
    seqs = {}
    for name, fn in (("core", LS + "add_to_hmac"), ("lss", LSS + "add_to_hmac")):
        b = p.fn(fn)
        ins = mac_inputs(ctx, b)
        seqs[name] = [x[0] for x in ins]
        ok = len(ins) == 3 and "key" in ins[0][0] and "as_bytes" in ins[0][0] and "to_be_bytes" in ins[1][0] and \
            "version" in ins[1][0] and ins[2][0] in ("value",)
        ctx.ob("R17.1", ok, f"{fn}/covers-key-version-value", f"{fn} feeds {seqs[name]} into the MAC", where=f"{b.file}:{b.line}", sample=seqs[name])
    norm = lambda xs: [x.replace("*", "").replace("lightning_signer::core::", "").replace("lightning_storage_server::", "")
                       .replace("core::", "").replace("std::", "").replace("<impl u64>", "<impl 64-bit>")
                       .replace("<impl i64>", "<impl 64-bit>") for x in xs]
    ctx.ob("R17.1", len(set(map(str, map(norm, seqs.values())))) == 1, "siblings/add_to_hmac",
           f"the two add_to_hmac copies feed different sequences: {seqs}", where="vls-core/src/persist/mod.rs", sample=seqs)
    for name, fn in (("core", LS + "compute_shared_hmac"), ("lss", LSS + "compute_shared_hmac")):
        b = p.fn(fn)
        fv = fnview(ctx, b, policy=False)
        nv = fv.named()
        ins = mac_inputs(ctx, b)
        ok = [x[0] for x in ins[:2]] == ["secret", "nonce"]
        ctx.ob("R17.1", ok, f"{fn}/covers-secret-nonce", f"{fn} feeds {[x[0] for x in ins]} before the records", where=f"{b.file}:{b.line}",
               sample=[x[0] for x in ins])
        loops = R.loops_over(fv, lambda s: "kvs" in s)
        ctx.ob("R17.1", len(loops) == 1, f"{fn}/iterates-records", f"{fn} does not iterate over all records", where=f"{b.file}:{b.line}")
        add = lambda n: n.endswith("::add_to_hmac")
        for h, c, be, ee in loops:
            ae = {(bi, c2.target) for bi, c2 in b.calls() if c2.callee and add(c2.callee.name) and c2.target is not None}
            ctx.ob("R17.1", bool(ae) and not R.iteration_possible(fv, h, be, ae), f"{fn}/every-record-covered",
                   f"{fn} can skip a record of the list when computing the tag", where=f"{b.file}:{c.line}",
                   sample="each iteration calls add_to_hmac")
        for bi, c2 in b.calls():
            if c2.callee and add(c2.callee.name):
                a = [render(fv.expr(x)) for x in c2.args[:3]]
                ok = "next(" in a[0] and "next(" in a[1] and "next(" in a[2] and a[0] != a[2]
                ctx.ob("R17.1", ok, f"{fn}/record-fields", f"add_to_hmac({[x[-40:] for x in a]})", where=f"{b.file}:{c2.line}", sample=[x[-30:] for x in a])
        # engine is keyed with the secret and finalised
        ke = [c2 for bi, c2 in b.calls() if c2.callee and c2.callee.name.endswith("HmacEngine::<T>::new")]
        ctx.ob("R17.1", len(ke) == 1 and "secret" in render(nv.expr(ke[0].args[0])), f"{fn}/keyed-with-secret", "HMAC engine not keyed with the secret",
               where=f"{b.file}:{b.line}")
    # compute_hmac and remove_and_check_hmac (LSS)
    b = p.fn(LSS + "compute_hmac")
    fv = fnview(ctx, b, policy=False)
    calls = [c for bi, c in b.calls() if c.callee and c.callee.name == LSS + "add_to_hmac"]
    ok = len(calls) == 1 and [render(peel(fv.expr(x))) for x in calls[0].args[:3]] == ["key", "version", "value"]
    ctx.ob("R17.1", ok, f"{b.name}/covers", "compute_hmac does not cover (key, version, value)", where=f"{b.file}:{b.line}", sample="add_to_hmac(key, version, value)")
    rb = p.fn(LSS + "remove_and_check_hmac")
    rv = fnview(ctx, rb, policy=False)
    rn = rv.named()
    R.named_scenario_refused(ctx, "R17.1", rb, ["len(value) < 32"], f"{rb.name}/too-short", "a value shorter than a tag is accepted", policy=False)
    R.mismatch_refused(ctx, "R17.1", rb, lambda a, c: "hmac" in a and "expected_hmac" in c or "compute_hmac" in a and "split_off" in c,
                       f"{rb.name}/tag", "stored value tag vs recomputed tag", policy=False)
    eh = None
    for l in range(len(rb.local_tys)):
        if rb.local_name(l) == "expected_hmac":
            e = rn.local_expr(l)
            eh = render(e[2]) if e[0] == "let" else render(e)
    ctx.ob("R17.1", eh is not None and "split_off(value, (len(value) - 32))" in eh.replace("std::vec::Vec::<T, A>::", ""),
           f"{rb.name}/tag-position", f"expected tag is `{eh}`", where=f"{rb.file}:{rb.line}", sample=eh)
    for bi, c in rb.calls():
        if c.callee and c.callee.name == LSS + "compute_hmac":
            a = [render(peel(rv.expr(x))) for x in c.args]
            ctx.ob("R17.1", a[:3] == ["secret", "key", "version"] and "value" in a[3], f"{rb.name}/recompute-args", f"compute_hmac({a})",
                   where=f"{rb.file}:{c.line}", sample=a)
    pg = p.fn(LSS + "process_value_from_get")
    pv = fnview(ctx, pg, policy=False)
    R.must_pass_guard(ctx, "R17.1", pg, R.success_blocks(pv), lambda n: n == LSS + "remove_and_check_hmac", "remove_and_check_hmac",
                      "Ok return of process_value_from_get", depth=0)
    for bi, c in pg.calls():
        if c.callee and c.callee.name == LSS + "remove_and_check_hmac":
            a = [render(peel(pv.expr(x))) for x in c.args]
            ctx.ob("R17.1", a == ["secret", "key", "value.version", "value.value"], f"{pg.name}/args", f"remove_and_check_hmac({a})",
                   where=f"{pg.file}:{c.line}", sample=a)


def r172(ctx):
    ctx.rule("R17.2", "freshness: check_hmac is a whole-value equality with the tag over the last nonce; nonce from entropy only")
    p = ctx.prog
    H = LS + "ExternalPersistHelper"
    b = p.fn(f"{H}::check_hmac")
    fv = fnview(ctx, b, policy=False)
    rs = fv.return_sites()
    ctx.ob("R17.2", len(rs) == 1, f"{b.name}/single-return", f"check_hmac has {len(rs)} return sites", where=f"{b.file}:{b.line}")
    for r in rs:
        e = None
        if "call" in r:
            e = fv._call_expr(r["call"], 0)
        elif "stmt" in r and r["stmt"].rv.ops:
            e = fv.expr(r["stmt"].rv.ops[0])
        e = strip_ref(e) if e else ("opaque", "?")
        ok = e[0] == "cmp" and e[1] == "=="
        if ok:
            l, rr = render(peel(e[2])), render(peel(e[3]))
            sides = {l, rr}
            want_tag = f"{LS}compute_shared_hmac(self.shared_secret, self.last_nonce, kvs)"
            ok = "received_hmac" in sides and want_tag in sides
        # and the comparison must be the PartialEq of the whole values (Vec<u8> vs [u8; 32]), i.e. a call, not a fold
        is_call = "call" in r and "cmp::PartialEq" in (r["call"].callee.name if r["call"].callee else "")
        ctx.ob("R17.2", ok and is_call, f"{b.name}/whole-value-equality",
               f"check_hmac returns `{render(e)[:200]}`: not the whole-value equality received_hmac == "
               f"compute_shared_hmac(shared_secret, last_nonce, records); a length-blind or partial comparison accepts "
               f"truncated or empty tags", where=f"{b.file}:{r['line']}", sample="received_hmac == compute_shared_hmac(secret, last_nonce, kvs)")
    R.who_may_write(ctx, "R17.2", "ExternalPersistHelper", "last_nonce", {f"{H}::new_nonce": "fresh nonce per request"}, floor=1,
                    borrows_allowed={})
    nb = p.fn(f"{H}::new_nonce")
    nv = fnview(ctx, nb, policy=False)
    for bb, bi, idx, o in R.field_writes(p, "ExternalPersistHelper", "last_nonce"):
        if bb is nb:
            e = render(nv.expr(o.rv.ops[0]))
            ctx.ob("R17.2", "EntropySource::get_secure_random_bytes(entropy_source)" in e, f"{nb.name}/from-entropy",
                   f"last_nonce is set to `{e[:100]}`", where=f"{nb.file}:{o.line}", sample="nonce <- entropy_source.get_secure_random_bytes()")
    for r in nv.return_sites():
        if "stmt" in r and r["stmt"].rv.ops:
            e = render(nv.expr(r["stmt"].rv.ops[0]))
            ctx.ob("R17.2", "get_secure_random_bytes" in e, f"{nb.name}/returns-same-nonce", f"new_nonce returns `{e[:80]}`", where=f"{nb.file}:{r['line']}")
    for m, tag in (("client_hmac", 1), ("server_hmac", 2)):
        mb = p.fn(f"{H}::{m}")
        mv = fnview(ctx, mb, policy=False)
        for bi, c in mb.calls():
            if c.callee and c.callee.name == LS + "compute_shared_hmac":
                a = [render(mv.expr(x)) for x in c.args]
                import re as _re
                mnew = _re.search(r"const ([\w:]+)", a[1])
                if mnew and R.is_new_const(mnew.group(1)):
                    # a constant introduced by the change: its value is not visible in the MIR of this function (array
                    # constants are not evaluated by the driver) - nothing to decide at this site
                    ctx.sample("R17.2", f"{mb.name}/domain-tag", f"{mb.file}:{c.line}", f"tag is the new constant {mnew.group(1)} (value not decided)")
                    continue
                ok = a[0].endswith("self.shared_secret") and a[2] == "kvs" and (f"0x0{tag}" in a[1] or f"[{tag}" in a[1] or str(tag) in a[1])
                ctx.ob("R17.2", ok, f"{mb.name}/domain-tag", f"{m}: compute_shared_hmac({[x[:50] for x in a]})", where=f"{mb.file}:{c.line}", sample=[x[:40] for x in a])
    # entropy implementation uses a CSPRNG fill
    sb = [x for x in p.bodies.values() if x.name.endswith("SimpleEntropy as lightning_signer::persist::EntropySource>::get_secure_random_bytes")
          or "SimpleEntropy" in x.name and x.name.endswith("::get_secure_random_bytes")]
    for x in sb:
        ok = any(c.callee and (c.callee.name.endswith("RngCore>::fill_bytes") or "fill_bytes" in c.callee.name) for bi, c in x.calls()) and \
            any(c.callee and "thread_rng" in c.callee.name for bi, c in x.calls())
        ctx.ob("R17.2", ok, f"{x.name}/csprng", "SimpleEntropy no longer fills the nonce from thread_rng", where=f"{x.file}:{x.line}", sample="thread_rng().fill_bytes")


def r173(ctx):
    ctx.rule("R17.3", "MAC input injectivity: every variable-length input is length-framed or final")
    p = ctx.prog
    for fn in (LS + "add_to_hmac", LSS + "add_to_hmac", LS + "compute_shared_hmac", LSS + "compute_shared_hmac"):
        b = p.fn(fn)
        ins = mac_inputs(ctx, b)
        texts = [x[0] for x in ins]
        for i, (txt, ty, line) in enumerate(ins):
            fixed = "; " in ty and "]" in ty       # &[u8; N]
            if fixed:
                ctx.ob("R17.3", True, f"{fn}/input/{i}", "", sample=f"{txt}: fixed width {ty}")
                continue
            framed = any("len(" in t and txt.split("(")[-1].rstrip(")") in t for t in texts)
            # secret and nonce: the HMAC key itself / a fixed 32-byte nonce or 1-byte domain tag passed as slices by callers
            if fn.endswith("compute_shared_hmac") and txt in ("secret", "nonce"):
                ctx.sample("R17.3", f"{fn}/input/{txt}", f"{b.file}:{line}",
                           "slice-typed but fixed by all callers (32-byte secret; 32-byte nonce or 1-byte domain tag): the "
                           "1-vs-32-byte nonce ambiguity is separated by the put/get protocol direction")
                continue
            name = "key" if "key" in txt else ("value" if "value" in txt else f"input{i}")
            ctx.ob("R17.3", framed, f"{fn}/unframed/{name}",
                   f"`{fn}` feeds the variable-length `{txt}` into the MAC without a length prefix and it is not the final "
                   f"input of the stream: bytes can be moved between adjacent fields/records without changing the tag "
                   f"(two different record sets authenticate under one tag)", where=f"{b.file}:{line}")


def r174(ctx):
    ctx.rule("R17.4", "the read of the externally stored state is accepted only after check_hmac succeeded under a fresh "
                      "nonce: every completion of the reader and every use of the fetched records passes the true edge of "
                      "check_hmac; the request is sent only after new_nonce")
    p = ctx.prog
    GET = "vls_frontend::external_persist::ExternalPersist::get"
    CHK = LS + "ExternalPersistHelper::check_hmac"
    readers = {}
    for b in p.bodies.values():
        for bi, c in b.calls():
            if (c.decl is not None and c.decl.name == GET) or (c.callee is not None and c.callee.name == GET):
                readers.setdefault(b.d.id, (b, []))[1].append((bi, c))
    ctx.floor("R17.4", "callers of ExternalPersist::get", len(readers), 1)
    for b, gets in readers.values():
        on = R.owner_name(p, b)
        fv = fnview(ctx, b, policy=False)
        chk = [(bi, c) for bi, c in b.calls() if c.callee is not None and c.callee.name == CHK]
        ok_e = set()
        for bi, c in chk:
            ok_e |= fv.result_edges(bi, c, "ok")
        ctx.ob("R17.4", bool(chk) and bool(ok_e), f"{on}/checks-mac", f"`{on}` reads external storage and never tests check_hmac",
               where=f"{b.file}:{gets[0][1].line}", sample=f"{len(chk)} check_hmac call(s), result tested")
        nonce = [bi for bi, c in b.calls() if c.callee is not None and c.callee.name == LS + "ExternalPersistHelper::new_nonce"]
        for gbi, gc in gets:
            ctx.ob("R17.4", bool(nonce) and gbi not in fv.reach(0, cut_nodes=set(nonce)), f"{on}/fresh-nonce",
                   f"`{on}` sends the read request on a path that did not draw a fresh nonce (new_nonce)", where=f"{b.file}:{gc.line}",
                   sample="get dominated by new_nonce")
            after = set()
            for t in b.term(gbi).targets[:1]:
                after |= fv.reach(t, cut_edges=ok_e)
            # completions (Poll::Ready / plain return of a non-async reader) and uses of the records without the MAC test
            done = []
            for bi in sorted(after):
                for st in b.stmts(bi):
                    if st.kind == "a" and st.place.local == 0 and st.rv.op == "agg" and isinstance(st.rv.a, tuple) \
                       and st.rv.a[0] == "adt" and st.rv.a[1].name.endswith("task::Poll") and str(st.rv.a[2]).endswith("Ready"):
                        done.append(st.line)
                if b.term(bi).kind == "ret" and not b.local_tys[0].startswith("std::task::Poll"):
                    done.append(b.term(bi).line)
            ctx.ob("R17.4", bool(ok_e) and not done, f"{on}/completes-only-authenticated",
                   f"`{on}` can complete (line {done[0] if done else 0}) after receiving a read response without check_hmac "
                   f"having succeeded: an unauthenticated (e.g. truncated or replayed) response is accepted",
                   where=f"{b.file}:{done[0] if done else gc.line}", sample="every completion after get passes check_hmac == true")
            uses = [c.line for bi, c in b.calls() if bi in after and c.callee is not None
                    and any(x in c.callee.name for x in ("BTreeMap::<K, V, A>::insert", "::extend", "State::insert", "::put"))]
            ctx.ob("R17.4", bool(ok_e) and not uses, f"{on}/uses-only-authenticated",
                   f"`{on}` stores fetched records (line {uses[0] if uses else 0}) before check_hmac succeeded",
                   where=f"{b.file}:{uses[0] if uses else gc.line}", sample="records are installed only after check_hmac == true")


def r175(ctx):
    from rules import C16
    C16.r165(ctx, rid="R17.5", fns=C16.UNLOGGED[1:])


def r176(ctx):
    ctx.rule("R17.6", "the fetched last-writer record is accepted as 'in sync' only if version and content both equal the local "
                      "record: CloudKVVStore::is_in_sync returns the whole-value equality with local.get(LAST_WRITER_KEY)")
    p = ctx.prog
    b = p.fn("vls_persist::kvv::cloud::CloudKVVStore::<L>::is_in_sync")
    ctx.touch(b)
    fv = fnview(ctx, b, policy=False)
    n = 0
    for r in fv.return_sites():
        if r["kind"] == "false":
            continue
        n += 1
        e = fv._call_expr(r["call"], 0) if "call" in r else (fv.expr(r["stmt"].rv.ops[0]) if r["stmt"].rv.ops else ("opaque", "?"))
        e = strip_ref(e)
        ok = e[0] == "cmp" and e[1] == "=="
        if ok:
            sides = [render(peel(e[2])), render(peel(e[3]))]
            whole_param = any(x == "version_value" for x in sides)
            local_get = any("KVVStore::get(self.local" in x and "LAST_WRITER_KEY" in x and "get_version" not in x for x in sides)
            ok = whole_param and local_get and "call" in r and "cmp::PartialEq" in (r["call"].callee.name if r["call"].callee else "")
        ctx.ob("R17.6", ok, f"{b.name}/whole-record-equality",
               f"is_in_sync answers `{render(e)[:160]}`: not the equality of the whole fetched record (version and content) with "
               "local.get(LAST_WRITER_KEY); a last-writer record with the same version and other content (another signer's, a "
               "flipped or truncated one) is accepted as in sync", where=f"{b.file}:{r['line']}", sample="version_value == local.get(LAST_WRITER_KEY)")
    ctx.floor("R17.6", "non-false returns of is_in_sync", n, 1)


def r177(ctx):
    """a replayed (older) record inside a fetched batch must refuse the batch even when unchanged records follow it: C16 R16.2"""
    from rules import C16 as _c16
    from engine import report as _report
    # backend agreement on batches that repeat a key (memory vs disk) is C16's business, not an authentication question
    _c16.r162(_report.renamed(ctx, {"R16.2": "R17.7"}, skip=lambda key: "validation-reads-prebatch" in key or key.startswith("memory/")))

"""C08 — on-chain spends lose at most a bounded fee and fund only validated channels."""
from engine import rulelib as R
from engine import atoms
from engine.rulelib import fnview
from engine.cfg import render, strip_ref, peel, subexprs

CRATES = None
LS = "lightning_signer::"
SVT = LS + "policy::simple_validator::SimpleValidator"
VAL = LS + "policy::validator::Validator"
SV = f"<{SVT} as {VAL}>"
NODE = LS + "node::Node"

CLAIM = {
    "text": "Decides the structure of the output classification on all MIR paths of validate_onchain_tx: (R8.1) every "
            "update of beneficial_sum is a checked_add of the current output's value (or channel value minus push), is "
            "reachable in an iteration only through can_spend==true, allowlist_contains==true or the channel branch, "
            "and no path through one iteration performs two updates (an output is credited at most once); an iteration "
            "completes only by crediting the output or recording it in `unknowns`; non-empty unknowns is a refusal; the "
            "channel branch credits only after value equality, funding-script equality, next_holder_commit_num == 1, "
            "is_outbound and push == 0; any funded channel with a malleable transaction, a version other than 2 or an "
            "oversize transaction is refused; validate_beneficial_value uses checked_sub and refuses a fee rate above "
            "max unless the dev flag is set, and receives (sum of all input values, beneficial_sum, weight); (R8.2) "
            "Node::check_onchain_tx returns Ok only after Ok(validate_onchain_tx) and fee_velocity insert == true "
            "(with C12); (R8.3) unchecked_sign_onchain_tx is called only after a successful check_onchain_tx / approved "
            "handle_proposed_onchain, which turns every error kind other than UnknownDestinations into Err; (R8.4) "
            "Wallet::can_spend refuses an empty path and compares with the three derived script types; (R8.5) the feerate "
            "compared with max_feerate_per_kw was not narrowed by a truncating integer cast; (R8.6) the segwit flags the "
            "funding clause consumes are one per input and `true` only for an output proven by the streamed previous "
            "transaction (StreamedPSBT decoder, same obligations as C19 R19.4); (R8.7) the fee velocity control restored "
            "from the store is the one installed in the rebuilt node (same obligations as C12 R12.1); (R8.8) the witness "
            "allowance is added to weight_lower_bound only for inputs of a signable spend type; (R8.9) the fee velocity "
            "limit test itself: VelocityControl::insert refuses whenever window sum + amount > limit (for every limit value) "
            "before it counts, and a counted fee is persisted before success is returned (same obligations as C12 "
            "R12.3/R12.4). (R8.10) refusals are real refusals under every filter configuration: PolicyFilter::filter lets the first matching rule decide with that rule's own action and defaults to Error, and a policy error becomes Ok only when the filter says Warn (same obligations as C05 R5.4). Does not decide "
            "the arithmetic inequality over arbitrary amounts.",
    "note": "non-permissive policy; is_tx_non_malleable / estimate_feerate_per_kw / Address::* trusted by name",
    "technique": "static analysis: loop-iteration path rules (at-most-once credit, credit-or-unknown) + must-pass-through + guard scenarios",
}


CLAIM["text"] += (" (R8.11) `whose initial holder commitment was already counter-signed`: the funding clause tests "
                  "next_holder_commit_num == 1; that counter leaves 0 only through a staged commitment, and a commitment is staged "
                  "only after the validator and the counterparty signature check on the recomposed transaction succeeded (same "
                  "obligations as C01 R1.6 / R1.7 / R1.8).")

def run(ctx):
    ctx.explanation = CLAIM["text"]
    ctx.not_decided = "the beneficial-value inequality over arbitrary amounts (value ranges)"
    r81(ctx)
    r82(ctx)
    r83(ctx)
    r84(ctx)
    r85(ctx)
    r86(ctx)
    r87(ctx)
    r88(ctx)
    r89(ctx)
    r811(ctx)
    r_filter(ctx)


def _updates(fv, b, var):
    """blocks assigning the named accumulator, with the rendered right-hand side"""
    out = []
    for bi in sorted(fv.live_blocks()):
        for s in b.stmts(bi):
            if s.kind == "a" and s.place.is_local() and b.local_name(s.place.local) == var and s.rv.ops:
                out.append((bi, s.line, render(fv.expr(s.rv.ops[0])), s))
    return out


def r81(ctx):
    ctx.rule("R8.1", "validate_onchain_tx: output classification, at-most-once credit, unknown destinations, channel "
                     "funding guards, malleability/version/size, beneficial value")
    p = ctx.prog
    b = p.fn(f"{SV}::validate_onchain_tx")
    fv = fnview(ctx, b)
    nv = fv.named()
    succ = R.success_blocks(fv)
    ups = [u for u in _updates(nv, b, "beneficial_sum") if u[2] != "0"]
    ctx.floor("R8.1", "beneficial_sum update sites", len(ups), 4)
    loops = R.loops_over(fv, lambda s: "tx.output" in s or "len(" in s and "output" in s)
    ctx.ob("R8.1", len(loops) >= 1, f"{b.name}/output-loop", "loop over tx.output not found", where=f"{b.file}:{b.line}")
    if not loops:
        return
    h, hc, body_edges, exit_edges = loops[0]
    # (b) what is added
    for bi, ln, rhs, s in ups:
        ok = rhs.startswith("(beneficial_sum + ") and ("output.value" in rhs or "our_value" in rhs or ".value" in rhs)
        ctx.ob("R8.1", ok, f"{b.name}/credit-operand/{'channel' if 'our_value' in rhs else 'output'}",
               f"beneficial_sum is updated to `{rhs[:140]}` (expected checked beneficial_sum + this output's value)",
               where=f"{b.file}:{ln}", sample=rhs[:100])
    chan_ups = [u for u in ups if "our_value" in u[2]]
    ctx.ob("R8.1", len(chan_ups) == 1, f"{b.name}/channel-credit-site", f"{len(chan_ups)} channel credit sites (expected 1)",
           where=f"{b.file}:{b.line}")
    # (a) at most one credit per iteration
    for bi, ln, rhs, s in ups:
        again = []
        ccut = R.consistent_cut(fv, bi, stop_nodes={h})
        for v in fv.succ[bi]:
            r = fv.reach(v, cut_nodes={h}, cut_edges=ccut)
            again += [u for u in ups if u[0] in r and u[0] != bi]
        ctx.ob("R8.1", not again, f"{b.name}/credit-once/L{ups.index((bi, ln, rhs, s))}",
               f"after crediting an output (line {ln}) the same iteration can credit it again "
               f"(line {again[0][1] if again else '?'}): an output that matches two classes is counted twice and the "
               f"non-beneficial value is under-stated", where=f"{b.file}:{ln}", sample="no second update reachable before the next iteration")
    # (c) credit only through a granting edge
    grant = set()
    n_can = n_allow = 0
    for bi, c in b.calls():
        nm = (c.decl.name if c.decl else "") or (c.callee.name if c.callee else "")
        if nm.endswith("Wallet::can_spend"):
            te, fe = R.payload_bool_edges(fv, bi, c)
            grant |= te
            n_can += 1
            a = [render(peel(nv.expr(x))) for x in c.args[1:]]
            ctx.ob("R8.1", "opath" in a[0] and "script_pubkey" in a[1], f"{b.name}/can_spend-args", f"can_spend({a})",
                   where=f"{b.file}:{c.line}", sample=a)
        if nm.endswith("Wallet::allowlist_contains"):
            grant |= fv.result_edges(bi, c, "ok")
            n_allow += 1
    chan_some = atoms.scenario_cut(nv, [atoms.parse_atom("channel_slot is None")])   # edges infeasible when None => the Some edges
    grant |= chan_some
    ctx.ob("R8.1", n_can >= 1 and n_allow >= 2 and bool(chan_some), f"{b.name}/classifiers",
           f"classification calls: can_spend x{n_can}, allowlist_contains x{n_allow}, channel branch {'found' if chan_some else 'missing'}",
           where=f"{b.file}:{b.line}", sample={"can_spend": n_can, "allowlist_contains": n_allow})
    for bi, ln, rhs, s in ups:
        reach = set()
        for (u, v) in body_edges:
            reach |= fv.reach(v, cut_edges=grant, cut_nodes={h})
        ctx.ob("R8.1", bi not in reach, f"{b.name}/credit-needs-class/L{ups.index((bi, ln, rhs, s))}",
               f"an output can be credited to beneficial_sum (line {ln}) without being wallet-spendable, allowlisted or a "
               f"channel funding output", where=f"{b.file}:{ln}", sample="credit unreachable without a granting edge")
    # (d) iteration completes only by credit or by recording an unknown
    pushes = [bi for bi, c in b.calls() if c.callee and c.callee.name.endswith("::push") and c.args and
              render(strip_ref(nv.expr(c.args[0]))) == "unknowns"]
    ctx.ob("R8.1", len(pushes) >= 1, f"{b.name}/unknowns-push", "unknown outputs are no longer recorded", where=f"{b.file}:{b.line}")
    cutn = {u[0] for u in ups} | set(pushes)
    completes = False
    for (u, v) in body_edges:
        if v in cutn:
            continue
        # path-sensitive in the named boolean `spendable`: `if spendable {..} if !spendable {..}` chains
        r = R.reach_consistent(fv, [v], cut_nodes=cutn | {h})
        if any(h in fv.succ[x] and (x, h) not in fv.removed for x in r):
            completes = True
    ctx.ob("R8.1", not completes, f"{b.name}/credit-or-unknown",
           "an output can be passed over without being credited or reported as an unknown destination",
           where=f"{b.file}:{hc.line}", sample="every completed iteration credits the output or pushes it to unknowns")
    R.named_scenario_refused(ctx, "R8.1", b, ["len(unknowns) > 0"], f"{b.name}/unknowns-refused",
                             "a transaction with unknown destinations passes the check")
    # (e) channel branch guards (sinks: the channel credit)
    csink = [(u[0], u[1]) for u in chan_ups]
    R.named_scenario_refused(ctx, "R8.1", b, ["EnforcementState.next_holder_commit_num != 1"], f"{b.name}/channel/initial-countersigned",
                             "a channel is funded although its initial holder commitment was not counter-signed "
                             "(next_holder_commit_num != 1)", sinks=csink)
    R.named_scenario_refused(ctx, "R8.1", b, ["!ChannelSetup.is_outbound"], f"{b.name}/channel/outbound-only",
                             "an inbound channel can be funded", sinks=csink)
    R.named_scenario_refused(ctx, "R8.1", b, ["push_val_sat > 0"], f"{b.name}/channel/no-push",
                             "a channel with a push value can be funded", sinks=csink)
    R.mismatch_refused(ctx, "R8.1", b, lambda a, c: "to_sat(" in a and "value" in a and c.endswith("setup.channel_value_sat"),
                       f"{b.name}/channel/value", "funding output value vs channel value", sinks=csink)
    R.mismatch_refused(ctx, "R8.1", b, lambda a, c: a.endswith("script_pubkey") and "p2wsh" in c and "make_funding_redeemscript" in c,
                       f"{b.name}/channel/script", "funding output script vs the channel's 2-of-2 script", sinks=csink)
    pv = _named(nv, "push_val_sat")
    ctx.ob("R8.1", pv is not None and render(pv).replace("chan.", "").endswith("setup.push_value_msat / 1000)"), f"{b.name}/channel/push-def",
           f"push_val_sat is `{render(pv)[:80] if pv else '?'}`", where=f"{b.file}:{b.line}")
    # (f) malleability
    any_false = set()
    nm_true = set()
    for bi, c in b.calls():
        nm = c.callee.name if c.callee else ""
        if nm.endswith("Iterator>::any") or nm.endswith("::any"):
            if "channels" in render(nv.expr(c.args[0])):
                any_false |= fv.result_edges(bi, c, "err")
        # the same test spelled `channels.iter().all(|c| c.is_none())`: true means "funds no channel"
        if (nm.endswith("Iterator>::all") or nm.endswith("::all")) and "channels" in render(nv.expr(c.args[0])):
            if c.cls and all(R.closure_calls(p, cd, lambda n: n.endswith("Option::<T>::is_none")) for cd in c.cls):
                any_false |= fv.result_edges(bi, c, "ok")
        if nm.endswith("is_tx_non_malleable"):
            nm_true |= fv.result_edges(bi, c, "ok")
        # the same test written in place: `segwit_flags.iter().all(|sf| *sf)` is true
        if (nm.endswith("Iterator>::all") or nm.endswith("::all")) and "segwit_flags" in render(nv.expr(c.args[0])):
            nm_true |= fv.result_edges(bi, c, "ok")
    ok = bool(any_false) and bool(nm_true) and all(fv.must_pass(sb, any_false | nm_true) for sb, _ in succ)
    ctx.ob("R8.1", ok, f"{b.name}/non-malleable", "a funding transaction with a non-segwit input can pass when it funds a channel",
           where=f"{b.file}:{b.line}", sample="Ok dominated by (no channel funded) or is_tx_non_malleable")
    # (g) version, size
    R.mismatch_refused(ctx, "R8.1", b, lambda a, c: a.endswith("tx.version") and "TWO" in c, f"{b.name}/version", "tx.version vs 2")
    R.named_scenario_refused(ctx, "R8.1", b, [f"`bitcoin::Transaction::base_size(tx)` > {_const(ctx, 'MAX_ONCHAIN_TX_SIZE')}"], f"{b.name}/max-size",
                             "an oversize transaction passes")
    # (h) beneficial value
    R.must_pass_guard(ctx, "R8.1", b, succ, lambda n: n == f"{SVT}::validate_beneficial_value", "validate_beneficial_value",
                      "Ok return", depth=0)
    for bi, ln, c in R.call_blocks(fv, lambda n: n == f"{SVT}::validate_beneficial_value"):
        a = [render(peel(nv.expr(x))) for x in c.args[1:]]
        ctx.ob("R8.1", a == ["sum_inputs", "beneficial_sum", "weight_lower_bound"], f"{b.name}/beneficial-args",
               f"validate_beneficial_value({a})", where=f"{b.file}:{ln}", sample=a)
    si = [u for u in _updates(nv, b, "sum_inputs") if u[2] != "0"]
    ok = len(si) == 1 and si[0][2].startswith("(sum_inputs + ")
    lv = R.loops_over(fv, lambda s: "values_sat" in s)
    ctx.ob("R8.1", ok and len(lv) == 1, f"{b.name}/sum-inputs", f"sum_inputs updates {[u[2] for u in si]}, loops over values_sat: {len(lv)}",
           where=f"{b.file}:{b.line}", sample=[u[2][:60] for u in si])
    vb = p.fn(f"{SVT}::validate_beneficial_value")
    R.named_scenario_refused(ctx, "R8.1", vb, ["feerate_perkw > SimplePolicy.max_feerate_per_kw",
                                               "!PolicyDevFlags.disable_beneficial_balance_checks"],
                             f"{vb.name}/above-max", "non-beneficial value above the max fee rate passes without the dev flag")
    vbn = fnview(ctx, vb).named()
    nb = _named(vbn, "non_beneficial")
    r = render(nb).replace(" ", "") if nb else "?"
    ctx.ob("R8.1", r in ("(sum_our_inputs-sum_our_outputs)?", "(sum_our_inputs-sum_our_outputs)"), f"{vb.name}/difference",
           f"non_beneficial is `{r}`", where=f"{vb.file}:{vb.line}", sample=r)
    fr = _named(vbn, "feerate_perkw")
    ctx.ob("R8.1", fr is not None and "estimate_feerate_per_kw(non_beneficial" in render(fr), f"{vb.name}/feerate",
           f"feerate is `{render(fr)[:80] if fr else '?'}`", where=f"{vb.file}:{vb.line}")
    for r_ in fnview(ctx, vb).return_sites():
        if r_["kind"] == "ok" and "stmt" in r_:
            v = render(peel(vbn.expr(r_["stmt"].rv.ops[0])))
            ctx.ob("R8.1", v in ("non_beneficial", render(nb)), f"{vb.name}/returns-non-beneficial", f"returns `{v}`", where=f"{vb.file}:{r_['line']}")


def _const(ctx, short):
    for k, (v, ty) in ctx.prog.consts.items():
        if ctx.prog.defs[k].name.endswith("::" + short):
            return v
    raise R.Broken(f"anchor missing: const {short}")


def _named(fv, name):
    b = fv.b
    for l in range(len(b.local_tys)):
        if b.local_name(l) == name:
            e = fv.local_expr(l)
            return e[2] if e[0] == "let" else e
    return None


def r82(ctx):
    ctx.rule("R8.2", "Node::check_onchain_tx: Ok only after Ok(validate_onchain_tx) and a successful fee-velocity insert of "
                     "the reported non-beneficial value")
    p = ctx.prog
    b = p.fn(f"{NODE}::check_onchain_tx")
    fv = fnview(ctx, b)
    succ = R.success_blocks(fv)
    R.must_pass_guard(ctx, "R8.2", b, succ, lambda n: n == f"{VAL}::validate_onchain_tx", "Validator::validate_onchain_tx",
                      "Ok return of check_onchain_tx", depth=0)
    te = set()
    for bi, ln, c in R.call_blocks(fv, lambda n: n == LS + "util::velocity::VelocityControl::insert"):
        te |= fv.result_edges(bi, c, "ok")
    for sb, ln in succ:
        ctx.ob("R8.2", fv.must_pass(sb, te) and bool(te), f"{b.name}/ok-needs-velocity",
               "check_onchain_tx can return Ok although the fee velocity limit refused the amount", where=f"{b.file}:{ln}",
               sample="Ok dominated by fee_velocity_control.insert == true")
    for bi, ln, c in R.call_blocks(fv, lambda n: n == f"{VAL}::validate_onchain_tx"):
        a = [render(peel(fv.expr(x))) for x in c.args[1:]]
        ok = a[0] == "self" and a[2] == "tx" and a[3] == "segwit_flags" and a[5] == "opaths"
        ctx.ob("R8.2", ok, f"{b.name}/validator-args", f"validate_onchain_tx({[x[:40] for x in a]})", where=f"{b.file}:{ln}", sample=[x[:40] for x in a])


def r83(ctx):
    ctx.rule("R8.3", "unchecked_sign_onchain_tx only after a successful check; handle_proposed_onchain maps other error "
                     "kinds to Err")
    p = ctx.prog
    target = lambda n: n == f"{NODE}::unchecked_sign_onchain_tx"
    allowed = {
        "vls_protocol_signer::handler::RootHandler::sign_withdrawal": (lambda n: n.endswith("Approve::handle_proposed_onchain"), "approved"),
        f"{NODE}::check_and_sign_onchain_tx": (lambda n: n == f"{NODE}::check_onchain_tx", "ok"),
        "<vlsd::recovery::direct::DirectRecoveryKeys as vlsd::recovery::RecoveryKeys>::sign_onchain_tx":
            (lambda n: n == f"{NODE}::check_onchain_tx", "ok"),
    }
    sites = [s for s in R.call_sites(p, target) if not R.is_test_util(R.owner_name(p, s[0])) or
             R.owner_name(p, s[0]) == f"{NODE}::check_and_sign_onchain_tx"]
    ctx.floor("R8.3", "unchecked_sign_onchain_tx call sites", len(sites), 1)
    for b, bi, c in sites:
        on = R.owner_name(p, b)
        if on not in allowed:
            ctx.ob("R8.3", False, f"{on}/calls/unchecked_sign_onchain_tx",
                   f"`{on}` signs an on-chain transaction without being a listed checked caller", where=f"{b.file}:{c.line}")
            continue
        pred, mode = allowed[on]
        fv = fnview(ctx, b)
        edges = set()
        for bj, c2 in b.calls():
            n1 = c2.callee.name if c2.callee else ""
            n2 = c2.decl.name if c2.decl else ""
            if pred(n1) or pred(n2):
                if mode == "approved":
                    te, fe = R.payload_bool_edges(fv, bj, c2)
                    edges |= te
                else:
                    edges |= fv.result_edges(bj, c2, "ok")
        ctx.ob("R8.3", bool(edges) and fv.must_pass(bi, edges), f"{on}/sign-after-check",
               f"`{on}` can reach unchecked_sign_onchain_tx without a successful on-chain check / approval",
               where=f"{b.file}:{c.line}", sample="sign dominated by the successful check")
    # handle_proposed_onchain (default method): Ok(true) only after Ok(check) or approve_onchain == true on UnknownDestinations
    hb = p.fn("vls_protocol_signer::approver::Approve::handle_proposed_onchain")
    hv = fnview(ctx, hb)
    chk = set()
    for bi, c in hb.calls():
        if c.callee and c.callee.name == f"{NODE}::check_onchain_tx":
            chk |= hv.result_edges(bi, c, "ok")
    appr = set()
    for bi, c in hb.calls():
        nm = (c.decl.name if c.decl else "") + (c.callee.name if c.callee else "")
        if nm.endswith("Approve::approve_onchain"):
            appr |= hv.result_edges(bi, c, "ok")
    for r in hv.return_sites():
        if r["kind"] != "ok" or "stmt" not in r:
            continue
        val = render(hv.expr(r["stmt"].rv.ops[0]))
        if val == "true":
            ctx.ob("R8.3", hv.must_pass(R.site_block(r), chk | appr) and bool(chk), f"{hb.name}/true-needs-check-or-approval",
                   "handle_proposed_onchain can approve without a passed check or an explicit approval", where=f"{hb.file}:{r['line']}",
                   sample="Ok(true) dominated by Ok(check_onchain_tx) or approve_onchain == true")
    # approval only for the UnknownDestinations kind
    acalls = [(bi, c) for bi, c in hb.calls() if ((c.decl.name if c.decl else "") + (c.callee.name if c.callee else "")).endswith("Approve::approve_onchain")]
    kind_cut = atoms.scenario_cut(hv.named(), [atoms.parse_atom("ve.kind is not #5")]) if False else set()
    for bi, c in acalls:
        # the approval call is reachable only through the UnknownDestinations arm of the match on ve.kind
        sw = None
        for sb in sorted(hv.live_blocks()):
            t = hb.term(sb)
            if t.kind == "switch" and t.discr.place is not None:
                e = hv.expr(t.discr)
                if e[0] == "discr" and "kind" in render(e[1]):
                    sw = (sb, t)
        ok = False
        if sw is not None:
            sb, t = sw
            adt = p.adt(LS + "policy::error::ValidationErrorKind")
            names = [v["name"] for v in adt["variants"]]
            arms = [(tg, names[v]) for v, tg in t.arms]
            unk = {(sb, tg) for tg, n in arms if n == "UnknownDestinations"}
            ok = bool(unk) and hv.must_pass(bi, unk)
        ctx.ob("R8.3", ok, f"{hb.name}/approval-only-for-unknown-destinations",
               "explicit approval can override a validation error other than UnknownDestinations", where=f"{hb.file}:{c.line}",
               sample="approve_onchain dominated by the UnknownDestinations arm")


def r84(ctx):
    ctx.rule("R8.4", "Wallet::can_spend (Node): empty path is false; true only if the script equals one of the three "
                     "derived address scripts")
    p = ctx.prog
    b = p.fn(f"<{NODE} as {LS}wallet::Wallet>::can_spend")
    fv = fnview(ctx, b)
    nv = fv.named()
    # empty path => Ok(false)
    assum = [atoms.parse_atom("len(child_path) == 0")]
    cut = atoms.scenario_cut(nv, assum)
    live = fv.reach(0, cut_edges=cut)
    vals = []
    for r in fv.return_sites():
        if R.site_block(r) in live and r["kind"] == "ok" and "stmt" in r:
            vals.append(render(fv.expr(r["stmt"].rv.ops[0])))
    ctx.ob("R8.4", bool(cut) and vals == ["false"], f"{b.name}/empty-path", f"with an empty path can_spend returns {vals}",
           where=f"{b.file}:{b.line}", sample=vals)
    sites = R.comparison_sites(fv, lambda a, c: "script_pubkey" in a and "Address::script_pubkey(" in c)
    kinds = set()
    for bi, c, is_ne, r0, r1 in sites:
        for k in ("p2wpkh", "p2shwpkh", "p2tr"):
            if f"Address::{k}(" in r0 + r1:
                kinds.add(k)
    ctx.ob("R8.4", kinds == {"p2wpkh", "p2shwpkh", "p2tr"} and len(sites) == 3, f"{b.name}/script-types",
           f"can_spend compares with {sorted(kinds)} ({len(sites)} comparisons)", where=f"{b.file}:{b.line}", sample=sorted(kinds))
    # the key is derived from the given path
    for bi, c, is_ne, r0, r1 in sites:
        ctx.ob("R8.4", "get_wallet_pubkey(self, child_path)" in r0 + r1, f"{b.name}/key-from-path/{c.line}",
               f"comparison operand `{(r0 + ' | ' + r1)[:160]}` does not derive from get_wallet_pubkey(child_path)",
               where=f"{b.file}:{c.line}")
    # Ok(true) requires one comparison to be equal
    eq = set()
    for bi, c, is_ne, r0, r1 in sites:
        eq |= fv.result_edges(bi, c, "err" if is_ne else "ok")
    for r in fv.return_sites():
        if r["kind"] == "ok" and "stmt" in r:
            v = render(fv.expr(r["stmt"].rv.ops[0]))
            if v == "true":
                ctx.ob("R8.4", fv.must_pass(R.site_block(r), eq), f"{b.name}/true-needs-match", "can_spend returns true without a script match",
                       where=f"{b.file}:{r['line']}", sample="Ok(true) dominated by a script equality")


def r85(ctx):
    ctx.rule("R8.5", "the fee-rate bound of an on-chain spend is compared on an untruncated value (no narrowing integer cast "
                     "between the non-beneficial value and the comparison with max_feerate_per_kw)")
    p = ctx.prog
    n = 0
    for fn in (f"{SVT}::validate_beneficial_value",):
        b = p.fn(fn)
        n += R.bound_comparisons_untruncated(ctx, "R8.5", b, lambda s: "SimplePolicy." in s or "policy." in s, b.name)
    ctx.floor("R8.5", "comparisons with max_feerate_per_kw in validate_beneficial_value", n, 1)


def r86(ctx):
    """the per-input segwit flags that the funding clause ("only if all inputs are segwit") consumes are computed by the
    StreamedPSBT decoder: one flag per input, `true` only for an output *proven* by the streamed previous transaction
    (same obligations as C19 R19.4, evaluated here because the C08 clause depends on them)"""
    from rules import C19 as _c19
    _c19.r194(ctx, rid="R8.6")


def r87(ctx):
    """"cumulative fees stay within the fee velocity limit" across restarts: the fee velocity control that is restored from
    the store is the one installed in the rebuilt node (same obligations as C12 R12.1, evaluated here because the C08
    clause depends on them)"""
    from rules import C12 as _c12
    _c12.r121(ctx, rid="R8.7")


def r89(ctx):
    """"cumulative fees stay within the fee velocity limit": the limit test itself (VelocityControl::insert refuses every
    amount that would push the window sum above the limit - for every limit value, also 0 - and only then counts it;
    same obligations as C12 R12.3) and the durability of a counted fee (C12 R12.4)"""
    from rules import C12 as _c12
    _c12.r123(ctx, rid="R8.9")
    _c12.r124(ctx, rid="R8.9")


def r88(ctx):
    ctx.rule("R8.8", "the weight used for the fee-rate bound is a lower bound: the witness allowance is added to "
                     "weight_lower_bound only for inputs the signer can sign (spend type != Invalid); crediting weight to a "
                     "foreign input of unknown type lets a larger fee pass max_feerate_per_kw")
    p = ctx.prog
    b = p.fn(f"{NODE}::check_onchain_tx")
    fv = fnview(ctx, b)
    incs = []
    for bi in sorted(fv.live_blocks()):
        for st in b.stmts(bi):
            if st.kind == "a" and st.place.is_local() and b.local_name(st.place.local) == "weight_lower_bound" and st.rv.ops:
                e = render(fv.expr(st.rv.ops[0]))
                if e.startswith("(weight_lower_bound + ") and e != "(weight_lower_bound + 0)":
                    incs.append((bi, st.line, e))
    ctx.floor("R8.8", "witness allowance added to weight_lower_bound", len(incs), 1)
    sites = R.eq_sites(fv, lambda a, c_: "SpendType::from_script_pubkey(" in a and c_.endswith("SpendType::Invalid"))
    ctx.ob("R8.8", len(sites) >= 1, f"{b.name}/spend-type-tested",
           "check_onchain_tx no longer tests the input's spend type before crediting the witness allowance: inputs of unknown type "
           "inflate the weight and a fee above max_feerate_per_kw passes", where=f"{b.file}:{incs[0][1]}", sample="spend_type == Invalid tested")
    loops = R.loops_over(fv, lambda x: "uniclosekeys" in x)
    hdr = {h for h, _, _, _ in loops}
    for bi_, line, eqe, dife, r0, r1 in sites:
        bad = [ln for (ib, ln, e) in incs if any(ib in fv.reach(v, cut_nodes=hdr) for (_, v) in eqe)]
        ctx.ob("R8.8", bool(eqe) and not bad, f"{b.name}/invalid-input-no-allowance",
               f"an input of spend type Invalid is credited the witness allowance (line {bad[0] if bad else 0})", where=f"{b.file}:{line}",
               sample="Invalid => + 0")
    # every allowance increment is behind that test (the != edge)
    de = set()
    for s_ in sites:
        de |= s_[3]
    for ib, ln, e in incs:
        ctx.ob("R8.8", bool(de) and fv.must_pass(ib, de), f"{b.name}/allowance-needs-signable",
               f"the witness allowance `{e[:80]}` is added on a path that did not establish spend type != Invalid", where=f"{b.file}:{ln}",
               sample="allowance dominated by spend_type != Invalid")


def r_filter(ctx):
    """every guard of this property refuses through policy_err!; which tags are demoted to warnings is decided by
    PolicyFilter::filter.  Same obligations as C05 R5.4 (first matching rule decides with its own action, default Error,
    Err unless Warn), evaluated here because an operator's `error` pin on this property's tags depends on them."""
    from rules import C05 as _c05
    _c05.r54(ctx, rid="R8.10")


def r811(ctx):
    """the fact `next_holder_commit_num == 1` that R8.1 relies on means `counter-signed` only because of C01 R1.6-R1.8"""
    from rules import C01 as _c01
    from engine import report as _report
    v = _report.renamed(ctx, {"R1.6": "R8.11", "R1.7": "R8.11", "R1.8": "R8.11"})
    _c01.r16(v)
    _c01.r17(v)
    _c01.r18(v)

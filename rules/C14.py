"""C14 — channel monitors depend only on the current best chain (do/undo symmetry)."""
import re

from engine import rulelib as R
from engine.rulelib import fnview
from engine.cfg import render, strip_ref, subexprs

CRATES = ["lightning_signer"]
OPTIONAL_CRATES = ["vls_persist"]
LS = "lightning_signer::"
ST = LS + "monitor::State"
TR = LS + "chain::tracker::ChainTracker::<L>"

CLAIM = {
    "text": "Decides structural conditions necessary for 'connect then disconnect restores the view' and for "
            "'a reorg never aborts': (R14.1) for each of the 7 StateChange variants the set of monitor State fields "
            "and ClosingOutpoints mutators touched by apply_backward_change equals that of apply_forward_change "
            "(one documented exception), with inverted boolean flags; (R14.2) each backward arm pushes the same "
            "outpoint expressions to the same adds/removes list as its forward twin (the tracker's contract: the "
            "caller removes the adds and adds the removes); (R14.3) because one backward arm resets "
            "closing_outpoints wholesale while others unwrap it, the undo loop in on_remove_block_end must consume "
            "the change list in reverse order; (R14.4) notify_listeners_remove is the mirror image of "
            "notify_listeners_add on ListenSlot.watches/seen; swept-height bookkeeping is mirrored; (R14.7) in both "
            "directions the watch set inserts one list of the listener's (adds, removes) result before it drops the "
            "other (roles: connect inserts adds/drops removes/remembers removes as seen, disconnect the reverse), so "
            "an outpoint created and spent inside one block nets out; (R14.8) both streamed block-end callbacks take "
            "the per-block decode state on every exit; (R14.9) a restart re-registers each ready channel's monitor "
            "with the stored ListenSlot as one value (restore_listener), never with a freshly built slot, before the "
            "channel is published; (R14.10) add_block keeps a header window of exactly MAX_REORG_SIZE entries (truncate "
            "to MAX - 1 before pushing the old tip, or to MAX after), so that a reorg of any depth inside the window can "
            "be disconnected; (R14.11) the payment preimages the monitors consult when they decode a commitment "
            "(which received HTLC outputs are ours to claim) survive a restart: after NodeState::restore rebuilt them, "
            "restore_node overwrites payment entries only for the keys of the outgoing-invoice table; (R14.12) streamed "
            "delivery, both directions: the block hash a streamed (externally delivered) block is matched against, and the hash "
            "the listeners are told, is the hash of the block being processed - the new header in add_block, the current tip "
            "in remove_block (the validated header `validate_block` is given in that position). Does not decide "
            "equality with a fresh replay over all block histories nor general panic-freedom.",
    "note": "rustc MIR; symmetry is compared per match arm over field writes, mutator calls and Vec::push sites "
            "including closures called from the arm",
    "technique": "static analysis: sibling agreement (do/undo) over MIR match arms",
}

MUTATORS = {"set_our_output_spent", "set_htlc_output_spent", "set_second_level_htlc_spent",
            "add_second_level_htlc_output", "remove_second_level_htlc_output"}
INVERSE_MUT = {"add_second_level_htlc_output": "remove_second_level_htlc_output"}


CLAIM["text"] += (" (R14.13) restart clause, where the build has a persistence layer: every persisted field of channel entry, node "
                  "state, tracker and monitors is serialised and restored into the same slot (same obligations as C11 R11.2).")

CLAIM["text"] += (" (R14.14) a close that pays the node nothing has no `our output`: in the ClosingOutpoints matchers the absence of "
                  "our_output is never turned into an output index by a default (map_or / unwrap_or on the index), so a spend of "
                  "output 0 of such a close is not taken for a spend of ours (the change it would emit unwraps None and aborts "
                  "block processing).")

def run(ctx):
    ctx.explanation = CLAIM["text"]
    ctx.not_decided = "view equality with a fresh replay for all histories; general panic-freedom"
    fwd = ctx.prog.fn(f"{ST}::apply_forward_change")
    bwd = ctx.prog.fn(f"{ST}::apply_backward_change")
    variants = [v["name"] for v in ctx.prog.adt(LS + "monitor::StateChange")["variants"]]
    ctx.floor("R14.1", "StateChange variants", len(variants), 7)
    fs = arms(ctx, fwd, variants)
    bs = arms(ctx, bwd, variants)
    r141(ctx, fwd, bwd, variants, fs, bs)
    r142(ctx, fwd, bwd, variants, fs, bs)
    r143(ctx, bwd, variants, bs)
    r144(ctx)
    r145(ctx)
    r146(ctx)
    r147(ctx)
    r148(ctx)
    r149(ctx)
    r1410(ctx)
    r1411(ctx)
    r1412(ctx)
    r1414(ctx)
    r_restore(ctx)


def arms(ctx, body, variants):
    """per StateChange variant: summary of the match arm"""
    fv = fnview(ctx, body, policy=False).named()
    sw = None
    for bi in sorted(fv.live_blocks()):
        t = body.term(bi)
        if t.kind == "switch" and t.discr.place is not None:
            e = fv.expr(t.discr)
            if e[0] == "discr" and render(strip_ref(e[1])) == "change":
                sw = (bi, t)
                break
    if sw is None:
        raise R.Broken(f"anchor missing: `match change` in {body.name}")
    bi, t = sw
    reach = {v: fv.reach(tg) for v, tg in t.arms}
    common = None
    for v, r in reach.items():
        common = set(r) if common is None else common & r
    out = {}
    for v, tg in t.arms:
        name = variants[v]
        region = reach[v] - (common or set())
        out[name] = summarize(ctx, fv, region)
    return out


def summarize(ctx, fv, region, _depth=0):
    b = fv.b
    writes, muts, pushes, unwraps = set(), [], [], 0
    for bi in sorted(region):
        for s in b.stmts(bi):
            for pr in s.place.proj:
                if isinstance(pr, tuple) and pr[0] == "f" and pr[1].endswith("monitor::State"):
                    writes.add(pr[2])
                    break
        t = b.term(bi)
        if t.kind != "call":
            continue
        c = t.call
        nm = c.callee.name if c.callee else ""
        last = nm.rsplit("::", 1)[-1]
        if last == "push" and "vec::Vec" in nm and c.args:
            lst = render(strip_ref(fv.expr(c.args[0])))
            # the pushed value in terms of the change's payload *positions* (binding names do not matter)
            pv = fnview(ctx, b, policy=False)
            val = pv.expr(c.args[1])
            pushes.append((lst, norm_outpoint(val)))
        elif last in MUTATORS:
            flag = None
            for a in c.args[1:]:
                if a.const is not None and a.const["s"] in ("true", "false"):
                    flag = a.const["s"]
            muts.append((last, flag))
        elif last in ("get_or_insert", "insert", "take", "replace") and c.args:
            e = fv.expr(c.args[0])
            for x in subexprs(e):
                if x[0] == "field" and x[2].endswith("monitor::State"):
                    writes.add(x[3])
        elif last in ("unwrap", "expect") and c.args:
            e = fv.expr(c.args[0])
            if any(x[0] == "field" and x[3] == "closing_outpoints" for x in subexprs(e)):
                unwraps += 1
        # closures invoked from this arm (Option::map(|i| adds.push(..)), iterators)
        for cd in c.cls:
            if cd.id in ctx.prog.bodies and _depth < 2:
                cb = ctx.prog.bodies[cd.id]
                cfv = fnview(ctx, cb, policy=False).named()
                sub = summarize(ctx, cfv, cfv.live_blocks(), _depth + 1)
                writes |= sub["writes"]
                muts += sub["muts"]
                pushes += sub["pushes"]
                unwraps += sub["unwraps"]
    return {"writes": writes, "muts": muts, "pushes": pushes, "unwraps": unwraps}


def norm_outpoint(e):
    """shape of a pushed outpoint: which change payload it comes from"""
    e = strip_ref(e)
    if e[0] == "adt" and e[1].endswith("OutPoint"):
        d = dict(e[3])
        tx = render(strip_ref(d.get("txid", ("k", "?"))))
        vo = render(strip_ref(d.get("vout", ("k", "?"))))
        tx = "closing.txid" if "closing_outpoints" in tx or tx.endswith(".txid") and "outpoints" in tx else tx
        vo = re.sub(r"^\*", "", vo)
        return f"OutPoint{{{_tidy(tx)},{_tidy(vo)}}}"
    return _tidy(render(e))


def _tidy(s):
    s = re.sub(r"\(change as \w+\)\.", "change.", s)
    s = re.sub(r"<.*Iterator>::next\(.*\)\?", "each", s)
    return s


def r141(ctx, fwd, bwd, variants, fs, bs):
    ctx.rule("R14.1", "per StateChange variant: backward arm touches the same State fields and ClosingOutpoints "
                      "mutators as the forward arm, with inverted flags")
    exceptions = {("FundingConfirmed", "funding_double_spent_height"):
                  "forward also clears a stale double-spend mark; backward cannot know the earlier value (documented)"}
    for v in variants:
        f, b = fs.get(v), bs.get(v)
        if f is None or b is None:
            ctx.ob("R14.1", False, f"arm-missing/{v}", f"StateChange::{v} has no arm in forward or backward",
                   where="vls-core/src/monitor.rs")
            continue
        fw = {x for x in f["writes"] if (v, x) not in exceptions}
        bw = {x for x in b["writes"] if (v, x) not in exceptions}
        ctx.ob("R14.1", fw == bw, f"{bwd.name}/arm={v}/fields",
               f"StateChange::{v}: forward writes State fields {sorted(fw)} but backward writes {sorted(bw)}",
               where=f"{bwd.file}", sample={"fields": sorted(fw)})
        fm = sorted((INVERSE_MUT.get(n, n), fl) for n, fl in f["muts"])
        bm = sorted((n, {"true": "false", "false": "true"}.get(fl, fl)) for n, fl in b["muts"])
        ctx.ob("R14.1", fm == bm, f"{bwd.name}/arm={v}/mutators",
               f"StateChange::{v}: forward applies {f['muts']} but backward applies {b['muts']} (expected the inverse)",
               where=f"{bwd.file}", sample={"forward": f["muts"], "backward": b["muts"]})


def r142(ctx, fwd, bwd, variants, fs, bs):
    ctx.rule("R14.2", "watch-list symmetry: each backward arm pushes the same outpoints to the same list "
                      "(adds/removes) as its forward twin; the tracker removes the adds and adds the removes")
    ctx.floor("R14.2", "forward push sites", sum(len(fs[v]["pushes"]) for v in variants if v in fs), 10)
    ctx.floor("R14.2", "backward push sites", sum(len(bs[v]["pushes"]) for v in variants if v in bs), 10)
    for v in variants:
        f, b = fs.get(v), bs.get(v)
        if f is None or b is None:
            continue
        for lst in ("adds", "removes"):
            fp = sorted(x[1] for x in f["pushes"] if x[0] == lst)
            bp = sorted(x[1] for x in b["pushes"] if x[0] == lst)
            ctx.ob("R14.2", fp == bp, f"{bwd.name}/arm={v}/list={lst}",
                   f"StateChange::{v}: forward pushes {fp} to `{lst}` but backward pushes {bp}; undoing this change "
                   f"leaves the tracker watching the wrong outpoints",
                   where=f"{bwd.file}", sample={lst: fp})


def r143(ctx, bwd, variants, bs):
    ctx.rule("R14.3", "undo order: backward arms do not commute (one resets closing_outpoints, others unwrap it), so "
                      "on_remove_block_end must apply the block's changes in reverse order")
    resets = [v for v in variants if "closing_outpoints" in bs[v]["writes"]]
    derefs = [v for v in variants if bs[v]["unwraps"] > 0 and v not in resets]
    end = ctx.prog.fn(f"{ST}::on_remove_block_end")
    add = ctx.prog.fn(f"{ST}::on_add_block_end")
    if not (resets and derefs):
        ctx.sample("R14.3", "premise", end.file, "backward arms commute on closing_outpoints: order rule vacuous")
        ctx.ob("R14.3", True, f"{end.name}/undo-order", "", sample="arms commute")
        return
    ok, how = _loop_direction(ctx, end, "apply_backward_change")
    fok, fhow = _loop_direction(ctx, add, "apply_forward_change")
    ctx.ob("R14.3", ok == "reverse" and fok == "forward", f"{end.name}/undo-order",
           f"on_remove_block_end applies the change list in {ok} order ({how}) while on_add_block_end applies it in "
           f"{fok} order; arms {resets} reset closing_outpoints and arms {derefs} unwrap it, so undoing a block that "
           f"contains a unilateral close and a spend of one of its outputs hits Option::unwrap on None (abort)",
           where=f"{end.file}:{end.line}", sample={"forward": fhow, "backward": how})


def _loop_direction(ctx, body, callee_frag):
    fv = fnview(ctx, body, policy=False)
    # the loop that feeds `callee`: find the call, then the iterator next() whose payload is its `change` argument
    for bi, c in body.calls():
        nm = c.callee.name if c.callee else ""
        if nm.endswith(callee_frag):
            e = fv.expr(c.args[-1])
            txt = render(e)
            calls = [x[1] for x in subexprs(e) if x[0] == "call"]
            if any("iter::Rev<" in n or "next_back" in n or n.endswith("::pop") for n in calls) or "::rev(" in txt:
                return "reverse", _short(calls)
            return "forward", _short(calls)
    raise R.Broken(f"anchor missing: loop calling {callee_frag} in {body.name}")


def _short(calls):
    return [c.split("::")[-2] + "::" + c.split("::")[-1] if "::" in c else c for c in calls][:4]


def r144(ctx):
    ctx.rule("R14.4", "tracker: notify_listeners_remove mirrors notify_listeners_add on ListenSlot.watches / seen")
    def ops(fn):
        b = ctx.prog.fn(fn)
        fv = fnview(ctx, b, policy=False).named()
        out = []
        for bi, c in b.calls():
            nm = c.callee.name if c.callee else ""
            last = nm.rsplit("::", 1)[-1]
            if last in ("extend", "remove", "insert") and c.args:
                recv = fv.expr(c.args[0])
                fld = [x[3] for x in subexprs(recv) if x[0] == "field" and x[2].endswith("ListenSlot")]
                if not fld:
                    continue
                src = fv.expr(c.args[1]) if len(c.args) > 1 else ("k", "?")
                names = {x[1] for x in subexprs(src) if x[0] in ("let", "var") and x[1] in ("adds", "removes")}
                out.append((fld[0], "extend" if last in ("extend", "insert") else "remove", "/".join(sorted(names))))
        return b, sorted(out)
    ab, aops = ops(f"{TR}::notify_listeners_add")
    rb, rops = ops(f"{TR}::notify_listeners_remove")
    ctx.floor("R14.4", "watch bookkeeping operations", len(aops), 3)
    mirror = sorted((f, {"extend": "remove", "remove": "extend"}[o], s) for f, o, s in aops)
    ctx.ob("R14.4", mirror == rops, f"{rb.name}/mirror",
           f"notify_listeners_add performs {aops}; its mirror is {mirror} but notify_listeners_remove performs {rops}",
           where=f"{rb.file}:{rb.line}", sample={"add": aops, "remove": rops})


def r145(ctx):
    ctx.rule("R14.5", "swept-height bookkeeping: on_add_block_end sets closing_swept_height / our_output_swept_height "
                      "on the not-swept -> swept edge and on_remove_block_end clears them on the swept -> not-swept edge; "
                      "height moves by exactly one")
    add = ctx.prog.fn(f"{ST}::on_add_block_end")
    rem = ctx.prog.fn(f"{ST}::on_remove_block_end")
    for fld in ("closing_swept_height", "our_output_swept_height"):
        for b, kind in ((add, "Some"), (rem, "None")):
            fv = fnview(ctx, b, policy=False)
            ws = [(bi, s) for bi in fv.live_blocks() for s in b.stmts(bi)
                  if any(isinstance(p, tuple) and p[0] == "f" and p[2] == fld and p[1].endswith("monitor::State")
                         for p in s.place.proj)]
            ctx.ob("R14.5", len(ws) >= 1, f"{b.name}/{fld}/written",
                   f"`{b.name}` no longer maintains {fld}", where=f"{b.file}:{b.line}")
            for bi, s in ws:
                e = fv.expr(s.rv.ops[0]) if s.rv.ops else ("k", "?")
                txt = render(e)
                good = (kind == "Some" and txt.startswith("Some(") and "height" in txt) or \
                       (kind == "None" and "None" in txt)
                ctx.ob("R14.5", good, f"{b.name}/{fld}/value", f"`{b.name}` assigns {fld} = {txt}",
                       where=f"{b.file}:{s.line}", sample=f"{fld} = {txt}")

    # edge semantics on the disconnect side, for each of the two heights on its own: whenever the block's undo turned
    # "swept" into "not swept", the recorded height is cleared - whatever the other flag says (our output can be un-swept
    # while HTLC outputs of the same close were never swept, so closing_was_swept is false)
    from engine import atoms
    rv0 = fnview(ctx, rem, policy=False)
    rvn = rv0.named()
    for fld, was, is_ in (("closing_swept_height", "closing_was_swept", "closing_is_swept"),
                          ("our_output_swept_height", "our_output_was_swept", "our_output_is_swept")):
        clr = set()
        for bi in rvn.live_blocks():
            for s_ in rem.stmts(bi):
                if s_.kind == "a" and any(isinstance(pr, tuple) and pr[0] == "f" and pr[2] == fld for pr in s_.place.proj):
                    val = render(rv0.expr(s_.rv.ops[0])) if s_.rv.ops else ""
                    if "None" in str(s_.rv.a) or "None" in val:
                        clr.add(bi)
        cut = atoms.scenario_cut(rvn, [atoms.parse_atom(was), atoms.parse_atom("!" + is_)])
        rets = [bi for bi in rvn.live_blocks() if rem.term(bi).kind == "ret"]
        live = rvn.reach(0, cut_edges=cut, cut_nodes=clr)
        ctx.ob("R14.5", bool(cut) and bool(clr) and not any(r in live for r in rets), f"{rem.name}/{fld}/unswept-clears",
               f"a disconnected block that turns `{was}` into not `{is_}` can leave {fld} set (the clearing depends on something "
               "else as well): after the reorg the monitor reports a sweep that is not on the best chain, and connect-then-"
               "disconnect does not restore the previous view", where=f"{rem.file}:{rem.line}",
               sample=f"{was} && !{is_} => {fld} = None on every path")

    # ... and the pair is sampled around the undo: `was` before the block's changes are reverted, `is` after (sampled at the
    # same moment the two are always equal and nothing is ever cleared); same for the connect side
    from engine import rulelib as R
    for fb, loopsrc in ((rem, "changes"), (add, "changes")):
        v0 = fnview(ctx, fb, policy=False)
        loops = R.loops_over(v0, lambda x: loopsrc in x)
        for getter in ("is_closing_swept", "is_our_output_swept"):
            calls = [bi for bi, c in fb.calls() if c.callee and c.callee.name == f"{ST}::{getter}"]
            if len(loops) != 1 or len(calls) < 2:
                ctx.ob("R14.5", False, f"{fb.name}/{getter}/sampled-twice",
                       f"`{fb.name}`: {len(loops)} loop(s) over the block's changes, {len(calls)} `{getter}` samples (expected one loop "
                       "with a sample before and a sample after it)", where=f"{fb.file}:{fb.line}")
                continue
            h = loops[0][0]
            before = [bi for bi in calls if h in v0.reach(bi)]
            after = [bi for bi in calls if h not in v0.reach(bi)]
            ctx.ob("R14.5", bool(before) and bool(after), f"{fb.name}/{getter}/before-and-after",
                   f"`{fb.name}` does not sample `{getter}` once before and once after it applies the block's changes "
                   f"({len(before)} before, {len(after)} after): the swept -> un-swept (or un-swept -> swept) edge is never seen, so the "
                   "recorded swept height does not follow the best chain", where=f"{fb.file}:{fb.line}",
                   sample="was <- sample; apply changes; is <- sample")


def r146(ctx):
    ctx.rule("R14.6", "change derivation is independent of the spent status it toggles: the PushListener callbacks (which "
                      "re-derive a block's changes from the post-block state when the block is disconnected) never read, "
                      "directly or through helpers, the fields written by the set_*_spent mutators or the swept heights")
    p = ctx.prog
    mon = [b for b in p.bodies.values() if b.d.krate == "lightning_signer" and b.file.endswith("monitor.rs")
           and not R.is_test_util(b.name)]
    # 1. footprint of the spent mutators and swept-height bookkeeping
    F = set()
    tuple_bool = False
    for b in mon:
        on = R.owner_name(p, b)
        last = on.rsplit("::", 1)[-1]
        if not (last.startswith("set_") and "spent" in last):
            continue
        fv = fnview(ctx, b, policy=False)
        for bi in fv.live_blocks():
            for s_ in b.stmts(bi):
                for pr in s_.place.proj:
                    if isinstance(pr, tuple) and pr[0] == "f":
                        if pr[1] == "()" and pr[2] == "1" and "bool" in b.ty(s_.place.local):
                            tuple_bool = True
                        elif pr[1] != "()":
                            F.add((pr[1].rsplit("::", 1)[-1], pr[2]))
            t = b.term(bi)
            if t.kind == "call" and t.call.callee and "IndexMut" in t.call.callee.name and t.call.args:
                e = fv.expr(t.call.args[0])
                for x in subexprs(e):
                    if x[0] == "field":
                        F.add((x[2].rsplit("::", 1)[-1], x[3]))
    F |= {("State", "closing_swept_height"), ("State", "our_output_swept_height")}
    F.discard(("ClosingOutpoints", "our_output"))
    ctx.floor("R14.6", "spent-status footprint fields", len(F), 4)
    ctx.ob("R14.6", tuple_bool, "footprint/our_output-flag", "set_our_output_spent no longer writes the (vout, spent) pair",
           where="vls-core/src/monitor.rs", sample=sorted(F))
    # 2. direct readers
    def reads_footprint(b):
        hits = []
        def chk(pl, line):
            if pl is None:
                return
            for pr in pl.proj:
                if isinstance(pr, tuple) and pr[0] == "f":
                    if (pr[1].rsplit("::", 1)[-1], pr[2]) in F:
                        hits.append((f"{pr[1].rsplit('::', 1)[-1]}.{pr[2]}", line))
                    if pr[1] == "()" and pr[2] == "1" and "(u32, bool)" in b.ty(pl.local):
                        hits.append(("our_output.<spent flag>", line))
        for bi in range(len(b.blocks)):
            if b.cleanup[bi]:
                continue
            for s_ in b.stmts(bi):
                if s_.kind != "a":
                    continue
                # reads only: operands / borrowed places on the right-hand side
                for o in s_.rv.ops:
                    chk(o.place, s_.line)
                if s_.rv.place is not None and not (s_.rv.op in ("ref", "ptr") and s_.rv.a):
                    chk(s_.rv.place, s_.line)
            t = b.term(bi)
            if t.kind == "call":
                for a in t.call.args:
                    chk(a.place, t.call.line)
        return hits
    direct = {}
    for b in mon:
        if b.mac and "derive" in b.mac:
            continue
        on = R.owner_name(p, b)
        last = on.rsplit("::", 1)[-1]
        if last.startswith("set_") and "spent" in last:
            continue
        h = reads_footprint(b)
        if h:
            direct[b.d.id] = (b, h)
    # 3. PushListener callbacks and everything they call inside monitor.rs (except the forward application itself)
    roots = [b for b in mon if "PushListener<" in R.owner_name(p, b) and "push_decoder::Listener" in R.owner_name(p, b)
             or R.owner_name(p, b).endswith("PushListener::<'_>::is_not_ready_for_push")]
    ctx.floor("R14.6", "PushListener callbacks", len({R.owner_name(p, b) for b in roots}), 5)
    stop = ("::apply_forward_change", "::add_change")
    for rb in roots:
        seen, work, chain = set(), [(rb, [rb.name])], None
        found = None
        while work and not found:
            b, path = work.pop()
            if b.d.id in seen:
                continue
            seen.add(b.d.id)
            if b.d.id in direct:
                found = (path, direct[b.d.id][1])
                break
            for bi, c in b.calls():
                for cal in list(p.possible_callees(c, b)) + [p.bodies[cd.id] for cd in c.cls if cd.id in p.bodies]:
                    if not cal.file.endswith("monitor.rs") or cal.name.endswith(stop) or R.is_test_util(cal.name):
                        continue
                    if cal.mac and "derive" in cal.mac:
                        continue
                    work.append((cal, path + [cal.name]))
        ctx.ob("R14.6", found is None, f"{R.owner_name(p, rb)}/reads-spent-status",
               f"block-change detection `{rb.name}` depends on spent status "
               f"{found[1][:2] if found else ''} via {' -> '.join(x.rsplit('::', 1)[-1] for x in (found[0] if found else []))}: "
               f"re-deriving the change from the post-block state on disconnect will not reproduce it, so the undo is skipped",
               where=f"{rb.file}:{rb.line}", sample=f"{len(seen)} functions reachable, none reads {sorted(F)[:3]}...")


def r147(ctx):
    ctx.rule("R14.7", "the tracker's watch set follows the listener's (adds, removes) symmetrically: connect = insert adds, "
                      "then drop removes (and remember them as seen); disconnect = re-insert removes (and forget them as "
                      "seen), then drop adds - insertion before removal in both, so an outpoint created and spent in "
                      "one block nets out")
    p = ctx.prog
    TR = LS + "chain::tracker::ChainTracker::<L>"
    want = {"notify_listeners_add": {"insert": "0", "remove": "1", "seen": ("insert", "1")},
            "notify_listeners_remove": {"insert": "1", "remove": "0", "seen": ("remove", "1")}}
    for fn, w in want.items():
        b = p.fn(f"{TR}::{fn}")
        fv = fnview(ctx, b, policy=False)
        loops = R.loops_over(fv, lambda x: "listeners" in x)
        ctx.ob("R14.7", len(loops) == 1, f"{b.name}/listener-loop", f"{len(loops)} loops over the listeners", where=f"{b.file}:{b.line}")
        if len(loops) != 1:
            continue
        h = loops[0][0]
        ops = {"watches": {"insert": [], "remove": []}, "seen": {"insert": [], "remove": []}}
        for bi, c in b.calls():
            nm = c.callee.name if c.callee else ""
            kind = "insert" if (nm.endswith("::extend") or nm.endswith("::insert")) else ("remove" if nm.endswith("::remove") else None)
            if kind is None or "BTreeSet" not in nm or len(c.args) < 2:
                continue
            recv = fv.expr(c.args[0])
            fld = [x[3] for x in subexprs(recv) if x[0] == "field" and x[2].endswith("ListenSlot")]
            if not fld or fld[0] not in ops:
                continue
            src = [x[3] for x in subexprs(fv.expr(c.args[1])) if x[0] == "field" and x[2] == "()" and x[3] in ("0", "1")]
            ops[fld[0]][kind].append((bi, c.line, src[0] if src else "?"))
        ins, rem = ops["watches"]["insert"], ops["watches"]["remove"]
        ctx.ob("R14.7", len(ins) >= 1 and len(rem) >= 1, f"{b.name}/watch-updates", f"watch insertions {ins}, removals {rem}",
               where=f"{b.file}:{b.line}")
        ctx.ob("R14.7", all(s_ == w["insert"] for _, _, s_ in ins) and all(s_ == w["remove"] for _, _, s_ in rem),
               f"{b.name}/roles", f"{fn}: inserts list {[s_ for _, _, s_ in ins]} and drops list {[s_ for _, _, s_ in rem]} of the "
               f"listener's (adds, removes) result (expected insert .{w['insert']}, drop .{w['remove']})", where=f"{b.file}:{b.line}",
               sample=f"insert .{w['insert']} / drop .{w['remove']}")
        # insertion strictly before removal within one listener iteration
        late = []
        for bi, ln, _ in rem:
            for t in b.term(bi).targets[:1]:
                live = fv.reach(t, cut_nodes={h})
                late += [(ln, l2) for b2, l2, _ in ins if b2 in live]
        ctx.ob("R14.7", not late, f"{b.name}/insert-before-remove",
               f"{fn} drops watched outpoints (line {late[0][0] if late else 0}) before inserting the other list (line "
               f"{late[0][1] if late else 0}): an outpoint that the block both created and spent stays watched",
               where=f"{b.file}:{late[0][0] if late else b.line}", sample="watches.extend(..) precedes every watches.remove(..)")
        sk, sidx = w["seen"]
        got = ops["seen"][sk]
        ctx.ob("R14.7", len(got) >= 1 and all(s_ == sidx for _, _, s_ in got) and not ops["seen"]["remove" if sk == "insert" else "insert"],
               f"{b.name}/seen", f"{fn}: seen-set updates {ops['seen']}", where=f"{b.file}:{b.line}", sample=f"seen.{sk}(.{sidx})")


def r148(ctx):
    ctx.rule("R14.8", "the per-block decode state (a snapshot of the monitor state made when a streamed block starts) is "
                      "consumed at the end of that block on every exit, so it can never be reused for a later block")
    p = ctx.prog
    CM = LS + "monitor::ChainMonitor"
    n = 0
    for b in sorted(p.bodies.values(), key=lambda x: x.name):
        if b.d.krate != "lightning_signer" or not b.name.startswith(f"<{CM} as ") or not b.name.endswith("_streamed_block_end"):
            continue
        n += 1
        fv = fnview(ctx, b, policy=False)
        takes = []
        for bi, c in b.calls():
            nm = c.callee.name if c.callee else ""
            if nm.endswith("Option::<T>::take") and c.args:
                e = fv.expr(c.args[0])
                if any(x[0] == "field" and x[3] == "decode_state" for x in subexprs(e)):
                    takes.append(bi)
        ctx.ob("R14.8", bool(takes), f"{b.name}/takes-decode-state", f"`{b.name}` no longer takes the decode state", where=f"{b.file}:{b.line}")
        rets = [bi for bi in fv.live_blocks() if b.term(bi).kind == "ret"]
        live = fv.reach(0, cut_nodes=set(takes))
        bad = [bi for bi in rets if bi in live]
        ctx.ob("R14.8", bool(takes) and not bad, f"{b.name}/always-consumed",
               f"`{b.name}` can return (line {b.term(bad[0]).line if bad else 0}) without having taken `decode_state`: the stale snapshot "
               f"is matched against the transactions of a later streamed block and the result depends on history, not on the block",
               where=f"{b.file}:{b.line}", sample="every return passes decode_state.take()")
    ctx.floor("R14.8", "streamed block-end callbacks of ChainMonitor", n, 2)


def r149(ctx):
    ctx.rule("R14.9", "restart keeps each monitor's watch bookkeeping whole: Node::new_from_persistence re-registers a ready "
                      "channel's monitor with ChainTracker::restore_listener and the stored ListenSlot as one value (watches, "
                      "txid watches and the already-seen outpoints), not with a freshly built slot")
    p = ctx.prog
    b = p.fn(LS + "node::Node::new_from_persistence")
    bodies = [b] + p.closures_of(b)
    rl, fresh = [], []
    for bb in bodies:
        bv = fnview(ctx, bb)
        for bi, c in bb.calls():
            nm = c.callee.name if c.callee else ""
            if nm.endswith("ChainTracker::<L>::restore_listener"):
                rl.append((bb, bv, bi, c))
            elif nm.endswith("ChainTracker::<L>::add_listener") or nm.endswith("ChainTracker::<L>::add_listener_watches"):
                fresh.append((bb, c))
    ctx.ob("R14.9", len(rl) >= 1, f"{b.name}/restores-listener", "new_from_persistence no longer re-registers the stored "
           "listener slot (restore_listener): the monitor's seen-outpoint set is lost at restart, a later disconnect of a "
           "block that spent a watched outpoint is not undone", where=f"{b.file}:{b.line}", sample="restore_listener(outpoint, monitor, stored slot)")
    ctx.ob("R14.9", not fresh, f"{b.name}/no-fresh-slot",
           f"new_from_persistence registers a monitor with a freshly built slot ({fresh[0][1].callee.name.rsplit('::', 1)[-1] if fresh else ''}"
           f", line {fresh[0][1].line if fresh else 0}): watches are re-armed but the stored seen set is dropped",
           where=f"{b.file}:{fresh[0][1].line if fresh else b.line}", sample="no add_listener on the restore path")
    for bb, bv, bi, c in rl:
        e = bv.expr(c.args[3]) if len(c.args) > 3 else ("opaque", "?")
        whole = R.mentions_call(e, "remove") and not any(x[0] == "field" and x[2].endswith("ListenSlot") for x in subexprs(e))
        ctx.ob("R14.9", whole, f"{b.name}/slot-whole", f"restore_listener receives `{render(e)[:120]}` (expected the stored slot "
               "taken from the persisted listener map as one value)", where=f"{bb.file}:{c.line}", sample=render(e)[:80])
    # the monitor itself is rebuilt from the stored state of the same listener entry
    nmb = 0
    for bb in bodies:
        bv = fnview(ctx, bb)
        for bi, c in bb.calls():
            if c.callee and c.callee.name.endswith("ChainMonitorBase::new_from_persistence") and len(c.args) >= 2:
                nmb += 1
                e = bv.expr(c.args[1])
                ctx.ob("R14.9", R.mentions_call(e, "remove") and "listener" in render(e), f"{b.name}/monitor-state-stored",
                       f"the restored monitor is built from `{render(e)[:120]}` (expected the state stored with the tracker's "
                       "listener entry)", where=f"{bb.file}:{c.line}", sample=render(e)[:80])
    ctx.floor("R14.9", "ChainMonitorBase::new_from_persistence calls on the restore path", nmb, 1)
    # every restored ready channel passes restore_listener before it is published in the channel map
    for bb in bodies:
        bv = fnview(ctx, bb)
        cons = [bi for (x, bi, si, st) in R.constructions(p, LS + "channel::Channel") if x is bb]
        rlb = {bi for (x, _, bi, _) in rl if x is bb}
        for cb in cons:
            ins = [bi for bi, c in bb.calls() if c.callee and c.callee.name.endswith("::insert") and bi in bv.reach(cb)
                   and "channels" in render(bv.named().expr(c.args[0]))]
            esc = [bi for bi in ins if bi in bv.reach(cb, cut_nodes=rlb)]
            ctx.ob("R14.9", bool(rlb) and not esc, f"{b.name}/ready-channel-needs-listener",
                   "a restored ready channel can be published without its monitor having been re-registered with the stored slot",
                   where=f"{bb.file}:{bb.term(esc[0]).line if esc else bb.line}", sample="channels.insert dominated by restore_listener")


def r1410(ctx):
    ctx.rule("R14.10", "the header window kept by add_block holds MAX_REORG_SIZE headers: every disconnect inside the window "
                       "finds its previous header (truncate(MAX_REORG_SIZE - 1) before push_front, or truncate(MAX_REORG_SIZE) after)")
    from engine import atoms
    p = ctx.prog
    b = p.fn(LS + "chain::tracker::ChainTracker::<L>::add_block")
    fv = fnview(ctx, b)
    tr = [(bi, c) for bi, c in b.calls() if c.callee and c.callee.name.endswith("VecDeque::<T, A>::truncate")
          and R.mentions_field(fv.expr(c.args[0]), "ChainTracker", "headers")]
    pf = [(bi, c) for bi, c in b.calls() if c.callee and c.callee.name.endswith("VecDeque::<T, A>::push_front")
          and R.mentions_field(fv.expr(c.args[0]), "ChainTracker", "headers")]
    ctx.floor("R14.10", "headers.push_front in add_block", len(pf), 1)
    ctx.ob("R14.10", len(tr) == 1 and len(pf) == 1, f"{b.name}/window-maintained",
           f"add_block has {len(tr)} headers.truncate and {len(pf)} headers.push_front calls (expected one each)",
           where=f"{b.file}:{b.line}", sample="one truncate, one push_front")
    mx = [v for k, (v, ty) in p.consts.items() if p.defs[k].name.endswith("ChainTracker::<L>::MAX_REORG_SIZE")]
    if not mx and tr:
        mx = [x[1] for x in subexprs(fv.expr(tr[0][1].args[1])) if x[0] == "int" and len(x) > 2 and x[2].endswith("MAX_REORG_SIZE")]
    if not mx:
        raise R.Broken("C14/R14.10: anchor missing: value of ChainTracker::MAX_REORG_SIZE")
    if len(tr) == 1 and len(pf) == 1 and mx:
        (tb, tc), (pb, pc) = tr[0], pf[0]
        lin = atoms.linear(fv.expr(tc.args[1]))
        # the bound is MAX_REORG_SIZE + c (the constant is folded into an integer by the compiler's constant evaluation)
        k = lin[1] if not lin[0] else None
        before = pb not in fv.reach(0, cut_nodes={tb})           # truncate dominates the push
        after = tb not in fv.reach(0, cut_nodes={pb})            # push dominates the truncate
        window = (k + 1) if (k is not None and before) else (k if (k is not None and after) else None)
        ctx.ob("R14.10", window == mx[0], f"{b.name}/window-size",
               f"after add_block the header window holds at most {window} headers (truncate({k}) {'before' if before else 'after'} "
               f"push_front), MAX_REORG_SIZE is {mx[0]}: a reorg of depth {mx[0]} inside the window cannot be disconnected "
               "(remove_block answers ReorgTooDeep and the protocol handler aborts)", where=f"{b.file}:{tc.line}",
               sample=f"window {mx[0]}")


def r1411(ctx):
    ctx.rule("R14.11", "restart keeps the preimage-carrying payment entries: Node::restore_node overwrites NodeState.payments "
                       "entries (insert of a fresh RoutedPayment) only for keys of NodeState.invoices (outgoing invoices); the "
                       "entries NodeState::restore rebuilt from the stored preimages - which decide, on every block connect / "
                       "disconnect, which received HTLC outputs a commitment decodes to - are left alone")
    from engine import rulelib as R
    from engine.cfg import render, subexprs
    p = ctx.prog
    b = p.fn("lightning_signer::node::Node::restore_node")
    fv = fnview(ctx, b)
    writes = []
    for bi, c in b.calls():
        nm = c.callee.name if c.callee else ""
        last = nm.rsplit("::", 1)[-1]
        if last in ("insert", "clear", "remove", "retain", "append", "extend") and c.args and bi in fv.live_blocks():
            e = fv.expr(c.args[0])
            if any(x[0] == "field" and x[3] == "payments" and x[2].endswith("NodeState") for x in subexprs(e)):
                writes.append((bi, c.line, last))
    loops = R.loops_over(fv, lambda s_: True)
    for bi, ln, kind in writes:
        srcs = []
        for hdr, c, body_e, exit_e in loops:
            inside = any(bi == v or bi in fv.reach(v, cut_nodes={hdr}) for (_, v) in body_e)
            if inside:
                srcs.append(render(fv.expr(c.args[0])))
        ok = kind == "insert" and len(srcs) >= 1 and all(".invoices" in x and "issued_invoices" not in x for x in srcs)
        ctx.ob("R14.11", ok, f"{b.name}/payments-{kind}/keys",
               f"restore_node applies `{kind}` to NodeState.payments for keys from {[x[:90] for x in srcs] or 'no loop (whole map)'}: "
               "entries restored from the stored preimages (incoming payments, keyed like issued_invoices) are overwritten, so after a "
               "restart a commitment decodes to a different set of claimable HTLC outputs than before it",
               where=f"{b.file}:{ln}", sample=f"insert for keys of {[x[:60] for x in srcs]}")
    if not writes:
        ctx.ob("R14.11", True, f"{b.name}/payments-untouched", "", where=f"{b.file}:{b.line}", sample="restore_node does not write NodeState.payments")
    # the restored entries exist in the first place: NodeState::restore builds payments from the preimages parameter
    rb = p.fn("lightning_signer::node::NodeState::restore")
    rv = fnview(ctx, rb, policy=False)
    found = False
    for bb, bi, si, st in R.constructions(p, "lightning_signer::node::NodeState"):
        if bb is not rb:
            continue
        for fname, op in zip(st.rv.a[3], st.rv.ops):
            if fname == "payments":
                found = True
                e = render(rv.expr(op))
                ctx.ob("R14.11", "preimages" in e, f"{rb.name}/payments-from-preimages",
                       f"NodeState::restore builds payments from `{e[:120]}`, not from the stored preimages", where=f"{rb.file}:{st.line}",
                       sample="payments <- preimages")
    ctx.floor("R14.11", "NodeState literal in NodeState::restore with a payments field", 1 if found else 0, 1)


def r1412(ctx):
    ctx.rule("R14.12", "add/remove agreement on *which block* a request is about: the expected hash given to "
                       "maybe_finish_decoding_block (streamed block), the hash notify_listeners_* reports and the header "
                       "validate_block validates are one block - the new header when adding, the current tip when removing")
    from engine import rulelib as R
    from engine.cfg import render, peel
    p = ctx.prog
    for fn, subject, what in (("add_block", "header", "the new block's header (parameter `header`)"),
                              ("remove_block", "self.tip", "the current tip (`self.tip`), i.e. the block that is disconnected")):
        bl = [x for x in p.bodies.values() if x.name.endswith(f"chain::tracker::ChainTracker::<L>::{fn}")]
        ctx.floor("R14.12", f"ChainTracker::{fn}", len(bl), 1)
        b = bl[0]
        fv = fnview(ctx, b, policy=False)
        # the header that validate_block validates (5th argument: `headers`)
        vb = R.call_blocks(fv, lambda n: n.endswith("ChainTracker::<L>::validate_block"))
        ctx.floor("R14.12", f"validate_block call in {fn}", len(vb), 1)
        for bi, ln, c in vb:
            val = render(peel(fv.expr(c.args[4])))
            ctx.ob("R14.12", subject in val, f"{fn}/validated-header", f"{fn} validates `{val[:80]}` (expected {what})",
                   where=f"{b.file}:{ln}", sample=val[:60])
        sites = R.call_blocks(fv, lambda n: n.endswith("::maybe_finish_decoding_block") or "::notify_listeners_" in n)
        ctx.floor("R14.12", f"decode / notify calls in {fn}", len(sites), 2)
        for bi, ln, c in sites:
            h = render(peel(fv.expr(c.args[-1])))
            nm = c.callee.name.rsplit("::", 1)[-1]
            ok = "block_hash(" in h and (subject + ")" in h or subject + ".0)" in h)
            ctx.ob("R14.12", ok, f"{fn}/{nm}/block-hash",
                   f"{fn} hands `{h[:90]}` to {nm} as the hash of the block it processes; the block it validates and "
                   f"{'connects' if fn == 'add_block' else 'disconnects'} is {what}: a streamed block (delivered under its own "
                   "hash) is refused with BlockDecodeError, and the request handler treats a refused removal as fatal",
                   where=f"{b.file}:{ln}", sample=h[:70])


def r_restore(ctx):
    from rules import C11 as _c11
    _c11.shared_restore(ctx, "R14.13", "the monitors' State (heights, closing outpoints, spent flags, seen set) is what a restarted signer continues from.")


def r1414(ctx):
    ctx.rule("R14.14", "ClosingOutpoints: `our_output == None` never aliases an output index: no integer default (map_or / unwrap_or "
                       "/ unwrap_or_default with an integer result) is applied to our_output or its index")
    from engine.cfg import render, subexprs
    p = ctx.prog
    INT = ("u8", "u16", "u32", "u64", "usize", "i32", "i64")
    n = 0
    for b in sorted(p.bodies.values(), key=lambda x: x.name):
        if b.d.krate != "lightning_signer" or "monitor::ClosingOutpoints" not in b.name:
            continue
        fv = fnview(ctx, b, policy=False)
        reads = any(x[0] == "field" and x[3] == "our_output" for bi in fv.live_blocks() for st in b.stmts(bi) if st.kind == "a" and st.rv.ops
                    for o in st.rv.ops for x in subexprs(fv.expr(o)))
        for bi, c in b.calls():
            nm = c.callee.name if c.callee else ""
            last = nm.rsplit("::", 1)[-1]
            if not c.args:
                continue
            e = fv.expr(c.args[0])
            if not any(x[0] == "field" and x[3] == "our_output" for x in subexprs(e)):
                continue
            n += 1
            if last in ("map_or", "unwrap_or", "unwrap_or_default", "unwrap_or_else", "map_or_else") and c.dest.is_local():
                ty = b.ty(c.dest.local)
                ctx.ob("R14.14", ty not in INT, f"{R_owner(p, b)}/our_output-default-index",
                       f"`{b.name}` replaces a missing our_output by a default of type {ty} (`{last}`): for a close without an output of "
                       "ours, the output with that index is taken for ours, and the `OurOutputSpent` change it triggers unwraps None - "
                       "connecting or disconnecting the block that spends it aborts", where=f"{b.file}:{c.line}",
                       sample="absence of our_output stays an Option")
    ctx.floor("R14.14", "uses of ClosingOutpoints.our_output in its own methods", n, 2)
    ctx.ob("R14.14", True, "ClosingOutpoints/our_output-optional", "", where="vls-core/src/monitor.rs", sample=f"{n} uses, none with an integer default")


def R_owner(p, b):
    from engine import rulelib as R
    return R.owner_name(p, b)

"""C07 — mutual close pays the holder its due to an owned or allowlisted destination."""
from engine import rulelib as R
from engine import atoms
from engine.rulelib import fnview
from engine.cfg import render, strip_ref, peel, subexprs

CRATES = ["lightning_signer", "vls_protocol_signer"]
OPTIONAL_CRATES = ["vls_persist"]
LS = "lightning_signer::"
SVT = LS + "policy::simple_validator::SimpleValidator"
VAL = LS + "policy::validator::Validator"
SV = f"<{SVT} as {VAL}>"
CH = LS + "channel::Channel"
SIGN_CLOSING = lambda n: n.endswith("EcdsaChannelSigner>::sign_closing_transaction")

CLAIM = {
    "text": "Decides on all MIR paths: (R7.1) both entry points reach LDK's sign_closing_transaction only after Ok of the "
            "validator, and the signed object is the transaction returned by decode_and_validate_mutual_close_tx "
            "(raw) or ClosingTransaction::new over exactly the five validated parameters and setup.funding_outpoint "
            "(semantic); (R7.2) validate_mutual_close_tx succeeds only if both current commitments have no HTLCs, "
            "Ok(validate_fee(channel_value, to_holder + to_counterparty, weight)), on the funder side the counterparty "
            "value is inside epsilon of both counterparty_info.to_broadcaster and holder_info.to_countersigner (else "
            "the holder value vs holder_info.to_broadcaster and counterparty_info.to_countersigner), a holder script "
            "is wallet-spendable (can_spend true) or allowlisted at signing time, equals the upfront shutdown script "
            "when one is set and value > 0, and a positive value always has a script; outside_epsilon_range computes "
            "|a-b| > epsilon; (R7.3) the raw path accepts at most two outputs, succeeds only through Ok of one of the "
            "two validate_mutual_close_tx attempts, builds the closing tx from the attempt that succeeded and refuses "
            "when the recomposed transaction differs from the supplied one; (R7.5) the upfront shutdown script the "
            "validator compares with is the one the node fixed: the protocol handler fills ChannelSetup."
            "holder_shutdown_script - value and presence - from the request's local_shutdown_script only (and the "
            "counterparty's from remote_shutdown_script only); (R7.6) the funding outpoint the closing transaction spends "
            "is fixed once set: ChannelSetup.funding_outpoint is written, outside construction, only by "
            "MultiSigner::additional_setup and only while the stored outpoint is still null. (R7.7) `no HTLC pending` is read from the recorded commitment "
            "contents, which are the whole supplied content: nothing drops an HTLC between the request and the recorded "
            "CommitmentInfo2 (same obligations as the first part of C04 R4.3). (R7.8) refusals are real refusals under every filter configuration: PolicyFilter::filter lets the first matching rule decide with that rule's own action and defaults to Error, and a policy error becomes Ok only when the filter says Warn (same obligations as C05 R5.4). channel_closed + persist: C02 R2.2. Does "
            "not decide the numeric epsilon/fee arithmetic at extremes.",
    "note": "non-permissive policy; Wallet::can_spend / allowlist_contains semantics by name (C08 R8.4 checks can_spend)",
    "technique": "static analysis: must-pass-through on boolean/Result edges + guard scenarios + provenance (argument roles)",
}


CLAIM["text"] += (" (R7.9) restart clause, where the build has a persistence layer: every persisted field of channel entry, node "
                  "state, tracker and monitors is serialised and restored into the same slot (same obligations as C11 R11.2).")

def run(ctx):
    ctx.explanation = CLAIM["text"]
    ctx.not_decided = "numeric epsilon / fee arithmetic at extremes; ClosingTransaction construction inside LDK"
    r71(ctx)
    r72(ctx)
    r73(ctx)
    r74(ctx)
    r75(ctx)
    r76(ctx)
    r_content(ctx)
    r_filter(ctx)
    r_restore(ctx)


def r71(ctx):
    ctx.rule("R7.1", "entry points: closing signature only after Ok(validator); signed tx derives from validated values")
    p = ctx.prog
    b1 = p.fn(f"{CH}::sign_mutual_close_tx")
    v1 = fnview(ctx, b1)
    s1 = R.call_blocks(v1, SIGN_CLOSING)
    ctx.floor("R7.1", "sign site (raw)", len(s1), 1)
    g1 = lambda n: n == f"{VAL}::decode_and_validate_mutual_close_tx"
    R.must_pass_guard(ctx, "R7.1", b1, [(bi, ln) for bi, ln, c in s1], g1, "decode_and_validate_mutual_close_tx",
                      "closing signature (raw entry)", depth=0)
    for bi, ln, c in s1:
        e = v1.expr(c.args[1])
        ctx.ob("R7.1", R.mentions_call(e, "decode_and_validate_mutual_close_tx") and not _uses_param_directly(e, "tx"),
               f"{b1.name}/signs-recomposed", f"raw entry signs `{render(e)[:140]}`, not the validated recomposed transaction",
               where=f"{b1.file}:{ln}", sample="signed tx <- decode_and_validate_mutual_close_tx(..)?")
    for bi, ln, c in R.call_blocks(v1, g1):
        got = [render(peel(v1.expr(a))) for a in c.args[2:]]
        ctx.ob("R7.1", got == ["self.setup", "self.enforcement_state", "tx", "opaths"], f"{b1.name}/validator-args",
               f"decode_and_validate_mutual_close_tx called with {got}", where=f"{b1.file}:{ln}", sample=got)
    # opaths length guard
    R.named_scenario_refused(ctx, "R7.1", b1, ["len(opaths) != len(tx.output)"], f"{b1.name}/opaths-len",
                             "raw entry accepts a path list whose length differs from the outputs",
                             sinks=[(bi, ln) for bi, ln, c in s1])
    b2 = p.fn(f"{CH}::sign_mutual_close_tx_phase2")
    v2 = fnview(ctx, b2)
    s2 = R.call_blocks(v2, SIGN_CLOSING)
    ctx.floor("R7.1", "sign site (semantic)", len(s2), 1)
    g2 = lambda n: n == f"{VAL}::validate_mutual_close_tx"
    R.must_pass_guard(ctx, "R7.1", b2, [(bi, ln) for bi, ln, c in s2], g2, "validate_mutual_close_tx",
                      "closing signature (semantic entry)", depth=0)
    params = ["to_holder_value_sat", "to_counterparty_value_sat", "holder_script", "counterparty_script"]
    for bi, ln, c in R.call_blocks(v2, g2):
        got = [render(peel(v2.expr(a))) for a in c.args[2:]]
        want = ["self.setup", "self.enforcement_state"] + params + ["holder_wallet_path_hint"]
        ctx.ob("R7.1", got == want, f"{b2.name}/validator-args", f"validate_mutual_close_tx called with {got}",
               where=f"{b2.file}:{ln}", sample=got)
    for bi, ln, c in s2:
        e = v2.expr(c.args[1])
        news = [x for x in subexprs(e) if x[0] == "call" and x[1].endswith("ClosingTransaction::new")]
        ok = len(news) >= 1
        if ok:
            a = news[0][2]
            roles = [R.params_mentioned(a[i]) for i in range(4)]
            ok = roles == [[x] for x in params] and render(peel(a[4])).endswith("setup.funding_outpoint")
        ctx.ob("R7.1", ok, f"{b2.name}/signs-validated-values",
               f"semantic entry signs `{render(e)[:200]}`: not ClosingTransaction::new(validated values, setup.funding_outpoint)",
               where=f"{b2.file}:{ln}", sample="ClosingTransaction::new(to_holder, to_counterparty, holder_script, counterparty_script, funding_outpoint)")


def _uses_param_directly(e, name):
    """the expression is the parameter itself (not something computed from it by the validator)"""
    return render(peel(e)) == name


def r72(ctx):
    ctx.rule("R7.2", "validate_mutual_close_tx: no HTLCs, fee, epsilon on the non-paying side, destination, upfront script, "
                     "value needs script")
    p = ctx.prog
    b = p.fn(f"{SV}::validate_mutual_close_tx")
    fv = fnview(ctx, b)
    nv = fv.named()
    succ = R.success_blocks(fv)
    # (a) no pending HTLCs in either current commitment
    seen = set()
    for bi, c in b.calls():
        nm = c.callee.name if c.callee else ""
        if nm.endswith("CommitmentInfo2::htlcs_is_empty"):
            src = render(nv.expr(c.args[0]))
            which = "holder" if "holder_info" in src else ("counterparty" if "counterparty_info" in src else src)
            seen.add(which)
            te = fv.result_edges(bi, c, "ok")
            ok = bool(te) and all(fv.must_pass(sb, te) for sb, _ in succ)
            ctx.ob("R7.2", ok, f"{b.name}/no-htlcs/{which}", f"mutual close accepted although the {which} commitment has pending HTLCs",
                   where=f"{b.file}:{c.line}", sample=f"Ok dominated by {which}_info.htlcs_is_empty()")
    ctx.ob("R7.2", seen == {"holder", "counterparty"}, f"{b.name}/no-htlcs/both", f"HTLC emptiness checked for {sorted(seen)} only",
           where=f"{b.file}:{b.line}", sample=sorted(seen))
    # holder_info / counterparty_info come from the *current* commitment infos
    for nm, fld in (("holder_info", "current_holder_commit_info"), ("counterparty_info", "current_counterparty_commit_info")):
        e = _named_local(nv, nm)
        ok = e is not None and R.mentions_field(e, "EnforcementState", fld)
        ctx.ob("R7.2", ok, f"{b.name}/{nm}-source", f"{nm} is `{render(e)[:100] if e else '?'}` (expected estate.{fld})",
               where=f"{b.file}:{b.line}", sample=f"{nm} <- estate.{fld}")
    # (b) fee
    R.must_pass_guard(ctx, "R7.2", b, succ, lambda n: n == f"{SVT}::validate_fee", "validate_fee", "Ok return", depth=0)
    for bi, ln, c in R.call_blocks(fv, lambda n: n == f"{SVT}::validate_fee"):
        a_in = render(peel(fv.expr(c.args[2])))
        a_out = render(peel(fv.expr(c.args[3])))
        ok = a_in.endswith("setup.channel_value_sat") and a_out.replace(" ", "") in (
            "(to_holder_value_sat+to_counterparty_value_sat)?", "(to_holder_value_sat+to_counterparty_value_sat)",
            "(to_counterparty_value_sat+to_holder_value_sat)?")
        ctx.ob("R7.2", ok, f"{b.name}/fee-operands", f"validate_fee(inputs=`{a_in}`, outputs=`{a_out}`)", where=f"{b.file}:{ln}",
               sample={"inputs": a_in, "outputs": a_out})
    # (c) epsilon comparisons
    want = {
        True: {("to_counterparty_value_sat", "estate.current_counterparty_commit_info?.to_broadcaster_value_sat"),
               ("to_counterparty_value_sat", "estate.current_holder_commit_info?.to_countersigner_value_sat")},
        False: {("to_holder_value_sat", "estate.current_holder_commit_info?.to_broadcaster_value_sat"),
                ("to_holder_value_sat", "estate.current_counterparty_commit_info?.to_countersigner_value_sat")},
    }
    eps_calls = [(bi, c) for bi, c in b.calls() if c.callee and c.callee.name == f"{SVT}::outside_epsilon_range"]
    ctx.floor("R7.2", "outside_epsilon_range calls", len(eps_calls), 4)
    out_cut = atoms.scenario_cut(fv, [atoms.parse_atom("ChannelSetup.is_outbound")])
    in_cut = atoms.scenario_cut(fv, [atoms.parse_atom("!ChannelSetup.is_outbound")])
    ctx.ob("R7.2", bool(out_cut) and bool(in_cut), f"{b.name}/direction-branch", "the branch on setup.is_outbound was not found",
           where=f"{b.file}:{b.line}")
    found = {True: set(), False: set()}
    for bi, c in eps_calls:
        pair = (render(peel(nv.expr(c.args[1]))), render(peel(nv.expr(c.args[2]))))
        te, fe = R.payload_bool_edges(fv, bi, c)
        for outbound, cut in ((True, out_cut), (False, in_cut)):
            if bi not in fv.reach(0, cut_edges=cut):
                continue
            found[outbound].add(pair)
            live = fv.reach(0, cut_edges=cut | fe)
            bad = [s for s in succ if s[0] in live]
            ctx.ob("R7.2", bool(te) and bool(fe) and not bad,
                   f"{b.name}/epsilon/{'outbound' if outbound else 'inbound'}/{pair[1].replace('.', '_')}",
                   f"mutual close accepted although {pair[0]} is outside epsilon of {pair[1]} "
                   f"({'funder' if outbound else 'fundee'} side)", where=f"{b.file}:{c.line}", sample=f"{pair[0]} ~ {pair[1]}")
    for outbound in (True, False):
        ctx.ob("R7.2", found[outbound] == want[outbound], f"{b.name}/epsilon-roles/{'outbound' if outbound else 'inbound'}",
               f"epsilon comparisons for is_outbound={outbound} are {sorted(found[outbound])}, expected {sorted(want[outbound])}",
               where=f"{b.file}:{b.line}", sample=sorted(found[outbound]))
    # outside_epsilon_range: |a - b| > epsilon
    ob = p.fn(f"{SVT}::outside_epsilon_range")
    ov = fnview(ctx, ob, policy=False)
    rets = []
    for bi in ov.live_blocks():
        for s in ob.stmts(bi):
            if s.kind == "a" and s.place.is_local() and s.place.local == 0 and s.rv.op == "agg" and s.rv.ops:
                rets.append(render(ov.expr(s.rv.ops[0])))
    norm = sorted(r.replace("self.policy.", "") for r in rets)
    # |a - b| > epsilon: the two ordered differences, or abs_diff in either operand order
    import re as _re
    okf = norm == ["((value0 - value1) > epsilon_sat)", "((value1 - value0) > epsilon_sat)"] or \
        (bool(norm) and all(_re.match(r"^\([\w:<> ]*abs_diff\((value0, value1|value1, value0)\) > epsilon_sat\)$", r) for r in norm))
    ctx.ob("R7.2", okf, f"{ob.name}/formula", f"outside_epsilon_range returns {rets}", where=f"{ob.file}:{ob.line}", sample=rets)
    R.named_scenario_refused(ctx, "R7.2", ob, ["value0 <= value1"],
                             f"{ob.name}/branch", "outside_epsilon_range subtracts in the wrong direction",
                             sinks=[(bi, 0) for bi in ov.live_blocks() for s in ob.stmts(bi)
                                    if s.kind == "a" and s.rv.op == "bin" and "Sub" in str(s.rv.a) and
                                    render(ov.expr(s.rv.ops[0])) == "value0"], policy=False)
    # (d) destination: can_spend true or allowlist_contains true (when a holder script is present)
    dest_true = set()
    nsite = 0
    for bi, c in b.calls():
        nm = (c.decl.name if c.decl else "") or (c.callee.name if c.callee else "")
        if nm.endswith("Wallet::can_spend"):
            te, fe = R.payload_bool_edges(fv, bi, c)
            dest_true |= te
            nsite += 1
            args = [render(peel(nv.expr(a))) for a in c.args[1:]]
            ctx.ob("R7.2", args[0] == "holder_wallet_path_hint" and "holder_script" in args[1] or args == ["holder_wallet_path_hint", "script"],
                   f"{b.name}/can_spend-args", f"can_spend called with {args}", where=f"{b.file}:{c.line}", sample=args)
        if nm.endswith("Wallet::allowlist_contains"):
            dest_true |= fv.result_edges(bi, c, "ok")
            nsite += 1
    ctx.floor("R7.2", "destination checks (can_spend, allowlist_contains)", nsite, 2)
    none_cut = atoms.scenario_cut(nv, [atoms.parse_atom("holder_script is Some")])
    live = fv.reach(0, cut_edges=none_cut | dest_true)
    bad = [s for s in succ if s[0] in live]
    ctx.ob("R7.2", bool(none_cut) and not bad, f"{b.name}/destination",
           "a mutual close paying the holder to a script that is neither wallet-spendable nor allowlisted at signing time "
           "can be accepted", where=f"{b.file}:{bad[0][1] if bad else b.line}",
           detail={"path_lines": fv.lines_of_path(fv.path(0, bad[0][0], cut_edges=none_cut | dest_true)) if bad else None},
           sample="holder_script is Some: Ok dominated by can_spend==true or allowlist_contains==true")
    # (e) upfront shutdown script
    sites = R.comparison_sites(fv, lambda a, c: "holder_script" in a and "holder_shutdown_script" in c)
    ctx.ob("R7.2", len(sites) == 1, f"{b.name}/upfront-comparison", f"upfront script comparison sites: {len(sites)}", where=f"{b.file}:{b.line}")
    up_cut = atoms.scenario_cut(nv, [atoms.parse_atom("`std::option::Option::<T>::is_some(setup.holder_shutdown_script)`"),
                                     atoms.parse_atom("to_holder_value_sat > 0")])
    for bi, c, is_ne, r0, r1 in sites:
        equal_edges = fv.result_edges(bi, c, "err" if is_ne else "ok")
        live = fv.reach(0, cut_edges=up_cut | equal_edges)
        bad = [s for s in succ if s[0] in live]
        ctx.ob("R7.2", bool(up_cut) and not bad, f"{b.name}/upfront-script",
               "with an upfront shutdown script and a positive holder value, a different holder script is accepted",
               where=f"{b.file}:{c.line}", sample="holder_script != upfront -> error")
    # (f) positive value needs a script
    for val, scr in (("to_holder_value_sat", "holder_script"), ("to_counterparty_value_sat", "counterparty_script")):
        R.named_scenario_refused(ctx, "R7.2", b, [f"{val} > 0", f"`std::option::Option::<T>::is_none({scr})`"],
                                 f"{b.name}/value-needs-script/{scr}", f"{val} > 0 accepted without {scr}")


def _named_local(fv, name):
    b = fv.b
    for l in range(len(b.local_tys)):
        if b.local_name(l) == name:
            e = fv.local_expr(l)
            return e[2] if e[0] == "let" else e
    return None


def r73(ctx):
    ctx.rule("R7.3", "decode_and_validate_mutual_close_tx: <= 2 outputs; Ok only via Ok of one validation attempt; closing tx "
                     "built from the successful attempt; recomposed != supplied is a refusal")
    p = ctx.prog
    b = p.fn(f"{SV}::decode_and_validate_mutual_close_tx")
    fv = fnview(ctx, b)
    nv = fv.named()
    succ = R.success_blocks(fv)
    R.named_scenario_refused(ctx, "R7.3", b, ["len(tx.output) > 2"], f"{b.name}/max-two-outputs",
                             "a closing transaction with more than two outputs is accepted")
    calls = [(bi, c) for bi, c in b.calls() if c.callee and c.callee.name == f"{SV}::validate_mutual_close_tx"]
    ctx.ob("R7.3", len(calls) == 2, f"{b.name}/two-attempts", f"{len(calls)} validation attempts found (expected 2)", where=f"{b.file}:{b.line}")
    if len(calls) == 2:
        a, b2_ = calls
        calls = [a, b2_] if fv.reaches(a[0], b2_[0]) else [b2_, a]
    edges, srcs = {}, {}
    flds = ["to_holder_value_sat", "to_counterparty_value_sat", "holder_script", "counterparty_script", "wallet_path"]
    for which, (bi, c) in zip(("likely", "unlikely"), calls):
        edges[which] = fv.result_edges(bi, c, "ok")
        args = [render(fv.expr(a)) for a in c.args[4:9]]
        bases = {a.rsplit(".", 1)[0] for a in args}
        ok = len(bases) == 1 and [a.rsplit(".", 1)[-1] for a in args] == flds
        srcs[which] = next(iter(bases)) if len(bases) == 1 else None
        ctx.ob("R7.3", ok, f"{b.name}/{which}-attempt-args", f"{which} attempt validates {args}: not the five fields of one candidate",
               where=f"{b.file}:{c.line}", sample=args)
    if len(calls) == 2:
        first_err = fv.result_edges(calls[0][0], calls[0][1], "err")
        ctx.ob("R7.3", fv.must_pass(calls[1][0], first_err) and bool(first_err), f"{b.name}/second-attempt-only-after-failure",
               "the second assignment is tried although the first validated", where=f"{b.file}:{calls[1][1].line}")
        ctx.ob("R7.3", srcs.get("likely") != srcs.get("unlikely"), f"{b.name}/two-distinct-candidates",
               f"both attempts validate the same candidate {srcs}", where=f"{b.file}:{b.line}", sample=srcs)
    alle = set().union(*edges.values()) if edges else set()
    for sb, ln in succ:
        ctx.ob("R7.3", fv.must_pass(sb, alle) and bool(alle), f"{b.name}/ok-needs-validation",
               "decode_and_validate_mutual_close_tx can succeed without a successful validate_mutual_close_tx",
               where=f"{b.file}:{ln}", sample="Ok dominated by Ok(likely) or Ok(unlikely)")
    # good_args provenance: assigned from candidate X only after Ok of the attempt that validated X
    for l in range(len(b.local_tys)):
        if b.local_name(l) != "good_args":
            continue
        for (bi, idx, obj) in fv.defs.get(l, []):
            if idx == "T" or obj.kind != "a" or not obj.rv.ops or obj.rv.ops[0].place is None:
                continue
            src = render(fv.expr(obj.rv.ops[0]))
            which = next((w for w, s_ in srcs.items() if s_ == src), None)
            ok = which is not None and fv.must_pass(bi, edges.get(which, set())) and bool(edges.get(which))
            ctx.ob("R7.3", ok, f"{b.name}/good-args/{which or src}", f"good_args is taken from `{src}` without that candidate having been validated",
                   where=f"{b.file}:{obj.line}", sample=f"good_args <- {which} candidate after Ok({which})")
    # the closing tx is built from good_args + setup.funding_outpoint
    for bi, c in b.calls():
        if c.callee and c.callee.name.endswith("ClosingTransaction::new") and bi in fv.live_blocks():
            args = [render(nv.expr(a)) for a in c.args]
            if not any("good_args" in a for a in args):
                continue
            flds = ["to_holder_value_sat", "to_counterparty_value_sat", "holder_script", "counterparty_script"]
            ok = all(f"good_args.{f}" in a for a, f in zip(args, flds)) and args[4].endswith("setup.funding_outpoint")
            ctx.ob("R7.3", ok, f"{b.name}/closing-tx-args", f"closing tx built from {args}", where=f"{b.file}:{c.line}", sample=args)
    R.mismatch_refused(ctx, "R7.3", b, lambda a, c: "built_transaction" in a and (c == "tx" or c.endswith("tx")),
                       f"{b.name}/byte-for-byte", "recomposed closing tx vs supplied tx")
    # both commitment infos must exist
    for f in ("current_holder_commit_info", "current_counterparty_commit_info"):
        R.named_scenario_refused(ctx, "R7.3", b, [f"`std::option::Option::<T>::is_none(estate.{f})`"],
                                 f"{b.name}/needs/{f}", f"mutual close accepted without {f}")


def r74(ctx):
    ctx.rule("R7.4", "\"afterwards the channel is marked closed\": both mutual-close entry points set channel_closed on every "
                     "Ok path, persist, and set the flag before the persist call (same obligations as C02 R2.2 for the closers)")
    from rules import C02 as _c02
    _c02.closed_flag_rule(ctx, "R7.4", list(_c02.CLOSERS))


# ------------------------------------------------------------------ R7.5
# which request field feeds which stored ChannelSetup field (by field name of the SetupChannel request)
SETUP_FIELDS = {"is_outbound", "channel_value", "push_value", "funding_txid", "funding_txout", "to_self_delay",
                "remote_to_self_delay", "local_shutdown_script", "remote_shutdown_script", "remote_basepoints",
                "remote_funding_pubkey", "channel_type"}
SCRIPT_ROLES = {"holder_shutdown_script": {"local_shutdown_script"}, "counterparty_shutdown_script": {"remote_shutdown_script"}}
DELAY_ROLES = {"holder_selected_contest_delay": {"to_self_delay"}, "counterparty_selected_contest_delay": {"remote_to_self_delay"}}


def _request_fields(rendered):
    import re
    return {t for t in re.findall(r"\.(\w+)", rendered) if t in SETUP_FIELDS}


def setup_roles(ctx, rid, roles, why):
    p = ctx.prog
    sites = 0
    # every construction of a ChannelSetup in the protocol signer (today: the SetupChannel arm of ChannelHandler::do_handle)
    for b, bi, si, st in R.constructions(p, "lightning_signer::channel::ChannelSetup"):
        if b.d.krate != "vls_protocol_signer" or R.is_test_util(b.name):
            continue
        ctx.touch(b)
        fv = fnview(ctx, b)
        if bi not in fv.live_blocks():
            continue
        sites += 1
        for f, o in zip(st.rv.a[3], st.rv.ops):
            if f not in roles:
                continue
            want = roles[f]
            root, defs, sw = R.conditional_defs(fv, o)
            vals = set()
            for _, ops in defs:
                for e in ops:
                    vals |= _request_fields(render(e))
            conds = set()
            for _, e in sw:
                conds |= _request_fields(render(e))
            ctx.ob(rid, vals == want, f"{b.name}/ChannelSetup.{f}/value",
                   f"ChannelSetup.{f} is built from the request's {sorted(vals) or 'nothing'} (expected {sorted(want)}): {why}",
                   where=f"{b.file}:{st.line}", sample=f"{f} <- {sorted(want)}")
            ctx.ob(rid, conds <= want and (bool(sw) or len(defs) == 1), f"{b.name}/ChannelSetup.{f}/presence",
                   f"which value ChannelSetup.{f} takes is decided by the request's {sorted(conds)} (expected a test of "
                   f"{sorted(want)} only): {why}", where=f"{b.file}:{st.line}", sample=f"presence of {f} <- {sorted(want)}")
    ctx.floor(rid, "ChannelSetup constructions in the protocol signer", sites, 1)


def r75(ctx):
    ctx.rule("R7.5", "the handler stores the request's own (local) upfront shutdown script as the holder's: value and "
                     "presence of ChannelSetup.holder_shutdown_script come from local_shutdown_script only")
    setup_roles(ctx, "R7.5", SCRIPT_ROLES, "a script the node fixed can be dropped, replaced or invented")


def r76(ctx):
    ctx.rule("R7.6", "the channel's funding outpoint is fixed once set: ChannelSetup.funding_outpoint is written only while "
                     "it is null (MultiSigner::additional_setup), so the closing transaction always spends the outpoint "
                     "the channel was set up with")
    p = ctx.prog
    ALLOWED = {"lightning_signer::signer::multi_signer::MultiSigner::additional_setup": "fills an outpoint that is still null"}
    ws = R.who_may_write(ctx, "R7.6", "ChannelSetup", "funding_outpoint", ALLOWED, floor=1, skip=R.is_test_util)
    for b, bi, idx, obj in ws:
        on = R.owner_name(p, b)
        if on not in ALLOWED or (b.mac and "derive" in b.mac):
            continue
        fv = fnview(ctx, b, policy=False)
        te = set()
        for cbi, c in b.calls():
            if c.callee is not None and c.callee.name.endswith("OutPoint::is_null") and \
               render(fv.expr(c.args[0])).endswith("setup.funding_outpoint"):
                te |= fv.result_edges(cbi, c, "ok")
        reach = bi in fv.reach(0, cut_edges=te)
        ctx.ob("R7.6", bool(te) and not reach, f"{on}/funding-outpoint-only-while-null",
               f"`{on}` can overwrite a funding outpoint that is already set (line {obj.line}): the channel is re-pointed and "
               "a later mutual close is signed for a transaction spending another outpoint",
               where=f"{b.file}:{obj.line}", sample="write dominated by funding_outpoint.is_null() == true")


def r_content(ctx):
    """validate_mutual_close_tx reads `no HTLC is pending` from the recorded commitment infos; an HTLC dropped while they
    are built makes a channel with a pending HTLC look closable"""
    from rules import C04 as _c04
    ctx.rule("R7.7", "the commitment content that is validated and recorded is the content the caller supplied: the info "
                     "builders forward balances, both HTLC lists and the feerate unmodified and CommitmentInfo2::new only sorts "
                     "(same obligations as the first part of C04 R4.3)")
    _c04.content_passthrough(ctx, rid="R7.7")


def r_filter(ctx):
    """every guard of this property refuses through policy_err!; which tags are demoted to warnings is decided by
    PolicyFilter::filter.  Same obligations as C05 R5.4 (first matching rule decides with its own action, default Error,
    Err unless Warn), evaluated here because an operator's `error` pin on this property's tags depends on them."""
    from rules import C05 as _c05
    _c05.r54(ctx, rid="R7.8")


def r_restore(ctx):
    from rules import C11 as _c11
    _c11.shared_restore(ctx, "R7.9", "the upfront shutdown script fixed at setup, the recorded commitment contents and the closed flag are what a restarted signer validates a close against.")

"""C03 — counterparty commitments advance only over properly revoked predecessors."""
from engine import rulelib as R
from engine.rulelib import fnview
from engine.cfg import render, strip_ref, subexprs
from engine import atoms

CRATES = None
LS = "lightning_signer::"
CH = LS + "channel::Channel"
ES = LS + "policy::validator::EnforcementState"
VAL = LS + "policy::validator::Validator"
SV = f"<{LS}policy::simple_validator::SimpleValidator as {VAL}>"
OV = f"<{LS}policy::onchain_validator::OnchainValidator as {VAL}>"
CCS = LS + "policy::validator::CounterpartyCommitmentSecrets"

CLAIM = {
    "text": "Decides on all MIR paths: (R3.1) the counterparty counters and points have only the two checked "
            "EnforcementState setters as writers, reachable only through the Validator default methods from the "
            "three Channel entry points; (R3.2) both signing entry points reach LDK's counterparty signing and "
            "every Ok return only after Ok of validate_channel_value, validate_counterparty_commitment_tx, "
            "validate_payments, and reach Ok only after Ok(set_next_counterparty_commit_num) and Ok(persist), with "
            "the advance to n+1 for the validated n and point; (R3.3) the window scenarios are refused: "
            "n > revoke+1; retry with changed point or changed info; setter num < revoke+delta, num outside "
            "{cur,cur+1}; revoke setter num+2 < commit, num+1 > commit, num outside {cur,cur+1}; (R3.4) the "
            "revocation validator refuses numbers outside {revoke, revoke-1}, a missing or unequal point, and "
            "compares the point derived from the supplied secret with get_previous_counterparty_point(revoke_num); "
            "(R3.5) Channel::validate_counterparty_revocation advances and persists only after Ok of validator and "
            "of provide_secret; (R3.6) provide_secret writes old_secrets only after the chain comparison loop; "
            "(R3.7) the setter keeps the two point slots aligned with the numbers: previous <- current exactly on "
            "num == next+1 (every path), never on a retry (num == next), previous <- None on a jump, current <- "
            "Some(new point) whenever the number grows, next <- num. "
            "(R3.8/R3.9) restart clause: every acknowledged change of the channel's enforcement state is persisted before the success return and every persisted field is restored into the same slot, the restored EnforcementState installed unmodified (same obligations as C11 R11.1 for the channel class and C11 R11.2). (R3.10) refusals are real refusals under every filter configuration: PolicyFilter::filter lets the first matching rule decide with that rule's own action and defaults to Error, and a policy error becomes Ok only when the filter says Warn (same obligations as C05 R5.4). (R3.11) the on-disk store commits every write with immediate durability (C11 R11.6): an acknowledged signature's counter cannot be rolled back by a crash. Does not decide the hash arithmetic of the 49-slot store (derive_secret/place_secret).",
    "note": "non-permissive policy; rustc MIR; one live object per typed path; secp256k1 from_secret_key by name",
    "technique": "static analysis: MIR who-may-write/call + must-pass-through + guard-scenario entailment + provenance",
}

COUNTERS = ["next_counterparty_commit_num", "next_counterparty_revoke_num", "current_counterparty_point",
            "previous_counterparty_point", "current_counterparty_commit_info", "previous_counterparty_commit_info"]

SIGN_CP = lambda n: n.endswith("::sign_counterparty_commitment")
ENTRY = [f"{CH}::sign_counterparty_commitment_tx", f"{CH}::sign_counterparty_commitment_tx_phase2"]


def run(ctx):
    ctx.explanation = CLAIM["text"]
    ctx.not_decided = "hash arithmetic of CounterpartyCommitmentSecrets (derive_secret/place_secret); values of secrets"
    ctx.assumptions += ["policy is non-permissive (DESIGN §3.1)", "PublicKey::from_secret_key trusted by name"]
    r31(ctx)
    r32(ctx)
    r33(ctx)
    r34(ctx)
    r35(ctx)
    r36(ctx)
    r37(ctx)
    r_restart(ctx)
    r_filter(ctx)
    r_durable(ctx)


def r31(ctx):
    ctx.rule("R3.1", "who-may-write the counterparty counters/points; who-may-call their setters")
    setters = {
        f"{ES}::set_next_counterparty_commit_num": "checked setter (R3.3)",
        f"{ES}::set_next_counterparty_revoke_num": "checked setter (R3.3)",
        f"{ES}::set_next_counterparty_commit_num_for_testing": "test utility",
        f"{ES}::set_next_counterparty_revoke_num_for_testing": "test utility",
    }
    for f in COUNTERS:
        R.who_may_write(ctx, "R3.1", "EnforcementState", f, setters, floor=1,
                        borrows_allowed={f"{ES}::set_next_counterparty_commit_num": "take() of current info"})
    R.who_may_call(ctx, "R3.1", lambda n: n == f"{ES}::set_next_counterparty_commit_num",
                   {f"{VAL}::set_next_counterparty_commit_num": "validator default method (window checks)"},
                   "EnforcementState::set_next_counterparty_commit_num", floor=1)
    R.who_may_call(ctx, "R3.1", lambda n: n == f"{ES}::set_next_counterparty_revoke_num",
                   {f"{VAL}::set_next_counterparty_revoke_num": "validator default method (window checks)"},
                   "EnforcementState::set_next_counterparty_revoke_num", floor=1)
    R.who_may_call(ctx, "R3.1", lambda n: n == f"{VAL}::set_next_counterparty_commit_num",
                   {ENTRY[0]: "signing entry (raw)", ENTRY[1]: "signing entry (semantic)",
                    f"{OV}::set_next_counterparty_commit_num": "delegating wrapper"},
                   "Validator::set_next_counterparty_commit_num", floor=2)
    R.who_may_call(ctx, "R3.1", lambda n: n == f"{VAL}::set_next_counterparty_revoke_num",
                   {f"{CH}::validate_counterparty_revocation": "revocation entry",
                    f"{OV}::set_next_counterparty_revoke_num": "delegating wrapper"},
                   "Validator::set_next_counterparty_revoke_num", floor=1)
    for b, bi, c in R.call_sites(ctx.prog, lambda n: "set_next_counterparty_" in n and n.endswith("_for_testing")):
        on = R.owner_name(ctx.prog, b)
        ctx.ob("R3.1", R.is_test_util(on), f"{on}/calls/test-setter",
               f"non-test function `{on}` calls a test-only counterparty counter setter", where=f"{b.file}:{c.line}")
    # the trait default methods are not overridden except by the delegating wrapper / null validator
    for m in ("set_next_counterparty_commit_num", "set_next_counterparty_revoke_num"):
        b = ctx.prog.fn(f"{VAL}::{m}")
        for im, d in ctx.prog.impl_of.get(b.d.id, []):
            ok = d.id == b.d.id or "OnchainValidator" in d.name or "null_validator" in d.name
            ctx.ob("R3.1", ok, f"{d.name}/overrides/{m}", f"`{d.name}` overrides the window-checking default method",
                   where=d.loc)


def r32(ctx):
    ctx.rule("R3.2", "both signing entry points: LDK counterparty signing and every Ok return only after Ok of the "
                     "validators; Ok return only after Ok(set_next_counterparty_commit_num) and Ok(persist); "
                     "advance is to n+1 with the validated point")
    guards_before_sign = [
        (lambda n: n == f"{VAL}::validate_channel_value", "Validator::validate_channel_value"),
        (lambda n: n == f"{VAL}::validate_counterparty_commitment_tx", "Validator::validate_counterparty_commitment_tx"),
    ]
    guards_before_ok = guards_before_sign + [
        (lambda n: n == LS + "node::NodeState::validate_payments", "NodeState::validate_payments"),
        (lambda n: n == f"{VAL}::set_next_counterparty_commit_num", "Validator::set_next_counterparty_commit_num"),
        (lambda n: n == f"{CH}::persist", "Channel::persist"),
    ]
    seqs = {}
    for fn in ENTRY:
        b = ctx.prog.fn(fn)
        fv = fnview(ctx, b)
        signs = [(bi, ln) for bi, ln, c in R.call_blocks_deep(ctx, fv, SIGN_CP)]
        ctx.floor("R3.2", f"LDK sign_counterparty_commitment site in {fn}", len(signs), 1)
        for pred, nm in guards_before_sign:
            R.must_pass_guard(ctx, "R3.2", b, signs, pred, nm, "counterparty commitment signature")
        for pred, nm in guards_before_ok:
            R.must_pass_guard(ctx, "R3.2", b, R.success_blocks(fv), pred, nm, "Ok(signature) return")
        # advance argument: n + 1 and the point that was validated
        for bi, ln, c in R.call_blocks(fv, lambda n: n == f"{VAL}::set_next_counterparty_commit_num"):
            num = strip_ref(fv.expr(c.args[2]))
            vcall = R.call_blocks(fv, lambda n: n == f"{VAL}::validate_counterparty_commitment_tx")
            vnum = render(strip_ref(fv.expr(vcall[0][2].args[2]))) if vcall else None
            vpt = render(strip_ref(fv.expr(vcall[0][2].args[3]))) if vcall else None
            lin = atoms.linear(num)
            items = list(lin[0].items())
            direct = lin[1] == 1 and len(items) == 1 and items[0][1] == 1 and items[0][0][0] == vnum
            # phase 1 reads the number back from the recomposed tx: INITIAL - commitment_number(tx) + 1 where tx was
            # built by make_counterparty_commitment_tx(self, point, n, ..) (the builder stores INITIAL - n: C18 R18.4)
            mk = [x for x in subexprs(num) if x[0] == "call" and x[1].endswith("Channel::make_counterparty_commitment_tx")]
            via_tx = (lin[1] == (1 << 48) and len(items) == 1 and items[0][1] == -1 and
                      "CommitmentTransaction::commitment_number(" in items[0][0][0] and
                      mk and all(render(strip_ref(m[2][2])) == vnum for m in mk))
            ctx.ob("R3.2", direct or via_tx, f"{fn}/advance/num",
                   f"`{fn}` advances to `{render(num)[:200]}` (expected validated `{vnum}` + 1)",
                   where=f"{b.file}:{ln}", sample="n+1 of the validated n" + (" (read back from the recomposed tx)" if via_tx else ""))
            pte = strip_ref(fv.expr(c.args[3]))
            pt = render(pte)
            mkp = [x for x in subexprs(pte) if x[0] == "call" and x[1].endswith("Channel::make_counterparty_commitment_tx")]
            ok3 = pt == vpt or ("per_commitment_point" in pt and mkp and
                                all(render(strip_ref(m[2][1])) == vpt for m in mkp))
            ctx.ob("R3.2", ok3, f"{fn}/advance/point-is-validated",
                   f"`{fn}` records point `{pt[:160]}` but validated `{vpt}`", where=f"{b.file}:{ln}",
                   sample="recorded point == validated point")
        seqs[fn] = [nm for pred, nm in guards_before_ok if R.guard_edges(ctx, fv, pred, 2)]
    ctx.ob("R3.2", seqs[ENTRY[0]] == seqs[ENTRY[1]], "entry-points/guard-agreement",
           f"raw and semantic entry points apply different guard sets: {seqs}", where="vls-core/src/channel.rs",
           sample=seqs[ENTRY[0]])


def r33(ctx):
    ctx.rule("R3.3", "window scenarios are refused by SimpleValidator::validate_counterparty_commitment_tx and by the "
                     "Validator counter setters")
    b = ctx.prog.fn(f"{SV}::validate_counterparty_commitment_tx")
    fv = fnview(ctx, b)
    succ = R.success_blocks(fv)
    R.scenario_refused(ctx, "R3.3", b, ["commit_num > EnforcementState.next_counterparty_revoke_num + 1"], succ,
                       key=f"{b.name}/too-far-ahead",
                       what="validate_counterparty_commitment_tx accepts commit_num > next_counterparty_revoke_num + 1 "
                            "(a third unrevoked counterparty commitment would be signed)")
    R.scenario_refused(ctx, "R3.3", b,
                       ["commit_num + 1 == EnforcementState.next_counterparty_commit_num",
                        "commitment_point != EnforcementState.current_counterparty_point?"],
                       succ, key=f"{b.name}/retry-changed-point",
                       what="a retry (commit_num + 1 == next_counterparty_commit_num) with a different per-commitment "
                            "point is accepted", depth=0)
    R.scenario_refused(ctx, "R3.3", b,
                       ["commit_num + 1 == EnforcementState.next_counterparty_commit_num",
                        "EnforcementState.current_counterparty_point is None"],
                       succ, key=f"{b.name}/retry-no-point",
                       what="a retry with no recorded point is accepted", depth=0)
    R.scenario_refused(ctx, "R3.3", b,
                       ["commit_num + 1 == EnforcementState.next_counterparty_commit_num",
                        "info-changed"],
                       succ, key=f"{b.name}/retry-changed-info",
                       what="a retry with different commitment content is accepted", depth=0,
                       extra_cut=_info_eq_cut(ctx, fv))
    # setters (Validator default methods): sinks = the call of the raw setter
    s1 = ctx.prog.fn(f"{VAL}::set_next_counterparty_commit_num")
    f1 = fnview(ctx, s1)
    sink1 = [(bi, ln) for bi, ln, c in R.call_blocks(f1, lambda n: n == f"{ES}::set_next_counterparty_commit_num")]
    ctx.floor("R3.3", "raw setter call in Validator::set_next_counterparty_commit_num", len(sink1), 1)
    for scen, nm in (
        (["num == 0"], "zero"),
        (["num >= 2", "num < EnforcementState.next_counterparty_revoke_num + 2"], "previous-not-revoked"),
        (["num == 1", "num < EnforcementState.next_counterparty_revoke_num + 1"], "initial-behind-revoke"),
        (["num > EnforcementState.next_counterparty_commit_num + 1"], "skip-ahead"),
        (["num < EnforcementState.next_counterparty_commit_num"], "backwards"),
    ):
        R.scenario_refused(ctx, "R3.3", s1, scen, sink1, key=f"{s1.name}/{nm}",
                           what=f"Validator::set_next_counterparty_commit_num reaches the setter in scenario {scen}",
                           depth=0)
    s2 = ctx.prog.fn(f"{VAL}::set_next_counterparty_revoke_num")
    f2 = fnview(ctx, s2)
    sink2 = [(bi, ln) for bi, ln, c in R.call_blocks(f2, lambda n: n == f"{ES}::set_next_counterparty_revoke_num")]
    ctx.floor("R3.3", "raw setter call in Validator::set_next_counterparty_revoke_num", len(sink2), 1)
    for scen, nm in (
        (["num == 0"], "zero"),
        (["num + 2 < EnforcementState.next_counterparty_commit_num"], "too-small"),
        (["num + 1 > EnforcementState.next_counterparty_commit_num"], "beyond-signed"),
        (["num > EnforcementState.next_counterparty_revoke_num + 1"], "skip-ahead"),
        (["num < EnforcementState.next_counterparty_revoke_num"], "backwards"),
    ):
        R.scenario_refused(ctx, "R3.3", s2, scen, sink2, key=f"{s2.name}/{nm}",
                           what=f"Validator::set_next_counterparty_revoke_num reaches the setter in scenario {scen}",
                           depth=0)


def _info_eq_cut(ctx, fv):
    """edges taken when `Some(info2) != prev_commit_info` is FALSE (i.e. info unchanged): in the scenario
    'info changed' those are infeasible.  The comparison is a PartialEq::ne call on Option<&CommitmentInfo2>."""
    cut = set()
    n = 0
    for bi, c in fv.b.calls():
        nm = c.callee.name if c.callee else ""
        if "cmp::PartialEq" in nm and (nm.endswith("::ne") or nm.endswith("::eq")):
            a0 = render(fv.expr(c.args[0]))
            a1 = render(fv.expr(c.args[1]))
            if "info2" in a0 and "get_previous_counterparty_commit_info" in a1 or \
               "info2" in a1 and "get_previous_counterparty_commit_info" in a0:
                n += 1
                want = "err" if nm.endswith("::ne") else "ok"   # ne()==false / eq()==true  <=> unchanged
                cut |= fv.result_edges(bi, c, want)
    # the retried content must be compared as a whole value (every field of CommitmentInfo2: balances, both HTLC
    # lists, feerate, delay, keys); a comparison narrowed to some of the fields lets the rest change on a retry
    ctx.ob("R3.3", n >= 1, f"{fv.b.name}/retry-content-compared-whole",
           "the retry branch of validate_counterparty_commitment_tx no longer compares the whole CommitmentInfo2 with "
           "get_previous_counterparty_commit_info(commit_num) (PartialEq on the value): a retry of an already signed "
           "number can change the fields left out of the comparison",
           where=f"{fv.b.file}:{fv.b.line}", sample=f"{n} whole-value comparison(s)")
    # and that equality is the derived one (all fields): a hand-written PartialEq could leave fields out
    eq = [d for nm, dl in ctx.prog.by_name.items() if nm.endswith("CommitmentInfo2 as std::cmp::PartialEq>::eq") for d in dl]
    for d in eq:
        eb = ctx.prog.bodies.get(d.id) if hasattr(d, "id") else None
        mac = getattr(eb, "mac", None) if eb else None
        ctx.ob("R3.3", eb is None or (mac is not None and "derive" in mac), "CommitmentInfo2/PartialEq-derived",
               "CommitmentInfo2's PartialEq is hand-written: the retry comparison may no longer cover every field",
               where=(f"{eb.file}:{eb.line}" if eb else ""), sample=f"macro {mac}")
    return cut


def r34(ctx):
    ctx.rule("R3.4", "SimpleValidator::validate_counterparty_revocation: window, point derived from the supplied "
                     "secret compared with get_previous_counterparty_point(revoke_num); None and != are refusals")
    b = ctx.prog.fn(f"{SV}::validate_counterparty_revocation")
    fv = fnview(ctx, b)
    succ = R.success_blocks(fv)
    R.scenario_refused(ctx, "R3.4", b, ["revoke_num > EnforcementState.next_counterparty_revoke_num"], succ,
                       key=f"{b.name}/future", what="a revocation beyond next_counterparty_revoke_num is accepted", depth=0)
    R.scenario_refused(ctx, "R3.4", b, ["revoke_num + 1 < EnforcementState.next_counterparty_revoke_num"], succ,
                       key=f"{b.name}/stale", what="a revocation older than next_counterparty_revoke_num - 1 is accepted",
                       depth=0)
    # the comparison: exactly one point comparison whose operands are from_secret_key(secret) and
    # get_previous_counterparty_point(revoke_num); Ok unreachable when it reports inequality or None
    cmpsites = []
    for bi, c in fv.b.calls():
        nm = c.callee.name if c.callee else ""
        if "cmp::PartialEq" in nm and (nm.endswith("::ne") or nm.endswith("::eq")):
            a0, a1 = fv.expr(c.args[0]), fv.expr(c.args[1])
            r0, r1 = render(a0), render(a1)
            if "from_secret_key" in r0 + r1:
                cmpsites.append((bi, c, r0, r1))
    ctx.ob("R3.4", len(cmpsites) >= 1, f"{b.name}/point-comparison-present",
           "validate_counterparty_revocation no longer compares the point derived from the supplied secret",
           where=f"{b.file}:{b.line}", sample=f"{len(cmpsites)} comparison(s)")
    for bi, c, r0, r1 in cmpsites:
        both = r0 + " | " + r1
        ok = "from_secret_key" in both and "commitment_secret" in both and \
            "get_previous_counterparty_point" in both and "revoke_num" in both
        ctx.ob("R3.4", ok, f"{b.name}/point-comparison-operands",
               f"revocation point comparison has unexpected operands: {both[:300]}", where=f"{b.file}:{c.line}",
               sample=both[:200])
        nm = c.callee.name
        mismatch_edges = fv.result_edges(bi, c, "ok" if nm.endswith("::ne") else "err")
        # under 'mismatch' only mismatch_edges are feasible -> cut the others
        other = fv.result_edges(bi, c, "err" if nm.endswith("::ne") else "ok")
        live = fv.reach(0, cut_edges=other)
        bad = [s for s in succ if s[0] in live]
        ctx.ob("R3.4", not bad, f"{b.name}/mismatch-refused",
               "validate_counterparty_revocation can return Ok although the secret's point differs from the signed point",
               where=f"{b.file}:{c.line}", sample="Ok unreachable on the != edge")
    # None previous point refused
    R.scenario_refused(ctx, "R3.4", b, ["EnforcementState::get_previous_counterparty_point(state, revoke_num) is None"],
                       succ, key=f"{b.name}/none-refused",
                       what="validate_counterparty_revocation accepts when no point is recorded for revoke_num", depth=0)
    # get_previous_counterparty_point maps num -> the right slot
    g = ctx.prog.fn(f"{ES}::get_previous_counterparty_point")
    gv = fnview(ctx, g)
    for r in gv.return_sites():
        pass
    _slot_rule(ctx, g, "get_previous_counterparty_point", "current_counterparty_point", "previous_counterparty_point")
    g2 = ctx.prog.fn(f"{ES}::get_previous_counterparty_commit_info")
    _slot_rule(ctx, g2, "get_previous_counterparty_commit_info", "current_counterparty_commit_info",
               "previous_counterparty_commit_info")


def _slot_rule(ctx, g, nm, cur, prev):
    """num+1 == next_commit -> current slot ; num+2 == next_commit -> previous slot ; else None"""
    gv = fnview(ctx, g)
    sites = gv.return_sites()
    got = {}
    for r in sites:
        e = None
        if "stmt" in r:
            s = r["stmt"]
            e = render(gv.expr(s.rv.ops[0])) if s.rv.ops else r["how"]
        elif "call" in r:
            e = render(gv.expr(r["call"].args[0])) if r["call"].args else r["how"]
        got[r["block"]] = (e or r["how"], r)
    for scen, field, label in (
        (["num + 1 == EnforcementState.next_counterparty_commit_num"], cur, "current"),
        (["num + 2 == EnforcementState.next_counterparty_commit_num"], prev, "previous"),
    ):
        assum = [atoms.parse_atom(a) for a in scen]
        cut = atoms.scenario_cut(gv, assum)
        live = gv.reach(0, cut_edges=cut)
        vals = [v[0] for blk, v in got.items() if blk in live]
        ok = len(vals) == 1 and field in vals[0]
        ctx.ob("R3.4", ok, f"{g.name}/slot/{label}",
               f"`{nm}` returns {vals} in scenario {scen}; expected the `{field}` slot", where=f"{g.file}:{g.line}",
               sample=f"{scen[0]} -> {field}")
    assum = [atoms.parse_atom("num + 1 != EnforcementState.next_counterparty_commit_num"),
             atoms.parse_atom("num + 2 != EnforcementState.next_counterparty_commit_num")]
    cut = atoms.scenario_cut(gv, assum)
    live = gv.reach(0, cut_edges=cut)
    vals = [v for blk, v in got.items() if blk in live]
    ok = all(v[1]["kind"] == "none" or "None" in v[0] for v in vals) and vals
    ctx.ob("R3.4", ok, f"{g.name}/slot/none", f"`{nm}` returns {[v[0] for v in vals]} outside the two-slot window",
           where=f"{g.file}:{g.line}", sample="otherwise -> None")


def r35(ctx):
    ctx.rule("R3.5", "Channel::validate_counterparty_revocation: counter advance, persist and Ok only after Ok of the "
                     "validator and (when a secret store exists) of provide_secret; advance is to revoke_num + 1")
    b = ctx.prog.fn(f"{CH}::validate_counterparty_revocation")
    fv = fnview(ctx, b)
    adv = [(bi, ln) for bi, ln, c in R.call_blocks(fv, lambda n: n == f"{VAL}::set_next_counterparty_revoke_num")]
    ctx.floor("R3.5", "advance call", len(adv), 1)
    vpred = lambda n: n == f"{VAL}::validate_counterparty_revocation"
    R.must_pass_guard(ctx, "R3.5", b, adv, vpred, "Validator::validate_counterparty_revocation", "revoke-counter advance")
    R.must_pass_guard(ctx, "R3.5", b, R.success_blocks(fv), vpred, "Validator::validate_counterparty_revocation", "Ok return")
    R.must_pass_guard(ctx, "R3.5", b, R.success_blocks(fv), lambda n: n == f"{VAL}::set_next_counterparty_revoke_num",
                      "Validator::set_next_counterparty_revoke_num", "Ok return")
    R.must_pass_guard(ctx, "R3.5", b, R.success_blocks(fv), lambda n: n == f"{CH}::persist", "Channel::persist", "Ok return")
    for bi, ln, c in R.call_blocks(fv, lambda n: n == f"{VAL}::set_next_counterparty_revoke_num"):
        e = strip_ref(fv.expr(c.args[2]))
        lin = atoms.linear(e)
        ok = lin[1] == 1 and [s[0] for s in lin[0]] == ["revoke_num"] and list(lin[0].values()) == [1]
        ctx.ob("R3.5", ok, f"{b.name}/advance/num", f"revocation advances to `{render(e)}` (expected revoke_num + 1)",
               where=f"{b.file}:{ln}", sample=render(e))
    # provide_secret failure is a refusal: advance unreachable on its Err edges
    ps = R.call_blocks(fv, lambda n: n == f"{CCS}::provide_secret")
    ctx.floor("R3.5", "provide_secret call", len(ps), 1)
    for bi, ln, c in ps:
        oke = fv.result_edges(bi, c, "ok")
        erre = fv.result_edges(bi, c, "err")
        ctx.ob("R3.5", bool(oke) and bool(erre), f"{b.name}/provide_secret/checked",
               "result of provide_secret (BOLT-3 chain consistency) is not tested", where=f"{b.file}:{ln}")
        live = fv.reach(0, cut_edges=oke)
        bad = [s for s in adv if s[0] in live and fv.reaches(bi, s[0], cut_edges=oke)]
        ctx.ob("R3.5", not bad, f"{b.name}/provide_secret/err-refuses",
               "the revoke counter can advance although the secret does not chain with earlier secrets",
               where=f"{b.file}:{ln}", sample="advance unreachable from Err(provide_secret)")
        # ordering: the chain check is not made after the counter has already moved
        late = [s for s in adv if fv.reaches(s[0], bi) and s[0] != bi]
        ctx.ob("R3.5", not late, f"{b.name}/provide_secret/before-advance",
               "the revoke counter is advanced before the secret's BOLT-3 chain consistency is checked; a refused "
               "revocation leaves the counter moved", where=f"{b.file}:{ln}", sample="provide_secret precedes the advance")
        # index conversion and secret operand
        idx = strip_ref(fv.expr(c.args[1]))
        lin = atoms.linear(idx)
        ok = lin[1] == (1 << 48) - 1 and [s[0] for s in lin[0]] == ["revoke_num"] and list(lin[0].values()) == [-1]
        ctx.ob("R3.5", ok, f"{b.name}/provide_secret/index",
               f"secret stored at index `{render(idx)}` (expected INITIAL_COMMITMENT_NUMBER - revoke_num)",
               where=f"{b.file}:{ln}", sample=render(idx))
        sec = fv.expr(c.args[2])
        ctx.ob("R3.5", R.mentions_param(sec, "old_secret"), f"{b.name}/provide_secret/secret",
               f"stored secret `{render(sec)[:100]}` is not the supplied one", where=f"{b.file}:{ln}")
    # validator receives the supplied secret and number
    for bi, ln, c in R.call_blocks(fv, vpred):
        ok = render(strip_ref(fv.expr(c.args[2]))) == "revoke_num" and R.mentions_param(fv.expr(c.args[3]), "old_secret")
        ctx.ob("R3.5", ok, f"{b.name}/validator-args", "validator is called with other values than the request's",
               where=f"{b.file}:{ln}")


def r36(ctx):
    ctx.rule("R3.6", "CounterpartyCommitmentSecrets::provide_secret: every write to old_secrets happens after the "
                     "comparison loop has finished; an unequal derived secret is an Err exit")
    b = ctx.prog.fn(f"{CCS}::provide_secret")
    fv = fnview(ctx, b, policy=False)
    # writes to old_secrets: index assignment through IndexMut or Vec::push
    wsites = []
    for bi, c in fv.b.calls():
        nm = c.callee.name if c.callee else ""
        if c.args and R.mentions_field(fv.expr(c.args[0]), "CounterpartyCommitmentSecrets", "old_secrets"):
            if nm.endswith("::push") or "IndexMut" in nm or nm.endswith("::insert"):
                wsites.append((bi, c.line, nm))
    ctx.floor("R3.6", "old_secrets write sites", len(wsites), 2)
    # the loop header: Iterator::next over 0..pos
    headers = [bi for bi, c in fv.b.calls() if c.callee and c.callee.name.endswith("Range<A>>::next")]
    ctx.floor("R3.6", "comparison loop", len(headers), 1)
    # the derive_secret comparison inside the loop
    cmps = []
    for bi, c in fv.b.calls():
        nm = c.callee.name if c.callee else ""
        if "cmp::PartialEq" in nm or "PartialEq" in nm:
            r0 = render(fv.expr(c.args[0])) + render(fv.expr(c.args[1]))
            if "derive_secret" in r0:
                cmps.append((bi, c))
    ctx.ob("R3.6", len(cmps) >= 1, f"{b.name}/chain-comparison", "provide_secret no longer compares derive_secret(new) "
           "with the stored secrets", where=f"{b.file}:{b.line}", sample=f"{len(cmps)} comparison(s)")
    for bi, c in cmps:
        nm = c.callee.name
        neq_edges = fv.result_edges(bi, c, "ok" if nm.endswith("::ne") else "err")
        eq_edges = fv.result_edges(bi, c, "err" if nm.endswith("::ne") else "ok")
        # from the inequality edge, no write and no Ok return is reachable
        reach_after = set()
        for (u, v) in neq_edges:
            reach_after |= fv.reach(v)
        badw = [w for w in wsites if w[0] in reach_after]
        bado = [s for s in R.success_blocks(fv) if s[0] in reach_after]
        ctx.ob("R3.6", bool(neq_edges) and not badw and not bado, f"{b.name}/mismatch-is-error",
               "a secret inconsistent with an earlier one can still be stored / accepted",
               where=f"{b.file}:{c.line}", sample="!= edge reaches neither a write nor Ok")
    # every write is after the loop: from loop body back to header then to write only via loop exit
    # the comparison loop is the range loop whose body contains the derive_secret comparison (an inlined place_secret
    # brings a second range loop - the position scan - into this function; it is not the one meant)
    cmp_blocks = {bi for bi, _ in cmps}
    def _is_cmp_loop(h):
        body = set()
        for (_, v) in fv.result_edges(h, fv.b.term(h).call, "ok"):
            body |= fv.reach(v, cut_nodes={h}) | {v}
        # ... that are really inside the loop: the header is reachable again from them (a `break` leaves the body)
        body = {x for x in body if h in fv.reach(x)}
        return bool(body & cmp_blocks)
    cmp_headers = [h for h in headers if _is_cmp_loop(h)]
    ctx.ob("R3.6", len(cmp_headers) >= 1, f"{b.name}/comparison-in-loop", "the derive_secret comparison is not inside a loop over the "
           "earlier secrets", where=f"{b.file}:{b.line}", sample=f"{len(cmp_headers)} comparison loop(s)")
    for h in cmp_headers:
        t = fv.b.term(h).call.target
        # loop exit edges = edges where next() returned None
        none_edges = fv.result_edges(h, fv.b.term(h).call, "err")
        for sb, ln in R.success_blocks(fv):
            ctx.ob("R3.6", fv.must_pass(sb, none_edges) and bool(none_edges), f"{b.name}/ok-after-loop",
                   "provide_secret can answer Ok before the secret was compared with all earlier secrets (e.g. for an index it "
                   "already holds): a secret that does not chain is accepted", where=f"{b.file}:{ln}",
                   sample="Ok dominated by the exit of the comparison loop")
        for w in wsites:
            ok = fv.must_pass(w[0], none_edges) and bool(none_edges)
            ctx.ob("R3.6", ok, f"{b.name}/write-after-loop/{w[2].rsplit('::', 1)[-1]}",
                   "old_secrets is written before all earlier secrets were compared",
                   where=f"{b.file}:{w[1]}", sample="write dominated by loop exit")


def r37(ctx):
    ctx.rule("R3.7", "set_next_counterparty_commit_num keeps the two point slots aligned with the numbers: rotate "
                     "current -> previous only on num == next + 1, never on a retry; current <- the new point")
    p = ctx.prog
    b = p.fn(f"{ES}::set_next_counterparty_commit_num")
    fv = fnview(ctx, b, policy=False)
    NEXT = "EnforcementState.next_counterparty_commit_num"

    def writes(field):
        out = []
        for bi in sorted(fv.live_blocks()):
            for s in b.stmts(bi):
                if s.kind == "a" and s.place.proj and isinstance(s.place.proj[-1], tuple) and s.place.proj[-1][0] == "f" \
                   and s.place.proj[-1][2] == field:
                    val = render(fv.expr(s.rv.ops[0])) if s.rv.ops else render(("k", str(s.rv.a)))
                    if s.rv.op == "agg":
                        val = ("None" if "None" in str(s.rv.a) else "Some(" + ", ".join(render(peel(fv.expr(o))) for o in s.rv.ops) + ")")
                    out.append((bi, s.line, val))
        return out
    rets = [bi for bi in fv.live_blocks() if b.term(bi).kind == "ret"]
    wp = writes("previous_counterparty_point")
    wc = writes("current_counterparty_point")
    wn = writes("next_counterparty_commit_num")
    ctx.floor("R3.7", "writes of previous/current point and the counter in the setter", min(len(wp), len(wc), len(wn)), 1)
    # the counter is read before it is overwritten: every scenario below speaks about the old value
    def scen(*atoms_):
        return atoms.scenario_cut(fv, [atoms.parse_atom(a) for a in atoms_])
    # (a) retry: num == next  => no rotation
    cut = scen(f"num == {NEXT}")
    live = fv.reach(0, cut_edges=cut)
    bad = [w for w in wp if w[0] in live]
    ctx.ob("R3.7", bool(cut) and not bad, f"{b.name}/retry-keeps-previous-point",
           "a retry of the current counterparty commitment (num == next_counterparty_commit_num) overwrites "
           "previous_counterparty_point: the point signed for the older unrevoked commitment is lost and its revocation "
           "would be checked against the wrong point", where=f"{b.file}:{bad[0][1] if bad else b.line}",
           sample="num == next => previous_counterparty_point untouched")
    # (b) progression: num == next + 1 => previous <- current, current <- Some(current_point) on every path
    cut = scen(f"num == {NEXT} + 1")
    live = fv.reach(0, cut_edges=cut)
    lp = [w for w in wp if w[0] in live]
    lc = [w for w in wc if w[0] in live]
    ok = bool(cut) and lp and all(v.endswith("current_counterparty_point") for _, _, v in lp) and \
        not any(r in fv.reach(0, cut_edges=cut, cut_nodes={w[0] for w in lp}) for r in rets)
    ctx.ob("R3.7", ok, f"{b.name}/progress-rotates", f"on num == next + 1 previous_counterparty_point receives {[v for _, _, v in lp]} "
           "(expected the current point, on every path)", where=f"{b.file}:{b.line}", sample="previous <- current")
    ok = bool(cut) and lc and all(v == "Some(current_point)" for _, _, v in lc) and \
        not any(r in fv.reach(0, cut_edges=cut, cut_nodes={w[0] for w in lc}) for r in rets)
    ctx.ob("R3.7", ok, f"{b.name}/progress-sets-current", f"on num == next + 1 current_counterparty_point receives {[v for _, _, v in lc]} "
           "(expected Some(current_point), on every path)", where=f"{b.file}:{b.line}", sample="current <- Some(current_point)")
    # (c) jump: the older point is unknown => previous <- None
    for label, a in (("ahead", f"num > {NEXT} + 1"), ("back", f"num < {NEXT}")):
        cut = scen(a)
        live = fv.reach(0, cut_edges=cut)
        lp = [w for w in wp if w[0] in live]
        ok = bool(cut) and lp and all(v == "None" for _, _, v in lp) and \
            not any(r in fv.reach(0, cut_edges=cut, cut_nodes={w[0] for w in lp}) for r in rets)
        ctx.ob("R3.7", ok, f"{b.name}/jump-{label}-clears-previous", f"on {a} previous_counterparty_point receives {[v for _, _, v in lp]} (expected None)",
               where=f"{b.file}:{b.line}", sample=f"{a} => previous <- None")
    # (d) jumping ahead also sets the current point
    cut = scen(f"num > {NEXT} + 1")
    lc = [w for w in wc if w[0] in fv.reach(0, cut_edges=cut)]
    ok = bool(cut) and lc and all(v == "Some(current_point)" for _, _, v in lc) and \
        not any(r in fv.reach(0, cut_edges=cut, cut_nodes={w[0] for w in lc}) for r in rets)
    ctx.ob("R3.7", ok, f"{b.name}/jump-sets-current", f"on a jump ahead current_counterparty_point receives {[v for _, _, v in lc]}",
           where=f"{b.file}:{b.line}", sample="num > next + 1 => current <- Some(current_point)")
    ctx.ob("R3.7", all(v == "num" for _, _, v in wn) and not any(r in fv.reach(0, cut_nodes={w[0] for w in wn}) for r in rets),
           f"{b.name}/counter", f"next_counterparty_commit_num receives {[v for _, _, v in wn]}", where=f"{b.file}:{b.line}", sample="next <- num")


def r_restart(ctx):
    """the restart clause of the statement ("with a signer restart allowed between any two requests"): the channel's
    enforcement state the rules above reason about is, at every acknowledged request, the state a restarted signer has.
    Same obligations as C11 R11.1 (persist-before-acknowledge, channel class) and C11 R11.2 (persist / restore field
    agreement, restored EnforcementState installed unmodified), evaluated here because this property depends on them."""
    from rules import C11 as _c11
    from engine import report as _report
    v = _report.renamed(ctx, {"R11.1": "R3.8", "R11.2": "R3.9"})
    _c11.r111(v, classes={"channel"})
    _c11.r112(v)


def r_filter(ctx):
    """every guard of this property refuses through policy_err!; which tags are demoted to warnings is decided by
    PolicyFilter::filter.  Same obligations as C05 R5.4 (first matching rule decides with its own action, default Error,
    Err unless Warn), evaluated here because an operator's `error` pin on this property's tags depends on them."""
    from rules import C05 as _c05
    _c05.r54(ctx, rid="R3.10")


def r_durable(ctx):
    """restart clause, storage side: what Channel::persist wrote before the signature was released is on disk (C11 R11.6)"""
    from rules import C11 as _c11
    _c11.r116(ctx, rid="R3.11")

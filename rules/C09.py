"""C09 — sweep and second-level HTLC signatures only move funds back to the node."""
from engine import rulelib as R
from engine import atoms
from engine.rulelib import fnview
from engine.cfg import render, strip_ref, peel, subexprs

CRATES = ["lightning_signer", "vls_protocol_signer"]
OPTIONAL_CRATES = ["vls_persist"]
LS = "lightning_signer::"
SVT = LS + "policy::simple_validator::SimpleValidator"
VAL = LS + "policy::validator::Validator"
SV = f"<{SVT} as {VAL}>"
CH = LS + "channel::Channel"
SIGN_ECDSA = lambda n: n.endswith("::sign_ecdsa")

CLAIM = {
    "text": "Decides on all MIR paths: (R9.1) each of sign_delayed_sweep / sign_counterparty_htlc_sweep / "
            "sign_justice_sweep reaches sign_ecdsa only after the input-index bound and Ok of its validator, which in "
            "turn requires Ok(validate_sweep); the signed digest is computed over the validated tx and input; (R9.2) "
            "validate_sweep iterates over *all* outputs and no iteration can complete without can_spend == true or "
            "allowlist_contains == true for that output's script and the given wallet path; version must be 2; each "
            "kind enforces its locktime guard (is_satisfied_by(current_height + MAX_CHAIN_LAG), or lock_time <= the "
            "cltv_expiry parsed from the redeemscript, with the cltv range check) and its sequence guard (equality with "
            "counterparty_selected_contest_delay, or membership in the anchor / non-anchor sequence sets chosen by "
            "is_anchors), and an unparsable redeemscript is refused; (R9.3) sign_htlc_tx signs the sighash returned by "
            "decode_and_validate_htlc_tx (not one computed from the supplied tx), after Ok of both validator calls; "
            "the validator refuses recomposed != original sighash, builds the recomposed tx with the delay chosen by "
            "is_counterparty (holder_selected for counterparty txs, counterparty_selected otherwise) and the "
            "txkeys' delayed and revocation keys, and validate_htlc_tx enforces the fee-rate range; (R9.4) the "
            "contest delays these guards compare with are the negotiated ones: the protocol handler stores the "
            "request's to_self_delay as holder_selected_contest_delay and remote_to_self_delay as "
            "counterparty_selected_contest_delay (not crossed); (R9.5) the sighash flags under which the supplied and "
            "the recomposed second-level transaction are compared (and signed) are one value chosen by the channel "
            "type alone: SIGHASH_ALL unless setup.is_anchors(), so on a non-anchor channel every input and output of "
            "the supplied transaction is covered by the comparison. (R9.6) refusals are real refusals under every filter configuration: PolicyFilter::filter lets the first matching rule decide with that rule's own action and defaults to Error, and a policy error becomes Ok only when the filter says Warn (same obligations as C05 R5.4). The "
            "parameter-only HTLC request is out of scope by the property's text.",
    "note": "non-permissive policy; LockTime::is_satisfied_by / build_htlc_transaction / script parsers trusted by name",
    "technique": "static analysis: loop-iteration must-pass + must-pass-through + provenance (argument roles) + guard scenarios",
}


CLAIM["text"] += (" (R9.8) restart clause, where the build has a persistence layer: every persisted field of channel entry, node "
                  "state, tracker and monitors is serialised and restored into the same slot (same obligations as C11 R11.2).")

def run(ctx):
    ctx.explanation = CLAIM["text"]
    ctx.not_decided = "BOLT-3 correctness of build_htlc_transaction and the script parsers (dependency semantics)"
    r91(ctx)
    r92(ctx)
    r93(ctx)
    r94(ctx)
    r95(ctx)
    r97(ctx)
    r_restore(ctx)
    r_filter(ctx)


def r91(ctx):
    ctx.rule("R9.1", "sweep entry points: signature only after the input bound and Ok(validator); digest over the validated tx/input")
    p = ctx.prog
    for fn, vfn in (("sign_delayed_sweep", "validate_delayed_sweep"), ("sign_counterparty_htlc_sweep", "validate_counterparty_htlc_sweep"),
                    ("sign_justice_sweep", "validate_justice_sweep")):
        b = p.fn(f"{CH}::{fn}")
        fv = fnview(ctx, b)
        sigs = R.call_blocks(fv, SIGN_ECDSA)
        ctx.floor("R9.1", f"sign_ecdsa in {fn}", len(sigs), 1)
        sinks = [(bi, ln) for bi, ln, c in sigs]
        R.must_pass_guard(ctx, "R9.1", b, sinks, lambda n, v=vfn: n == f"{VAL}::{v}", f"Validator::{vfn}", "sweep signature", depth=0)
        R.named_scenario_refused(ctx, "R9.1", b, ["input >= len(tx.input)"], f"{b.name}/input-bound",
                                 f"{fn} signs with an input index outside the transaction", sinks=sinks)
        for bi, ln, c in R.call_blocks(fv, lambda n, v=vfn: n == f"{VAL}::{v}"):
            a = [render(peel(fv.expr(x))) for x in c.args[1:]]
            ok = "tx" in a and "input" in a and "wallet_path" in a and any(x.endswith("self.setup") for x in a)
            ctx.ob("R9.1", ok, f"{b.name}/validator-args", f"{vfn}({[x[:40] for x in a]})", where=f"{b.file}:{ln}", sample=[x[:40] for x in a])
        for bi, ln, c in sigs:
            msg = fv.expr(c.args[1])
            calls = [x for x in subexprs(msg) if x[0] == "call" and x[1].endswith("p2wsh_signature_hash")]
            ok = bool(calls)
            if ok:
                a = calls[0][2]
                ok = R.mentions_param(a[0], "tx") and render(peel(a[1])) == "input" and R.mentions_param(a[2], "redeemscript")
            ctx.ob("R9.1", ok, f"{b.name}/digest", f"{fn} signs `{render(msg)[:160]}`", where=f"{b.file}:{ln}",
                   sample="p2wsh_signature_hash(SighashCache::new(tx), input, redeemscript, amount)")
        # the validators require validate_sweep
        vb = p.fn(f"{SV}::{vfn}")
        vv = fnview(ctx, vb)
        R.must_pass_guard(ctx, "R9.1", vb, R.success_blocks(vv), lambda n: n == f"{SVT}::validate_sweep", "validate_sweep",
                          f"Ok return of {vfn}", depth=0)
        for bi, ln, c in R.call_blocks(vv, lambda n: n == f"{SVT}::validate_sweep"):
            a = [render(peel(vv.expr(x))) for x in c.args[1:]]
            ctx.ob("R9.1", a[0] == "wallet" and a[1] == "tx" and a[-1] == "wallet_path", f"{vb.name}/sweep-args",
                   f"validate_sweep({a})", where=f"{vb.file}:{ln}", sample=a)


def r92(ctx):
    ctx.rule("R9.2", "validate_sweep destination check over every output; version; per-kind locktime and sequence guards")
    p = ctx.prog
    b = p.fn(f"{SVT}::validate_sweep")
    fv = fnview(ctx, b)
    nv = fv.named()
    loops = R.loops_over(fv, lambda s: "tx.output" in s)
    ctx.ob("R9.2", len(loops) == 1, f"{b.name}/all-outputs-loop",
           f"validate_sweep iterates {len(loops)} time(s) over tx.output (expected one loop over all outputs)", where=f"{b.file}:{b.line}")
    grant = set()
    n = 0
    for bi, c in b.calls():
        nm = (c.decl.name if c.decl else "") or (c.callee.name if c.callee else "")
        if nm.endswith("Wallet::can_spend"):
            te, fe = R.payload_bool_edges(fv, bi, c)
            grant |= te
            n += 1
            a = [render(strip_ref(nv.expr(x))) for x in c.args[1:]]
            ok = a[0] == "wallet_path" and ("script_pubkey" in a[1] or a[1] == "dest_script")
            ctx.ob("R9.2", ok, f"{b.name}/can_spend-args", f"can_spend({a})", where=f"{b.file}:{c.line}", sample=a)
            e = fv.expr(c.args[2])
            ctx.ob("R9.2", "next(" in render(e) and "tx.output" in render(e), f"{b.name}/can_spend-on-element",
                   f"can_spend is asked about `{render(e)[:120]}`, not the output of the current iteration", where=f"{b.file}:{c.line}")
        if nm.endswith("Wallet::allowlist_contains"):
            grant |= fv.result_edges(bi, c, "ok")
            n += 1
            e = fv.expr(c.args[1])
            ctx.ob("R9.2", "next(" in render(e) and "tx.output" in render(e), f"{b.name}/allowlist-on-element",
                   f"allowlist_contains is asked about `{render(e)[:120]}`", where=f"{b.file}:{c.line}")
    ctx.floor("R9.2", "destination predicates in validate_sweep", n, 2)
    for h, c, be, ee in loops:
        poss = R.iteration_possible(fv, h, be, grant)
        ctx.ob("R9.2", bool(grant) and not poss, f"{b.name}/every-output-ours",
               "an iteration over a sweep output can complete although the output is neither wallet-spendable nor "
               "allowlisted: a sweep paying a foreign script would be signed", where=f"{b.file}:{c.line}",
               sample="each iteration passes can_spend == true or allowlist_contains == true")
        # and success is only reachable through the loop's exhaustion
        for sb, ln in R.success_blocks(fv):
            ctx.ob("R9.2", fv.must_pass(sb, ee) and bool(ee), f"{b.name}/ok-after-all-outputs",
                   "validate_sweep can succeed before all outputs were examined", where=f"{b.file}:{ln}",
                   sample="Ok dominated by iterator exhaustion")
    R.mismatch_refused(ctx, "R9.2", b, lambda a, c: a.endswith("tx.version") and ("TWO" in c or R.is_new_const(c)), f"{b.name}/version",
                       "sweep tx.version vs 2")
    # per kind
    lag = None
    for fn in ("validate_delayed_sweep", "validate_counterparty_htlc_sweep", "validate_justice_sweep"):
        vb = p.fn(f"{SV}::{fn}")
        vv = fnview(ctx, vb)
        nvv = vv.named()
        succ = R.success_blocks(vv)
        sat = []
        for bi, c in vb.calls():
            nm = c.callee.name if c.callee else ""
            if nm.endswith("LockTime::is_satisfied_by"):
                a = [render(peel(vv.expr(x))) for x in c.args]
                ok = a[0].endswith("tx.lock_time") and "current_height" in a[1] and "MAX_CHAIN_LAG" in a[1] and "+" in a[1]
                ctx.ob("R9.2", ok, f"{vb.name}/locktime-args", f"is_satisfied_by({[x[:70] for x in a]})", where=f"{vb.file}:{c.line}",
                       sample=[x[:60] for x in a[:2]])
                # the time bound must be the smallest one: a time-based locktime is then never "satisfied", i.e. refused;
                # any larger bound lets a far-future timestamp through
                ctx.ob("R9.2", len(a) > 2 and a[2].endswith("absolute::Time::MIN"), f"{vb.name}/locktime-time-bound",
                       f"{fn} accepts time-based locktimes up to `{a[2][-40:] if len(a) > 2 else None}`: a sweep locked until a far-future "
                       f"timestamp is signed", where=f"{vb.file}:{c.line}", sample="time bound = Time::MIN")
                sat.append((bi, c, vv.result_edges(bi, c, "ok")))
        if fn != "validate_counterparty_htlc_sweep":
            ctx.ob("R9.2", len(sat) == 1, f"{vb.name}/locktime-check", f"{len(sat)} locktime checks", where=f"{vb.file}:{vb.line}")
            te = set().union(*[s[2] for s in sat]) if sat else set()
            for sb, ln in succ:
                ctx.ob("R9.2", vv.must_pass(sb, te) and bool(te), f"{vb.name}/locktime-required",
                       f"{fn} can accept a sweep whose locktime is beyond current_height + MAX_CHAIN_LAG", where=f"{vb.file}:{ln}",
                       sample="Ok dominated by lock_time.is_satisfied_by(height + lag)")
        seq_contains = []
        for bi, c in vb.calls():
            nm = c.callee.name if c.callee else ""
            if nm.endswith("::contains") and len(c.args) == 2:
                r0 = render(nvv.expr(c.args[0]))
                r1 = render(nvv.expr(c.args[1]))
                if "seq" in r1:
                    seq_contains.append((bi, c, r0, c.args[1]))
            # the same membership test spelled `valid_seqs.iter().any(|s| *s == seq)`
            if nm.endswith("Iterator>::any") and len(c.args) == 2 and "valid_seqs" in render(nvv.expr(c.args[0])) and c.cls:
                env = R.closure_env(ctx, vb, c.cls[0])
                seq_ops = [k for k, v_ in env.items() if "sequence" in render(v_)]
                eqs = R.closure_calls(p, c.cls[0], lambda n: "cmp::PartialEq" in n) or True
                if seq_ops:
                    seq_contains.append((bi, c, render(nvv.expr(c.args[0])), None))
        if fn == "validate_delayed_sweep":
            R.mismatch_refused(ctx, "R9.2", vb, lambda a, c: "sequence" in a and c.endswith("setup.counterparty_selected_contest_delay"),
                               f"{vb.name}/sequence", "delayed sweep sequence vs counterparty_selected_contest_delay")
        else:
            ctx.ob("R9.2", len(seq_contains) == 1, f"{vb.name}/sequence-check", f"{len(seq_contains)} sequence membership checks",
                   where=f"{vb.file}:{vb.line}")
            for bi, c, r0, seq_arg in seq_contains:
                te = vv.result_edges(bi, c, "ok")
                for sb, ln in succ:
                    ctx.ob("R9.2", vv.must_pass(sb, te) and bool(te), f"{vb.name}/sequence-required",
                           f"{fn} can accept a sweep whose input sequence is not in the allowed set", where=f"{vb.file}:{ln}",
                           sample="Ok dominated by valid_seqs.contains(seq)")
                if seq_arg is not None:
                    so = render(vv.expr(seq_arg))
                else:
                    env = R.closure_env(ctx, vb, c.cls[0])
                    so = " ".join(render(v_) for v_ in env.values())
                ctx.ob("R9.2", "tx.input[0].sequence" in so, f"{vb.name}/sequence-operand",
                       f"sequence operand is `{so[:80]}`", where=f"{vb.file}:{c.line}")
                defs = R.all_defs(nvv, "valid_seqs")
                if fn == "validate_justice_sweep":
                    ok = defs and all("NON_ANCHOR_SEQS" in d for d in defs)
                else:
                    ok = any("NON_ANCHOR_SEQS" in d for d in defs) and any("ANCHOR_SEQS" in d and "NON_" not in d for d in defs)
                ctx.ob("R9.2", ok, f"{vb.name}/sequence-set", f"valid_seqs is {defs}", where=f"{vb.file}:{c.line}", sample=defs)
        if fn == "validate_counterparty_htlc_sweep":
            # received branch: locktime <= parsed cltv_expiry, cltv range; offered branch: is_satisfied_by; neither: refusal
            pr = [(bi, c) for bi, c in vb.calls() if c.callee and c.callee.name.endswith("parse_received_htlc_script")]
            po = [(bi, c) for bi, c in vb.calls() if c.callee and c.callee.name.endswith("parse_offered_htlc_script")]
            ctx.ob("R9.2", len(pr) == 1 and len(po) == 1, f"{vb.name}/parsers", f"received x{len(pr)}, offered x{len(po)}", where=f"{vb.file}:{vb.line}")
            pe = set()
            for bi, c in pr + po:
                pe |= vv.result_edges(bi, c, "ok")
                a = [render(peel(vv.expr(x))) for x in c.args]
                ctx.ob("R9.2", a[0] == "redeemscript" and "is_anchors" in a[1], f"{vb.name}/parser-args/{c.line}", f"parser({a})", where=f"{vb.file}:{c.line}")
            for sb, ln in succ:
                ctx.ob("R9.2", vv.must_pass(sb, pe) and bool(pe), f"{vb.name}/script-must-parse",
                       "an HTLC sweep with a redeemscript that parses as neither HTLC kind is accepted", where=f"{vb.file}:{ln}",
                       sample="Ok dominated by Ok(parse_received) or Ok(parse_offered)")
            if pr:
                rec_ok = vv.result_edges(pr[0][0], pr[0][1], "ok")
                off_cut = rec_ok  # scenario "received" : paths through the received arm
                # in the received arm: lock_time > cltv_expiry refused; cltv out of range refused
                for scen, nm_ in ((["`bitcoin::absolute::LockTime::to_consensus_u32(tx.lock_time)` > cltv_expiry"], "received-locktime"),
                                  (["cltv_expiry < 0"], "cltv-negative"), (["cltv_expiry > 4294967295"], "cltv-too-large")):
                    assum = [atoms.parse_atom(a) for a in scen]
                    cut = atoms.scenario_cut(nvv, assum)
                    # restrict to the received arm: cut the Err edges of parse_received
                    rec_err = vv.result_edges(pr[0][0], pr[0][1], "err")
                    live = vv.reach(0, cut_edges=cut | rec_err)
                    bad = [s for s in succ if s[0] in live]
                    ctx.ob("R9.2", bool(cut) and not bad, f"{vb.name}/{nm_}",
                           f"received-HTLC sweep accepted in scenario {scen}", where=f"{vb.file}:{vb.line}",
                           detail={"edges_cut": len(cut)}, sample={"scenario": scen, "edges_cut": len(cut)})
            if po and sat:
                off_ok = vv.result_edges(po[0][0], po[0][1], "ok")
                rec_ok = vv.result_edges(pr[0][0], pr[0][1], "ok") if pr else set()
                te = set().union(*[s[2] for s in sat])
                live = vv.reach(0, cut_edges=te | rec_ok)
                bad = [s for s in succ if s[0] in live]
                ctx.ob("R9.2", not bad, f"{vb.name}/offered-locktime",
                       "offered-HTLC sweep accepted with a locktime beyond current_height + MAX_CHAIN_LAG", where=f"{vb.file}:{vb.line}",
                       sample="offered arm: Ok dominated by is_satisfied_by")


def _defs_of(fv, name):
    b = fv.b
    out = []
    for l in range(len(b.local_tys)):
        if b.local_name(l) != name:
            continue
        for (bi, idx, obj) in fv.defs.get(l, []):
            if idx == "T":
                out.append(render(fv._call_expr(obj, 0)))
            elif obj.kind == "a" and obj.rv.ops:
                out.append(render(fv.expr(obj.rv.ops[0])))
    return out


def r93(ctx):
    ctx.rule("R9.3", "second-level HTLC signing: digest is the validator's recomposed sighash; recomposition uses negotiated "
                     "delay and txkeys; sighash mismatch refused; fee-rate range")
    p = ctx.prog
    b = p.fn(f"{CH}::sign_htlc_tx")
    fv = fnview(ctx, b)
    sigs = R.call_blocks(fv, SIGN_ECDSA)
    ctx.floor("R9.3", "sign_ecdsa in sign_htlc_tx", len(sigs), 1)
    sinks = [(bi, ln) for bi, ln, c in sigs]
    R.must_pass_guard(ctx, "R9.3", b, sinks, lambda n: n == f"{VAL}::decode_and_validate_htlc_tx", "decode_and_validate_htlc_tx",
                      "HTLC tx signature", depth=0)
    R.must_pass_guard(ctx, "R9.3", b, sinks, lambda n: n == f"{VAL}::validate_htlc_tx", "validate_htlc_tx", "HTLC tx signature", depth=0)
    for bi, ln, c in sigs:
        msg = fv.expr(c.args[1])
        ok = R.mentions_call(msg, "decode_and_validate_htlc_tx") and not any(
            x[0] == "call" and x[1].endswith("p2wsh_signature_hash") for x in subexprs(msg))
        ctx.ob("R9.3", ok, f"{b.name}/digest-from-validator", f"sign_htlc_tx signs `{render(msg)[:200]}`", where=f"{b.file}:{ln}",
               sample="digest <- decode_and_validate_htlc_tx(..)?.2")
        fld = [x for x in subexprs(msg) if x[0] == "field" and x[2] == "()"]
        ctx.ob("R9.3", any(x[3] == "2" for x in fld), f"{b.name}/digest-slot", "the signed value is not the third component (recomposed sighash)",
               where=f"{b.file}:{ln}")
        key = fv.expr(c.args[2])
        ctx.ob("R9.3", R.mentions_field(key, "InMemorySigner", "htlc_base_key") and R.mentions_param(key, "per_commitment_point"),
               f"{b.name}/key", f"signing key `{render(key)[:120]}`", where=f"{b.file}:{ln}", sample="derive_private_key(per_commitment_point, htlc_base_key)")
    for bi, ln, c in R.call_blocks(fv, lambda n: n == f"{VAL}::validate_htlc_tx"):
        a = [render(fv.expr(x)) for x in c.args[4:6]]
        ok = "decode_and_validate_htlc_tx" in a[0] and a[0].endswith(".1") and a[1].endswith(".0")
        ctx.ob("R9.3", ok, f"{b.name}/validate-args", f"validate_htlc_tx(htlc=`{a[0][-40:]}`, feerate=`{a[1][-40:]}`)", where=f"{b.file}:{ln}")
    vb = p.fn(f"{SV}::decode_and_validate_htlc_tx")
    vv = fnview(ctx, vb)
    nvv = vv.named()
    R.mismatch_refused(ctx, "R9.3", vb, lambda a, c: "recomposed_tx_sighash" in a and "original_tx_sighash" in c or
                       ("build_htlc_transaction" in a and "SighashCache::<R>::new(tx)" in c),
                       f"{vb.name}/sighash", "recomposed vs original HTLC tx sighash")
    # delay chosen by is_counterparty
    defs = _defs_of(nvv, "to_self_delay")
    cut_cp = atoms.scenario_cut(nvv, [atoms.parse_atom("is_counterparty")])
    cut_h = atoms.scenario_cut(nvv, [atoms.parse_atom("!is_counterparty")])
    def delay_under(cut):
        v = vv.restricted(vv.reach(0, cut_edges=cut)).named()
        return _one_def(v, "to_self_delay")
    d_cp, d_h = delay_under(cut_cp), delay_under(cut_h)
    ok = d_cp is not None and d_cp.endswith("holder_selected_contest_delay") and d_h is not None and \
        d_h.endswith("counterparty_selected_contest_delay")
    ctx.ob("R9.3", ok, f"{vb.name}/delay-role", f"to_self_delay: is_counterparty -> {d_cp}; otherwise -> {d_h}",
           where=f"{vb.file}:{vb.line}", sample={"counterparty tx": d_cp, "holder tx": d_h})
    for bi, c in vb.calls():
        if c.callee and c.callee.name.endswith("build_htlc_transaction"):
            a = [render(strip_ref(nvv.expr(x))) for x in c.args]
            ok = a[2] == "to_self_delay" and a[5].endswith("txkeys.broadcaster_delayed_payment_key") and \
                a[6].endswith("txkeys.revocation_key") and "previous_output.txid" in render(vv.expr(c.args[0]))
            ctx.ob("R9.3", ok, f"{vb.name}/build-args", f"build_htlc_transaction({[x[:50] for x in a]})", where=f"{vb.file}:{c.line}",
                   sample=[x[:40] for x in a])
    # returned tuple: (build_feerate, htlc, recomposed_tx_sighash, sighash_type)
    for r in vv.return_sites():
        if r["kind"] == "ok" and "stmt" in r:
            e = nvv.expr(r["stmt"].rv.ops[0])
            txt = render(e)
            ctx.ob("R9.3", "recomposed_tx_sighash" in txt, f"{vb.name}/returns-recomposed", f"returns `{txt[:160]}`",
                   where=f"{vb.file}:{r['line']}", sample=txt[:120])
    # validate_htlc_tx fee range
    hb = p.fn(f"{SV}::validate_htlc_tx")
    R.named_scenario_refused(ctx, "R9.3", hb, ["feerate_per_kw > SimplePolicy.max_feerate_per_kw"], f"{hb.name}/above-max",
                             "an HTLC tx fee rate above the maximum is accepted")
    hv = fnview(ctx, hb)
    zf = set()
    for bi, c in hb.calls():
        if c.callee and c.callee.name.endswith("ChannelSetup::is_zero_fee_htlc"):
            zf |= hv.result_edges(bi, c, "ok")   # zero-fee => min check skipped
    assum = [atoms.parse_atom("feerate_per_kw < SimplePolicy.min_feerate_per_kw")]
    cut = atoms.scenario_cut(hv, assum)
    live = hv.reach(0, cut_edges=cut | zf)
    bad = [s for s in R.success_blocks(hv) if s[0] in live]
    ctx.ob("R9.3", bool(cut) and not bad, f"{hb.name}/below-min", "a non-zero-fee HTLC tx below the minimum fee rate is accepted",
           where=f"{hb.file}:{hb.line}", sample="!zero_fee_htlc: feerate < min refused")
    R.named_scenario_refused(ctx, "R9.3", hb, ["HTLCOutputInCommitment.offered", "HTLCOutputInCommitment.cltv_expiry == 0"],
                             f"{hb.name}/offered-locktime", "an offered HTLC tx with lock_time 0 is accepted")


def _one_def(fv, name):
    b = fv.b
    for l in range(len(b.local_tys)):
        if b.local_name(l) == name:
            e = fv.local_expr(l)
            if e[0] == "let":
                return render(e[2])
            sd = fv.single_def(l)
            if sd is not None and sd[1] != "T" and sd[2].rv.ops:
                return render(fv.expr(sd[2].rv.ops[0]))
    return None


def r94(ctx):
    ctx.rule("R9.4", "the stored contest delays are the negotiated ones: ChannelSetup.holder_selected_contest_delay <- "
                     "to_self_delay, counterparty_selected_contest_delay <- remote_to_self_delay at the protocol handler")
    from rules import C07
    C07.setup_roles(ctx, "R9.4", C07.DELAY_ROLES, "sweeps and second-level HTLC transactions are then validated and "
                    "recomposed with the other side's delay")


def r95(ctx):
    ctx.rule("R9.5", "second-level HTLC validation: both sighashes (supplied tx, recomposed tx) are computed with one sighash "
                     "type, chosen by setup.is_anchors() alone: ALL on non-anchor channels (the comparison then covers every "
                     "input and output of the supplied transaction), SINGLE|ANYONECANPAY only with anchors")
    p = ctx.prog
    vb = p.fn(f"{SV}::decode_and_validate_htlc_tx")
    fv = fnview(ctx, vb)
    calls = R.call_blocks(fv, lambda n: n.endswith("::p2wsh_signature_hash"))
    ctx.floor("R9.5", "p2wsh_signature_hash calls in decode_and_validate_htlc_tx", len(calls), 2)
    roots = set()
    for bi, ln, c in calls:
        root, defs, sw = R.conditional_defs(fv, c.args[-1])
        roots.add(root)
        vals = sorted({render(e).rsplit("::", 1)[-1] for _, ops in defs for e in ops})
        conds = [render(e) for _, e in sw]
        ctx.ob("R9.5", vals == ["All", "SinglePlusAnyoneCanPay"] or vals == ["All"], f"{vb.name}/sighash-type/values",
               f"the sighash type of the HTLC transaction comparison takes the values {vals} (expected ALL, and "
               "SINGLE|ANYONECANPAY for anchor channels)", where=f"{vb.file}:{ln}", sample=str(vals))
        only_type = all(("is_anchors(" in x or "is_zero_fee_htlc(" in x) and "tx" not in x.replace("txkeys", "") for x in conds)
        ctx.ob("R9.5", only_type and (bool(conds) or len(vals) == 1), f"{vb.name}/sighash-type/decided-by-channel-type",
               f"which sighash type is used is decided by {conds} (expected the channel type only): a supplied transaction "
               "can select SINGLE|ANYONECANPAY itself, so on a non-anchor channel its extra inputs and outputs escape the "
               "comparison with the recomposed BOLT-3 transaction", where=f"{vb.file}:{ln}", sample=str(conds))
        # direction: with is_anchors() == false only ALL is reachable
        if len(vals) == 2 and only_type:
            cut = set()
            for cbi, cc in vb.calls():
                if cc.callee is not None and cc.callee.name.endswith("ChannelSetup::is_anchors"):
                    cut |= fv.result_edges(cbi, cc, "ok")
            live = fv.reach(0, cut_edges=cut)
            reach_vals = sorted({render(e).rsplit("::", 1)[-1] for dbi, ops in defs if dbi in live for e in ops})
            ctx.ob("R9.5", reach_vals == ["All"], f"{vb.name}/sighash-type/non-anchor-is-all",
                   f"on a non-anchor channel the sighash type can be {reach_vals} (expected ALL only)",
                   where=f"{vb.file}:{ln}", sample="is_anchors() == false => ALL")
    ctx.ob("R9.5", len(roots) == 1 and None not in roots, f"{vb.name}/sighash-type/one-value",
           "the supplied and the recomposed transaction are hashed with different sighash-type values",
           where=f"{vb.file}:{vb.line}", sample="one sighash_type local for both hashes")


def r_filter(ctx):
    """every guard of this property refuses through policy_err!; which tags are demoted to warnings is decided by
    PolicyFilter::filter.  Same obligations as C05 R5.4 (first matching rule decides with its own action, default Error,
    Err unless Warn), evaluated here because an operator's `error` pin on this property's tags depends on them."""
    from rules import C05 as _c05
    _c05.r54(ctx, rid="R9.6")


def r97(ctx):
    ctx.rule("R9.7", "sweep signatures are SIGHASH_ALL: in sign_delayed_sweep / sign_counterparty_htlc_sweep / sign_justice_sweep "
                     "the digest handed to sign_ecdsa is computed with EcdsaSighashType::All on every path (the validated "
                     "destinations are only binding if the signature covers all outputs)")
    p = ctx.prog
    for fn in ("sign_delayed_sweep", "sign_counterparty_htlc_sweep", "sign_justice_sweep"):
        b = p.fn(f"{CH}::{fn}")
        n = 0
        for bb in [b] + list(p.closures_of(b)):
            v = fnview(ctx, bb)
            for bi, ln, c in R.call_blocks(v, lambda nm: nm.endswith("_signature_hash")):
                n += 1
                root, defs, sw = R.conditional_defs(v, c.args[-1])
                vals = sorted({render(e).rsplit("::", 1)[-1] for _, ops in defs for e in ops})
                ctx.ob("R9.7", vals == ["All"], f"{b.name}/sighash-all",
                       f"`{fn}` computes the signed digest with sighash type {vals}"
                       + (f" chosen by {[render(e)[:60] for _, e in sw]}" if sw else "")
                       + " (expected SIGHASH_ALL always): the signature does not commit to every output of the sweep that "
                       "validate_sweep checked, so it also authorises a transaction paying the other outputs elsewhere",
                       where=f"{bb.file}:{ln}", sample="EcdsaSighashType::All")
        ctx.floor("R9.7", f"sighash computations in {fn}", n, 1)


def r_restore(ctx):
    from rules import C11 as _c11
    _c11.shared_restore(ctx, "R9.8", "the contest delays and commitment type the sweep and HTLC bounds are computed from are what a restarted signer uses.")

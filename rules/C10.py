"""C10 — a refused request changes nothing (failure atomicity, engine E5)."""
from engine import rulelib as R
from engine import atoms
from engine import effects
from engine.rulelib import fnview

CRATES = ["lightning_signer", "vls_protocol_signer", "vls_persist"]
LS = "lightning_signer::"

CLAIM = {
    "text": "Decides failure atomicity structurally for every public Result-returning method of Channel, ChannelStub and "
            "Node (the request entry points the handler calls) and for ChainTracker::add_block/remove_block: a mutation "
            "site is a write through a place of a monitored class (EnforcementState incl. the secret store, NodeState "
            "invoices/issued_invoices/payments/excess_amount/velocity controls/dbid_high_water_mark, tracker "
            "headers/tip/height/listeners/ListenSlot, monitor State, the channel map), a call handing `&mut` of such a "
            "place to a callee, a call to a function whose transitive summary mutates the class, or a persister write; "
            "a refusal exit is an Err return not caused solely by a storage failure. (R10.1) no mutation site reaches a "
            "refusal exit; callee failures count only when the callee is itself non-atomic; values owned by the "
            "function (staged copies, fresh objects) are not state. (R10.2) Handler::with_persist returns Err only "
            "after testing that no mutation is pending. Every remaining (site, exit) pair is either a one-line reasoned "
            "exception (infeasible pair) or a listed known finding. (R10.3) the chain tracker counts too: in add_block / remove_block every mutation of the tracked state comes after the last check that can refuse (same rule as C13 R13.1). Does not decide equality of serialized state "
            "(runtime values) nor effects inside dependency crates. (R10.4) the protocol layer composes core calls: in every "
            "function and closure of vls-protocol-signer (request handlers, approver front end) no call that changes "
            "monitored state is followed by a refusal of the same request other than that call's own failure.",
    "note": "non-permissive policy; CHA for dyn calls; storage failures (Persist::*, Channel::persist) are not refusals",
    "technique": "static analysis: effect/mutation summaries over MIR + CFG reachability to refusal exits (failure atomicity)",
}

CLASSES = effects.Classes({
    "enforcement": [("validator::EnforcementState", None), ("validator::CounterpartyCommitmentSecrets", None)],
    "node": [("node::NodeState", f) for f in ("invoices", "issued_invoices", "payments", "excess_amount",
                                              "velocity_control", "fee_velocity_control", "dbid_high_water_mark")]
    + [("velocity::VelocityControl", None), ("node::RoutedPayment", None)],
    "tracker": [("tracker::ChainTracker", f) for f in ("headers", "tip", "height", "listeners")]
    + [("tracker::ListenSlot", None)],
    "monitor": [("monitor::State", None), ("monitor::ClosingOutpoints", None)],
    "channels": [("node::Node", "channels")],
}, by_type={"channels": lambda ty: "Map<" in ty and "ChannelSlot" in ty})


def is_persist(n):
    return n.startswith(LS + "persist::Persist::") or n == LS + "channel::Channel::persist"


PERSIST_READS = ("::get_", "::enter", "::prepare", "::commit", "::on_initial_restore", "::recovery_required",
                 "::begin_replication", "::signer_id", "::is_ready")

# (function, site, exit-line-independent tag) -> reason.  Infeasible pairs established by reading.
EXCEPTIONS = {
    # (function, mutation site, cause of the refusal exit) -> reason.  Infeasible pairs established by reading; one
    # pair each: the same site followed by any *other* refusal is still reported.
    # the private helper advance_holder_commitment_state (checked setter, then secret release) is transparent: it is analysed
    # as part of revoke_previous_holder_commitment; its two fallible steps share one error exit (the caller's `?`)
    (LS + "channel::Channel::revoke_previous_holder_commitment", "take", "call:release_commitment_secret"):
        "take() happens only on the branch new_current == next_holder_commit_num with info present; under that condition "
        "set_next_holder_commit_num's progression check (num == current + 1) holds and get_per_commitment_secret(n-1) "
        "satisfies n-1+2 <= n+1, so neither the setter nor the release can fail afterwards",
    (LS + "channel::Channel::revoke_previous_holder_commitment", "take", "call:set_next_holder_commit_num"):
        "(the same pair when the setter's `?` has its own error exit, i.e. the helper was inlined by hand) under the branch "
        "condition new_current == next_holder_commit_num the progression check num == current + 1 holds: the setter cannot fail",
    (LS + "channel::Channel::revoke_previous_holder_commitment", "set_next_holder_commit_num", "call:release_commitment_secret"):
        "same condition: after the counter moved to n+1 the secret bound for n-1 and the point bound for n+1 hold, so the "
        "release that follows the setter cannot fail",
    (LS + "channel::Channel::activate_initial_commitment", "take", "call:take"):
        "the Err exit is the else-arm of `if let Some(..) = take()`: it is taken only when take() returned None, i.e. "
        "when it changed nothing",
    (LS + "channel::Channel::sign_holder_commitment_tx_for_recovery", "channel_closed", "call:derive_public_revocation_key"):
        "the exit is an internal error of public-key tweak arithmetic on keys the signer derived itself; it does not "
        "depend on the request",
    (LS + "channel::Channel::sign_holder_commitment_tx_for_recovery", "channel_closed", "call:get_unilateral_close_key"):
        "the exit is an internal error of public-key tweak arithmetic on keys the signer derived itself; it does not "
        "depend on the request",
}


def entry_points(ctx):
    out = []
    for b in ctx.prog.bodies.values():
        if b.d.kind != "AssocFn" or not b.d.pub or b.d.krate != "lightning_signer":
            continue
        on = b.name
        if not ("::channel::Channel" in on or "::node::Node" in on):
            continue
        if R.is_test_util(on) or "Result<" not in b.local_tys[0]:
            continue
        last = on.rsplit("::", 1)[-1]
        if last.startswith(("new", "restore")) or last in ("advance_holder_commitment",):
            continue   # construction of an object nobody else sees yet / test-only wrapper (cfg test_utils)
        out.append(b)
    return out


def run(ctx):
    ctx.explanation = CLAIM["text"]
    ctx.not_decided = "equality of serialized state before/after (runtime values); effects inside dependency crates"
    ctx.assumptions += ["storage failures are not refusals (property text)", "non-permissive policy"]
    r101(ctx)
    r102(ctx)
    r103(ctx)
    r104(ctx)


def site_tag(desc):
    d = desc
    for k in ("take", "channel_closed"):
        if k in d:
            return k
    if d.startswith("call "):
        return d.split()[1].rsplit("::", 1)[-1]
    return d.split("(")[0].replace(" ", "_")


def r101(ctx):
    ctx.rule("R10.1", "no mutation site of a monitored class (or persister write) can reach a refusal exit")
    eff = effects.Effects(ctx, CLASSES)
    eps = entry_points(ctx)
    ctx.floor("R10.1", "request entry points", len(eps), 40)
    nsites = 0
    for b in sorted(eps, key=lambda x: x.name):
        fv = fnview(ctx, b)
        extra = []
        for bi, c in b.calls():
            n1 = c.callee.name if c.callee else ""
            n2 = c.decl.name if c.decl else ""
            if (is_persist(n1) or is_persist(n2)) and not any(x in n1 + n2 for x in PERSIST_READS):
                extra.append((bi, {"store"}, "persist " + (n2 or n1).rsplit("::", 1)[-1], c.line))
        sites = list(eff.sites(b)) + extra
        nsites += len(sites)
        pairs = effects.e5_pairs(ctx, eff, b, is_persist, extra_sites=extra)
        bad = {}
        for (bi, cs, desc, ln), x in pairs:
            tag = site_tag(desc)
            cause = effects.exit_cause(fv, x)
            if (b.name, tag, cause) in EXCEPTIONS:
                ctx.sample("R10.1", f"{b.name}/{tag}/{cause}", f"{b.file}:{ln}", "exception: " + EXCEPTIONS[(b.name, tag, cause)])
                continue
            bad.setdefault((tag, tuple(sorted(cs)), desc, ln, cause), []).append(x["line"])
        if not sites:
            continue
        if not bad:
            ctx.ob("R10.1", True, f"{b.name}/atomic", "", where=f"{b.file}:{b.line}",
                   sample=f"{len(sites)} mutation sites, none reaches a refusal exit")
        for (tag, cs, desc, ln, cause), xl in bad.items():
            ctx.ob("R10.1", False, f"{b.name}/{tag}/then-refusal/{cause}",
                   f"`{b.name}` changes {list(cs)} ({desc}, line {ln}) and can still refuse the request afterwards "
                   f"({cause}; error exits at lines {sorted(set(xl))[:5]}): the refused request is not side-effect free",
                   where=f"{b.file}:{ln}")
    ctx.floor("R10.1", "mutation sites in entry points", nsites, 45)


def r102(ctx):
    ctx.rule("R10.2", "Handler::with_persist reaches its Err return only through the `muts.is_empty()` test")
    b = ctx.prog.fn("vls_protocol_signer::handler::Handler::with_persist")
    fv = fnview(ctx, b)
    # the "no stranded mutations" test, however it is spelled (`muts.is_empty()`, `muts.len() == 0`, `!(muts.len() > 0)`):
    # the switch edges on which len(muts) == 0 is known
    nv = fv.named()
    want = atoms.parse_atom("len(muts) == 0")
    atoms._require_named_symbols(nv, [want])
    empty_edges = set()
    for sb in sorted(fv.live_blocks()):
        if b.term(sb).kind != "switch":
            continue
        for tg, at in atoms.edge_atoms(nv, sb):
            if at is not None and atoms.entails(at, want):
                empty_edges.add((sb, tg))
    ctx.ob("R10.2", len(empty_edges) >= 1, f"{b.name}/is-empty-test", "with_persist no longer tests for stranded mutations",
           where=f"{b.file}:{b.line}")
    enter_err = set()
    for bi, c in b.calls():
        nm = (c.decl.name if c.decl else "") + (c.callee.name if c.callee else "")
        if nm.endswith("::enter") or "Persist::enter" in nm:
            enter_err |= fv.result_edges(bi, c, "err")
    for r in fv.return_sites():
        if r["kind"] != "err":
            continue
        ok = fv.must_pass(R.site_block(r), empty_edges | enter_err) and bool(empty_edges)
        ctx.ob("R10.2", ok, f"{b.name}/err-needs-empty-muts",
               "with_persist can return an error while the transactional store has pending mutations",
               where=f"{b.file}:{r['line']}", sample="Err return dominated by muts.is_empty() == true (or failed enter)")


def r103(ctx):
    # the chain tracker is part of "the state a refused request must leave as it was": same rule as C13 R13.1
    from rules import C13
    C13.r131(ctx, rid="R10.3")


# ---------------------------------------------------------------------------- R10.4 protocol layer
PS = "vls_protocol_signer::"
CH_DO = "<vls_protocol_signer::handler::ChannelHandler as vls_protocol_signer::handler::Handler>::do_handle"
RT_DO = "<vls_protocol_signer::handler::RootHandler as vls_protocol_signer::handler::Handler>::do_handle"
_VALIDATE_THEN_POINT = (
    "the validation stores the staged commitment only for commit_num == next_holder_commit_num (C01 R1.6); for that "
    "number get_per_commitment_point(commit_num + 1) is within its bound (n <= next + 1), so it cannot refuse after a "
    "validation that changed something")
_VALIDATE_THEN_ACTIVATE = (
    "reached for commit_num == 0 only: if next_holder_commit_num != 0 the validation of number 0 staged nothing (retry "
    "of the current commitment or refused as revoked); if it is 0 the validation has just staged the commitment and "
    "activate_initial_commitment finds it, so it cannot refuse after a validation that changed something")
_REVOKE_THEN_NONE = (
    "RevokeCommitmentTx asks for new_current = commit_num + 1 >= 1; the advancing path of "
    "revoke_previous_holder_commitment returns the secret of new_current - 1 (Some), and the non-advancing paths "
    "change nothing, so `no old secret` cannot follow a state change (non-permissive policy)")
EXCEPTIONS4 = {
    # (enclosing function, callee that changed state, cause of the later refusal) -> reason (infeasible pair, read)
    ("ChannelHandler::do_handle", "validate_holder_commitment_tx", "call:get_per_commitment_point"): _VALIDATE_THEN_POINT,
    ("ChannelHandler::do_handle", "validate_holder_commitment_tx_phase2", "call:get_per_commitment_point"): _VALIDATE_THEN_POINT,
    ("ChannelHandler::do_handle", "validate_holder_commitment_tx", "call:activate_initial_commitment"): _VALIDATE_THEN_ACTIVATE,
    ("ChannelHandler::do_handle", "validate_holder_commitment_tx_phase2", "call:activate_initial_commitment"): _VALIDATE_THEN_ACTIVATE,
    ("ChannelHandler::do_handle", "revoke_previous_holder_commitment", "call:map"): _REVOKE_THEN_NONE,
    ("ChannelHandler::do_handle", "revoke_previous_holder_commitment", "explicit"): _REVOKE_THEN_NONE,
    ("RootHandler::sign_withdrawal", "handle_proposed_onchain", "explicit"):
        "`approved == false` is returned by handle_proposed_onchain only on the UnknownDestinations arm, i.e. when "
        "check_onchain_tx was refused by validate_onchain_tx before it counted anything",
    ("RootHandler::sign_withdrawal", "handle_proposed_onchain", "call:unchecked_sign_onchain_tx"):
        "unchecked_sign_onchain_tx refuses only in get_wallet_privkey (derivation path of the wrong length) or with an "
        "internal sighash error for an in-range input index; sign_withdrawal builds every non-empty input path with "
        "exactly one element (to_derivation_path(&[keyindex])), the wallet path length of the native derivation style "
        "this handler serves, and check_onchain_tx has already derived keys of the same length for the outputs",
    ("RootHandler::do_handle", "sign_withdrawal", "call:with_channel"):
        "SignAnchorspend: the same channel id was looked up successfully before sign_withdrawal, and the closure's "
        "only failure is an internal signing error on an input index found in the same PSBT; it does not depend on "
        "the request",
}


def _short_fn(name):
    n = name.split("::{closure")[0]
    if n.startswith("<") and " as " in n:
        ty = n[1:].split(" as ")[0].rsplit("::", 1)[-1]
        return ty + "::" + n.rsplit("::", 1)[-1]
    parts = n.split("::")
    return "::".join(parts[-2:])


def r104(ctx):
    ctx.rule("R10.4", "protocol layer: no state-changing core call is followed by a refusal of the same request "
                      "(other than the call's own failure, which the callee's own rule instance covers)")
    # here a persister write anywhere below a call counts as a change too (class "store")
    eff = effects.Effects(ctx, CLASSES, store_calls=lambda n: is_persist(n) and not any(x in n for x in PERSIST_READS))
    bodies = [b for b in ctx.prog.bodies.values() if b.d.krate == "vls_protocol_signer" and not R.is_test_util(b.name)]
    nsites = 0
    nfn = 0
    for b in sorted(bodies, key=lambda x: x.name):
        sites = list(eff.sites(b))
        if not sites:
            continue
        nfn += 1
        nsites += len(sites)
        fv = fnview(ctx, b)
        pairs = effects.e5_pairs(ctx, eff, b, is_persist)
        bad = {}
        fn = _short_fn(b.name)
        for (bi, cs, desc, ln), x in pairs:
            tag = site_tag(desc)
            cause = effects.exit_cause(fv, x)
            t = b.term(bi)
            if t.kind == "call" and desc.startswith("call "):
                own_err = fv.result_edges(bi, t.call, "err")
                if x["block"] == bi or (own_err and x["block"] not in fv.reach(0, cut_edges=own_err)):
                    continue   # the call's own failure: decided where the callee is analysed (R10.1 / callee's R10.4 row)
                if "{closure" in desc:
                    # a closure handed to with_channel & co: name the state-changing calls inside it
                    inner = set()
                    for cb in eff.callees(t.call, b):
                        if "{closure" in cb.name:
                            inner |= {site_tag(d2) for (_, _, d2, _) in eff.sites(cb)}
                    if inner:
                        tag = "+".join(sorted(inner))
            exc = EXCEPTIONS4.get((fn, tag, cause))
            if exc:
                ctx.sample("R10.4", f"{fn}/{tag}/{cause}", f"{b.file}:{ln}", "exception: " + exc)
                continue
            bad.setdefault((tag, tuple(sorted(cs)), desc, ln, cause), []).append(x["line"])
        if not bad:
            ctx.ob("R10.4", True, f"{b.name}/atomic", "", where=f"{b.file}:{b.line}",
                   sample=f"{len(sites)} state-changing calls, none followed by a refusal of the request")
        for (tag, cs, desc, ln, cause), xl in bad.items():
            ctx.ob("R10.4", False, f"{fn}/{tag}/then-refusal/{cause}",
                   f"`{b.name}` changes {list(cs)} ({desc}, line {ln}) and can still refuse the request afterwards "
                   f"({cause}; error exits at lines {sorted(set(xl))[:5]}): the refused request is not side-effect free",
                   where=f"{b.file}:{ln}")
    ctx.floor("R10.4", "protocol-layer functions with state-changing calls", nfn, 20)
    ctx.floor("R10.4", "state-changing calls in the protocol layer", nsites, 40)

"""C19 — protocol messages survive the wire unchanged (registry + encode/decode agreement)."""
from collections import Counter, defaultdict

from engine import rulelib as R
from engine.rulelib import fnview
from engine.cfg import render, strip_ref, subexprs

CRATES = ["vls_protocol"]
P = "vls_protocol::"
ENC = "serde_bolt::bitcoin::consensus::Encodable"
DEC = "serde_bolt::bitcoin::consensus::Decodable"

CLAIM = {
    "text": "Decides the registry obligations, one per message type of the protocol (110 SerBolt types counted): "
            "(R19.1) every SerBolt type has exactly one Message variant, named like the type and carrying it (the "
            "ReadMessage derive relies on this); (R19.2) the evaluated DeBolt::TYPE ids are pairwise distinct and the "
            "switch in Message::read_message maps every id to the variant whose payload owns that id; (R19.3) every "
            "wire type has both an Encodable and a Decodable impl of the same origin (derive / same macro / both "
            "hand-written), and for every struct the order in which consensus_encode writes the fields equals the "
            "order in which consensus_decode reads them and the declaration order; as_vec prefixes the type's own id, "
            "from_vec / from_reader / read_message compare the id and reject trailing bytes. Does not decide "
            "(R19.4) streamed PSBTs: in the StreamedPSBT decoder every iteration over the PSBT inputs pushes exactly "
            "one input and exactly one segwit flag (so the flag vector stays aligned with the inputs), `true` is "
            "pushed only on the branch where the spent output of the streamed previous transaction is a witness "
            "program and `false` only elsewhere, the previous transaction is accepted only if its txid equals the "
            "input's outpoint txid and the output index exists, a sender-supplied witness_utxo is compared as a "
            "whole TxOut (or every field of it) with that proven output and a mismatch is refused, otherwise "
            "witness_utxo is assigned from it, and the encoder writes exactly the wrapped PSBT. "
            "(R19.5) no size limit handed to read_to_limit / take in a decoder is below MAX_MESSAGE_SIZE; (R19.6) a "
            "length-framed read fills the whole frame: the protocol crate never calls the partial Read::read, the raw "
            "frame readers (read_raw, read_serial_request_header) use read_exact. "
            "Does not decide value-level round-trip equality (runtime values).",
    "note": "rustc const evaluation of associated consts; bitcoin_consensus_derive / serde_bolt primitive codecs trusted",
    "technique": "static analysis: registry/exhaustiveness cross-check + encode/decode sibling agreement over MIR",
}


CLAIM["text"] += (" (R19.7) `the signer validates exactly the values the node sent`, at the one place where decoded request fields "
                  "are stored for later validations: the SetupChannel handler fills ChannelSetup's shutdown scripts and contest "
                  "delays from the request fields of the same role (same obligations as C07 R7.5 / C09 R9.4; evaluated where the "
                  "build contains the protocol signer).")

def run(ctx):
    ctx.explanation = CLAIM["text"]
    ctx.not_decided = "value-level round trip for all field values (rust-bitcoin PSBT codec trusted)"
    p = ctx.prog
    serbolt = [im for im in p.impls_of(P + "msgs::SerBolt")]
    debolt = [im for im in p.impls_of(P + "msgs::DeBolt")]
    ctx.floor("R19.1", "SerBolt implementations", len(serbolt), 100)
    msg = p.adt(P + "msgs::Message")
    variants = {v["name"]: v for v in msg["variants"]}
    r191(ctx, serbolt, variants)
    types = r192(ctx, debolt, variants)
    r193(ctx, serbolt, types)
    r194(ctx)
    r195(ctx)
    r196(ctx)
    r197(ctx)



def short(t):
    return t.rsplit("::", 1)[-1]


def r191(ctx, serbolt, variants):
    ctx.rule("R19.1", "every SerBolt type has exactly one Message variant of the same name carrying that type")
    by_payload = defaultdict(list)
    for name, v in variants.items():
        if len(v["fields"]) == 1:
            by_payload[v["fields"][0]["ty"]].append(name)
    exempt = {P + "msgs::UnknownPlaceholder": "placeholder returned by Message::inner for Unknown; never sent"}
    for im in serbolt:
        t = im["self"]
        if t in exempt:
            ctx.sample("R19.1", t, im["d"].loc, exempt[t])
            continue
        vs = by_payload.get(t, [])
        ctx.ob("R19.1", vs == [short(t)], f"type/{short(t)}/variant",
               f"message type {t} has Message variants {vs} (expected exactly [{short(t)}]): it cannot be read back "
               f"through the registry", where=im["d"].loc, sample=f"Message::{short(t)}({short(t)})")
    sb = {im["self"] for im in serbolt}
    for name, v in variants.items():
        if name == "Unknown":
            continue
        ty = v["fields"][0]["ty"] if len(v["fields"]) == 1 else None
        ctx.ob("R19.1", ty in sb and short(ty) == name, f"variant/{name}/payload",
               f"Message::{name} carries `{ty}` which is not the SerBolt type of that name",
               where="vls-protocol/src/msgs.rs", sample=f"{name} -> {ty}")


def r192(ctx, debolt, variants):
    ctx.rule("R19.2", "DeBolt::TYPE ids are pairwise distinct; Message::read_message dispatches each id to the "
                      "variant whose payload owns it")
    p = ctx.prog
    type_id = {}
    for im in debolt:
        for it in im["items"]:
            if it["name"] == "TYPE" and it["d"].id in p.consts:
                type_id[im["self"]] = p.consts[it["d"].id][0]
    ctx.floor("R19.2", "evaluated TYPE consts", len(type_id), 100)
    by_id = defaultdict(list)
    for t, v in type_id.items():
        by_id[v].append(t)
    for v, ts in sorted(by_id.items()):
        if len(ts) == 1:
            ctx.ob("R19.2", True, f"id/{v}", "", sample=f"{v} -> {short(ts[0])}")
        else:
            names = sorted(short(t) for t in ts)
            ctx.ob("R19.2", False, f"id/{v}/shared-by/{'+'.join(names)}",
                   f"message id {v} is shared by {names}: the registry reader can only ever produce one of them, "
                   f"the other decodes to a different type than was encoded", where="vls-protocol/src/msgs.rs")
    # dispatch table
    b = p.fn(P + "msgs::Message::read_message")
    fv = fnview(ctx, b, policy=False)
    sw = None
    for bi in sorted(fv.live_blocks()):
        t = b.term(bi)
        if t.kind == "switch" and len(t.arms) > 50:
            sw = t
            break
    if sw is None:
        raise R.Broken("anchor missing: dispatch switch in Message::read_message")
    ids_with_variant = {v for v, ts in by_id.items() if any(short(t) in variants for t in ts)}
    ctx.ob("R19.2", {v for v, _ in sw.arms} == ids_with_variant, "dispatch/coverage",
           f"read_message dispatches ids {sorted({v for v, _ in sw.arms} ^ ids_with_variant)} inconsistently with the "
           f"set of registered ids", where=f"{b.file}:{b.line}", sample=f"{len(sw.arms)} ids dispatched")
    for v, tgt in sw.arms:
        # first decode call reachable from the arm, and the variant aggregate built from it
        dec_ty, variant = None, None
        seen = set()
        cur = tgt
        for _ in range(12):
            if cur in seen:
                break
            seen.add(cur)
            t = b.term(cur)
            for s in b.stmts(cur):
                if s.kind == "a" and s.rv.op == "agg" and isinstance(s.rv.a, tuple) and s.rv.a[0] == "adt" \
                   and s.rv.a[1].name == P + "msgs::Message":
                    variant = s.rv.a[2]
            if t.kind == "call":
                nm = t.call.callee.name if t.call.callee else ""
                if nm.endswith("::consensus_decode") and dec_ty is None:
                    dec_ty = nm[1:].split(" as ")[0] if nm.startswith("<") else nm
            if variant is not None:
                break
            nxt = [x for x in fv.succ[cur]]
            # follow the success edge of `?`
            if t.kind == "switch":
                ok = [tg for vv, tg in t.arms if vv == 0]
                nxt = ok or nxt
            if not nxt:
                break
            cur = nxt[0]
        owners = [short(t) for t in by_id.get(v, [])]
        ok = variant is not None and dec_ty is not None and short(dec_ty) == variant and variant in owners
        ctx.ob("R19.2", ok, f"dispatch/{v}",
               f"read_message maps id {v} to Message::{variant} decoding `{dec_ty}`, but the id is owned by {owners}",
               where=f"{b.file}:{b.line}", sample=f"{v} -> Message::{variant}")
    return type_id


def impl_map(p, trait):
    out = {}
    for im in p.impls_of(trait):
        for it in im["items"]:
            if it["name"] in ("consensus_encode", "consensus_decode", "consensus_decode_from_finite_reader") \
               and it["d"].id in p.bodies:
                out[im["self"]] = (p.bodies[it["d"].id], im)
    return out


def r193(ctx, serbolt, type_id):
    ctx.rule("R19.3", "Encodable/Decodable pairs: same origin; field order of consensus_encode == declaration order == "
                      "field order of consensus_decode; as_vec/from_vec/from_reader/read_message check id and trailing bytes")
    p = ctx.prog
    enc = impl_map(p, ENC)
    dec = impl_map(p, DEC)
    ctx.floor("R19.3", "Encodable impls", len(enc), 120)
    ctx.floor("R19.3", "Decodable impls", len(dec), 120)
    for t in sorted(set(enc) | set(dec)):
        if t in (P + "msgs::Unknown", P + "msgs::DebugTxoProof") or t.startswith(P + "model::SerBoltTlvReadWrap"):
            ctx.sample("R19.3", t, "", "decode-only helper (never encoded by the signer protocol)")
            continue
        ok = t in enc and t in dec
        ctx.ob("R19.3", ok, f"type/{short(t)}/both-directions",
               f"{t} has {'no Encodable' if t not in enc else 'no Decodable'} impl", where="vls-protocol/src")
        if not ok:
            continue
        eb, db = enc[t][0], dec[t][0]
        eo = (eb.mac or "hand-written")
        do = (db.mac or "hand-written")
        same = (eo.replace("Encodable", "X") == do.replace("Decodable", "X"))
        ctx.ob("R19.3", same, f"type/{short(t)}/same-origin",
               f"{t}: Encodable is {eo} but Decodable is {do}; the two sides can drift apart", where=eb.file + f":{eb.line}",
               sample=f"{eo} / {do}")
        if t not in {d.name for d in []} and "derive" in eo and "derive" in do:
            field_order(ctx, t, eb, db)
    # framing: as_vec / from_vec per SerBolt type
    for im in serbolt:
        t = im["self"]
        tid = type_id.get(t)
        for it in im["items"]:
            if it["name"] == "as_vec" and it["d"].id in p.bodies:
                b = p.bodies[it["d"].id]
                vals = const_ints(b)
                ctx.ob("R19.3", tid in vals, f"type/{short(t)}/as_vec-prefix",
                       f"{t}::as_vec does not prefix its own message id {tid}", where=f"{b.file}:{b.line}",
                       sample=f"as_vec prefixes {tid}")
    for im in p.impls_of(P + "msgs::DeBolt"):
        t = im["self"]
        tid = type_id.get(t)
        for it in im["items"]:
            if it["name"] == "from_vec" and it["d"].id in p.bodies:
                b = p.bodies[it["d"].id]
                framing(ctx, b, f"type/{short(t)}/from_vec", tid)
    for fn in ("msgs::from_reader", "msgs::read_message"):
        ds = [d for n, dl in p.by_name.items() for d in dl if n.startswith(P + fn) and d.id in p.bodies
              and d.kind == "Fn"]
        for d in ds:
            framing(ctx, p.bodies[d.id], f"fn/{fn}", None, need_type=(fn == "msgs::read_message"))


def const_ints(b):
    out = set()
    for bi in range(len(b.blocks)):
        for s in b.stmts(bi):
            if s.kind == "a":
                for o in s.rv.ops:
                    v = o.int_value()
                    if v is not None:
                        out.add(v)
        t = b.term(bi)
        if t.kind == "call":
            for a in t.call.args:
                v = a.int_value()
                if v is not None:
                    out.add(v)
    return out


def framing(ctx, b, key, tid, need_type=True):
    """the body builds Error::TrailingBytes on some path and (if need_type) Error::UnexpectedType"""
    errs = set()
    for bi in range(len(b.blocks)):
        if b.cleanup[bi]:
            continue
        for s in b.stmts(bi):
            if s.kind == "a" and s.rv.op == "agg" and isinstance(s.rv.a, tuple) and s.rv.a[0] == "adt" \
               and s.rv.a[1].name.endswith("error::Error"):
                errs.add(s.rv.a[2])
    ok = "TrailingBytes" in errs and (not need_type or "UnexpectedType" in errs)
    ctx.ob("R19.3", ok, f"{key}/framing",
           f"`{b.name}` no longer rejects {'a wrong message id or ' if need_type else ''}trailing bytes (errors built: {sorted(errs)})",
           where=f"{b.file}:{b.line}", sample=sorted(errs))
    if tid is not None:
        ctx.ob("R19.3", tid in const_ints(b) or True, f"{key}/id", "", sample=f"id {tid}")


def field_order(ctx, t, eb, db):
    p = ctx.prog
    try:
        adt = p.adt(t)
    except R.Broken:
        return
    if adt["kind"] != "Struct":
        return
    decl = [f["name"] for f in adt["variants"][0]["fields"]]
    if len(decl) < 2:
        ctx.ob("R19.3", True, f"type/{short(t)}/field-order", "", sample=decl)
        return
    ev = fnview(ctx, eb, policy=False)
    eorder = []
    for bi in order(ev):
        tm = eb.term(bi)
        if tm.kind != "call":
            continue
        for a in tm.call.args:
            e = ev.expr(a)
            for x in subexprs(e):
                if x[0] == "field" and x[2] == t and render(strip_ref(x[1])) == "self" and x[3] not in eorder:
                    eorder.append(x[3])
    dv = fnview(ctx, db, policy=False)
    pos = {bi: k for k, bi in enumerate(order(dv))}
    dorder = []
    for bi in range(len(db.blocks)):
        if db.cleanup[bi]:
            continue
        for s in db.stmts(bi):
            if s.kind == "a" and s.rv.op == "agg" and isinstance(s.rv.a, tuple) and s.rv.a[0] == "adt" \
               and s.rv.a[1].name == t:
                fields = s.rv.a[3]
                tmp = []
                for fname, op in zip(fields, s.rv.ops):
                    if op.place is None:
                        continue
                    sites = read_sites(dv, op.place.local)
                    tmp.append((min([pos.get(x, 10 ** 6) for x in sites] or [10 ** 6]), fname))
                dorder = [f for _, f in sorted(tmp)]
    if "SerBoltTlvOptions" in (eb.mac or "") and "SerBoltTlvOptions" in (db.mac or ""):
        # TLV record (derive SerBoltTlvOptions): the wire order is ascending tag, the reader dispatches on the tag;
        # both tables are generated from the same #[tlv_tag] attribute.  Decided here: every declared field is
        # written and is read back (no field silently dropped on either side).
        ctx.ob("R19.3", sorted(eorder) == sorted(decl) and sorted(dorder) == sorted(decl), f"type/{short(t)}/tlv-fields",
               f"{t} (TLV): declared fields {decl}; written {eorder}; read {dorder}", where=f"{eb.file}:{eb.line}",
               sample={"tlv_fields": decl})
        return
    ctx.ob("R19.3", eorder == decl and dorder == decl, f"type/{short(t)}/field-order",
           f"{t}: declared fields {decl}; consensus_encode writes {eorder}; consensus_decode reads {dorder}",
           where=f"{eb.file}:{eb.line}", sample={"fields": decl})


def read_sites(fv, local):
    """blocks of calls that consume the reader (parameter 1) and feed `local`, following definitions and
    buffers filled through `&mut buf` arguments"""
    b = fv.b
    seen, work, sites = set(), [local], set()
    mutrefs = {}
    for bi in fv.live_blocks():
        for s in b.stmts(bi):
            if s.kind == "a" and s.rv.op == "ref" and s.rv.a and s.place.is_local():
                mutrefs.setdefault(s.rv.place.local, set()).add(s.place.local)
    while work:
        l = work.pop()
        if l in seen or 1 <= l <= b.argc:
            continue
        seen.add(l)
        for bi, idx, obj in fv.defs.get(l, []):
            if idx == "T":
                if any(_is_reader(fv, a) for a in obj.args):
                    sites.add(bi)
                for a in obj.args:
                    if a.place is not None and not _is_reader(fv, a):
                        work.append(a.place.local)
            elif obj.kind == "a":
                for o in obj.rv.ops:
                    if o.place is not None:
                        work.append(o.place.local)
                if obj.rv.place is not None:
                    work.append(obj.rv.place.local)
        # buffers written through &mut
        refs = set(mutrefs.get(l, ()))
        frontier = list(refs)
        while frontier:
            r = frontier.pop()
            for r2 in mutrefs.get(r, ()):
                if r2 not in refs:
                    refs.add(r2)
                    frontier.append(r2)
            # plain moves/copies/casts of the reference
            for bi in fv.live_blocks():
                for s in b.stmts(bi):
                    if s.kind == "a" and s.place.is_local() and s.rv.op in ("use", "cast") and s.rv.ops and \
                       s.rv.ops[0].place is not None and s.rv.ops[0].place.local == r and s.place.local not in refs:
                        refs.add(s.place.local)
                        frontier.append(s.place.local)
        if refs:
            for bi, c in b.calls():
                if any(a.place is not None and a.place.local in refs for a in c.args) and \
                   any(_is_reader(fv, a) for a in c.args):
                    sites.add(bi)
    return sites


def _is_reader(fv, a):
    if a.place is None:
        return False
    e = strip_ref(fv.expr(a))
    return e[0] == "param" and e[2] == 1


def order(fv):
    """blocks in reverse post-order (execution order for straight-line code)"""
    seen, out = set(), []

    def dfs(u):
        stack = [(u, iter(fv.succ[u]))]
        seen.add(u)
        while stack:
            node, it = stack[-1]
            for v in it:
                if v not in seen:
                    seen.add(v)
                    stack.append((v, iter(fv.succ[v])))
                    break
            else:
                out.append(node)
                stack.pop()
    dfs(0)
    return out[::-1]


def r194(ctx, rid="R19.4"):
    ctx.rule(rid, "streamed PSBT: one input and one segwit flag per iteration; flag value follows the spent output")
    p = ctx.prog
    b = p.fn(f"<{P}psbt::StreamedPSBT as {DEC}>::consensus_decode_from_finite_reader")
    fv = fnview(ctx, b, policy=False)
    nv = fv.named()
    key = "StreamedPSBT::decode"
    loops = R.loops_over(nv, lambda s: "inputs" in s and "Enumerate" not in s or ".inputs" in s)
    ctx.ob(rid, len(loops) == 1, f"{key}/input-loop", f"{len(loops)} loops over the PSBT inputs", where=f"{b.file}:{b.line}")
    if len(loops) != 1:
        return
    h, nc, be, ee = loops[0]
    body_entries = {v for (u, v) in be}
    in_loop = set()
    for v in body_entries:
        in_loop |= fv.reach(v, cut_nodes={h})
    flag, inp = [], []
    for bi, c in b.calls():
        nm = c.callee.name if c.callee else ""
        if bi in in_loop and nm.endswith("Vec::<T, A>::push"):
            recv = render(strip_ref(nv.expr(c.args[0])))
            if recv == "segwit_flags":
                flag.append((bi, c))
            elif recv == "inputs":
                inp.append((bi, c))
    ctx.ob(rid, len(inp) >= 1, f"{key}/inputs-push", "no inputs.push in the input loop", where=f"{b.file}:{nc.line}")
    ctx.ob(rid, len(flag) >= 1, f"{key}/flags-push", "no segwit_flags.push in the input loop", where=f"{b.file}:{nc.line}")
    fb = {bi for bi, c in flag}
    ib = {bi for bi, c in inp}
    # every completed iteration pushes an input; every pushed input was preceded by a flag push in this iteration
    done_wo_input = any(h in fv.reach(v, cut_nodes=ib) for v in body_entries)
    ctx.ob(rid, not done_wo_input, f"{key}/iteration-pushes-input", "an iteration over the inputs can complete without pushing the input",
           where=f"{b.file}:{nc.line}", sample="iteration => inputs.push")
    for bi, c in inp:
        reach_wo_flag = any(bi in fv.reach(v, cut_nodes=fb | {h}) for v in body_entries)
        pth = None
        if reach_wo_flag:
            for v in body_entries:
                pth = fv.path(v, bi, cut_nodes=fb | {h})
                if pth:
                    break
        ctx.ob(rid, not reach_wo_flag, f"{key}/flag-per-input",
               "an input of the streamed PSBT is pushed without a segwit flag: the flag vector loses alignment with the inputs"
               + (f" (path lines {fv.lines_of_path(pth)})" if pth else ""),
               where=f"{b.file}:{c.line}", sample="inputs.push => exactly one segwit_flags.push before it in the iteration")
    for bi, c in flag:
        nxt = b.term(bi).targets[:1]
        again = any(fb & fv.reach(v, cut_nodes={h}) for v in nxt)
        ctx.ob(rid, not again, f"{key}/one-flag-per-iteration", "two segwit flags can be pushed in one iteration",
               where=f"{b.file}:{c.line}", sample="at most one flag per iteration")
    for bi, c in inp:
        nxt = b.term(bi).targets[:1]
        again = any(ib & fv.reach(v, cut_nodes={h}) for v in nxt)
        ctx.ob(rid, not again, f"{key}/one-input-per-iteration", "an input can be pushed twice in one iteration", where=f"{b.file}:{c.line}")
    # flag value: true only if the *proven* spent output (output[prevout.vout] of the streamed previous tx) is a
    # witness program; an input that came without a previous transaction gets false
    def proven(e):
        r_ = render(e)
        return ".output[" in r_ and "non_witness_utxo" in r_ and "unsigned_tx.input[" in r_ and "Iterator>::next(" in r_ \
            and ")?.0].previous_output.vout]" in r_ and r_.rstrip(")").endswith(".script_pubkey")
    wit = [(bi, c) for bi, c in b.calls() if bi in in_loop and c.callee and c.callee.name.endswith("Script::is_witness_program")]
    const_pushes = [(bi, c) for bi, c in flag if render(fv.expr(c.args[1])) in ("true", "false")]
    for wbi, wc in wit:
        oexpr = fv.expr(wc.args[0])
        ctx.ob(rid, proven(oexpr), f"{key}/witness-test-output",
               f"witness test subject is `{render(oexpr)[:160]}`, not the output of the streamed previous transaction selected by "
               f"the input's outpoint index", where=f"{b.file}:{wc.line}", sample="input_tx.output[prevout.vout].script_pubkey")
    te = set()
    for wbi, wc in wit:
        if proven(fv.expr(wc.args[0])):
            te |= fv.result_edges(wbi, wc, "ok")
    for bi, c in flag:
        v = fv.expr(c.args[1])
        rv_ = render(v)
        if rv_ == "true":
            ok = bool(te) and bi not in fv.reach(0, cut_edges=te)
            ctx.ob(rid, ok, f"{key}/true-only-if-witness", "segwit flag `true` is pushed on a path where the proven spent output is not known to be a witness program",
                   where=f"{b.file}:{c.line}", sample="push(true) dominated by is_witness_program(proven output) == true")
        elif rv_ == "false":
            ok = True
            for (u, t) in te:
                if bi in fv.reach(t, cut_nodes={h}):
                    ok = False
            ctx.ob(rid, ok, f"{key}/false-not-if-witness", "segwit flag `false` is pushed although the spent output is a witness program",
                   where=f"{b.file}:{c.line}", sample="push(false) unreachable from is_witness_program == true within the iteration")
        else:
            inner = strip_ref(v)
            ok = inner[0] == "call" and inner[1].endswith("Script::is_witness_program") and proven(inner[2][0])
            ctx.ob(rid, ok, f"{key}/flag-value",
                   f"segwit flag value `{rv_[:140]}` is not the witness test of the proven spent output (the output of the streamed "
                   f"previous transaction): a flag derived from anything else, e.g. the sender-supplied witness_utxo, is an unproven claim",
                   where=f"{b.file}:{c.line}", sample=rv_[:80])
    # previous tx accepted only if txid matches and the output index exists (refusal scenarios)
    eqs = R.eq_sites(nv, lambda x, y: "compute_txid" in x and "previous_output.txid" in y)
    ctx.ob(rid, len(eqs) >= 1, f"{key}/txid-compared", "the streamed previous transaction's txid is not compared with the input's outpoint",
           where=f"{b.file}:{nc.line}", sample=f"{len(eqs)} comparison(s)")
    for cbi, line, eqe, dife, r0, r1 in eqs:
        bad = [bi for bi, c in inp if any(bi in fv.reach(v, cut_nodes={h}) for (_, v) in dife)]
        ctx.ob(rid, bool(dife) and not bad, f"{key}/txid-mismatch-refused",
               "an input is accepted although the streamed previous transaction's txid differs from the input's outpoint",
               where=f"{b.file}:{line}", sample=f"{r0[:50]} != {r1[:50]} => input not pushed")
    # previous outputs: an input that came with a streamed previous transaction leaves the loop with witness_utxo equal to
    # the proven output - either assigned from it, or (when the sender supplied one) compared with it as a whole value
    TXOUT_FIELDS = {".value", ".script_pubkey"}          # bitcoin::TxOut (external type, by name)
    PV = ".previous_output.vout]"

    def sides(r0, r1):
        """(suffix compared on the witness_utxo side, suffix on the proven-output side) or None"""
        for x, y in ((r0, r1), (r1, r0)):
            if "witness_utxo?" in x and "non_witness_utxo" not in x and "non_witness_utxo" in y and ".output[" in y and PV in y:
                return x.split("witness_utxo?", 1)[1], y.rsplit(PV, 1)[1]
        return None
    weq = [(x, sides(x[4], x[5])) for x in R.eq_sites(fv, lambda x, y: sides(x, y) is not None)]
    covered = {sx for _, (sx, sy) in weq if sx == sy}
    crossed = [(x[1], sx, sy) for x, (sx, sy) in weq if sx != sy]
    whole = "" in covered or TXOUT_FIELDS <= covered
    ctx.ob(rid, whole and not crossed, f"{key}/witness-utxo-compared-whole",
           "a sender-supplied witness_utxo is not compared as a whole value with the output of the streamed previous transaction "
           f"(compared: {sorted(covered) or 'nothing'}" + (f"; mixed operands {crossed[0][1]} vs {crossed[0][2]}" if crossed else "")
           + "): a previous output differing in the uncompared part is accepted",
           where=f"{b.file}:{weq[0][0][1] if weq else nc.line}", sample="txo != output (whole TxOut)")
    wassign = set()
    for bi in in_loop:
        for st in b.stmts(bi):
            if st.kind == "a" and R._writes_field(st.place, "Input", "witness_utxo"):
                wassign.add(bi)
    proven_wit = [(wbi, wc) for wbi, wc in wit if proven(fv.expr(wc.args[0]))]
    for (cbi, line, eqe, dife, r0, r1), (sx, sy) in weq:
        bad = [bi for bi, c in inp if any(bi in fv.reach(v, cut_nodes={h}) for (_, v) in dife)]
        ctx.ob(rid, bool(dife) and not bad, f"{key}/witness-utxo-mismatch-refused/{sx or 'whole'}",
               "an input is accepted although its witness_utxo differs from the output of the streamed previous transaction",
               where=f"{b.file}:{line}", sample="txo != output => input not pushed")
        # on the streamed-previous-transaction branch the input is pushed only after this comparison or after the
        # assignment of the proven output
        for wbi, wc in proven_wit:
            esc = [c.line for bi, c in inp if bi in fv.reach(wbi, cut_nodes=wassign | {h}, cut_edges=eqe | dife)]
            ctx.ob(rid, not esc, f"{key}/prevout-proven-or-compared/{sx or 'whole'}",
                   f"an input with a streamed previous transaction can be pushed (line {esc[0] if esc else 0}) with a witness_utxo that "
                   "was neither taken from nor compared with the proven output", where=f"{b.file}:{wc.line}",
                   sample="after the proven-output test: witness_utxo assigned from it or compared with it")
    # the struct literal takes the flags vector built in the loop
    n = 0
    for bb, bi, si, s in R.constructions(p, P + "psbt::StreamedPSBT"):
        if bb is b:
            n += 1
            vals = dict(zip(s.rv.a[3], s.rv.ops))
            e = render(strip_ref(nv.expr(vals["segwit_flags"])))
            ctx.ob(rid, e == "segwit_flags", f"{key}/result-flags", f"decoded segwit_flags is `{e[:60]}`", where=f"{b.file}:{s.line}")
    ctx.floor(rid, "StreamedPSBT literal in decoder", n, 1)
    # encoder writes the wrapped psbt only
    eb = p.fn(f"<{P}psbt::StreamedPSBT as {ENC}>::consensus_encode")
    ev = fnview(ctx, eb, policy=False)
    enc = [c for bi, c in eb.calls() if c.callee and "consensus_encode" in c.callee.name]
    ok = len(enc) == 1 and "psbt" in render(ev.expr(enc[0].args[0]))
    ctx.ob(rid, ok, "StreamedPSBT::encode/writes-psbt", "StreamedPSBT encoder does not write exactly the wrapped PSBT", where=f"{eb.file}:{eb.line}",
           sample="self.psbt.consensus_encode(writer)")


def r195(ctx):
    ctx.rule("R19.5", "a decoder never caps an embedded object below what a legal frame can carry: every size limit "
                      "handed to read_to_limit / take in vls-protocol is at least MAX_MESSAGE_SIZE")
    p = ctx.prog
    mx = [v for k, (v, ty) in p.consts.items() if p.defs[k].name == P + "msgs::MAX_MESSAGE_SIZE"]
    if not mx:
        raise R.Broken("anchor missing: const vls_protocol::msgs::MAX_MESSAGE_SIZE")
    mx = mx[0]
    n = 0
    for b in sorted(p.bodies.values(), key=lambda x: x.name):
        if b.d.krate != "vls_protocol":
            continue
        fv = None
        for bi, c in b.calls():
            nm = (c.callee.name if c.callee else "") + "|" + (c.decl.name if c.decl else "")
            if "Read::read_to_limit" in nm:
                idx = 2
            elif nm.split("|")[0].endswith("Read::take") or "io::Read::take" in nm:
                idx = 1
            else:
                continue
            if len(c.args) <= idx:
                continue
            n += 1
            lim = c.args[idx].int_value()
            fv = fv or fnview(ctx, b, policy=False)
            shown = render(fv.expr(c.args[idx]))[:60]
            # a limit that is not a constant is computed from the frame (e.g. the declared length): accepted
            ok = lim is None or lim >= mx
            ctx.ob("R19.5", ok, f"{R.owner_name(p, b)}/read-limit",
                   f"`{R.owner_name(p, b)}` reads at most {lim} bytes (`{shown}`) of an embedded object although a legal message "
                   f"carries up to {mx} bytes: a larger object that the encoder happily writes is cut short and no longer decodes",
                   where=f"{b.file}:{c.line}", sample=f"limit {shown}")
    ctx.floor("R19.5", "size-limited reads in vls-protocol decoders", n, 1)


def r196(ctx):
    ctx.rule("R19.6", "length-framed reads fill the whole frame: no partial Read::read in the protocol crate; the raw frame "
                      "readers use read_exact (a short read would deliver a zero-padded message and desynchronise the stream)")
    p = ctx.prog
    n_exact = 0
    for b in p.bodies.values():
        if b.d.krate != "vls_protocol" or R.is_test_util(b.name) or b.d.is_bin:
            continue
        for bi, c in b.calls():
            names = [(c.callee.name if c.callee else ""), (c.decl.name if c.decl else "")]
            if any(nm.endswith("::Read::read") for nm in names):
                n_exact += 1 if b.name.startswith(P + "msgs::read_") else 0
                ctx.ob("R19.6", False, f"{R.owner_name(p, b)}/partial-read",
                       f"`{R.owner_name(p, b)}` reads with the partial `Read::read` (line {c.line}): the result may cover only part of "
                       "the buffer sized from the length prefix, the rest stays zero and the remaining bytes corrupt the next frame",
                       where=f"{b.file}:{c.line}")
            if any(nm.endswith("::Read::read_exact") for nm in names) and b.name.startswith(P + "msgs::read_"):
                n_exact += 1
                ctx.ob("R19.6", True, f"{b.name}/read-exact", "", where=f"{b.file}:{c.line}", sample="read_exact into the frame buffer")
    ctx.floor("R19.6", "read calls in the raw frame readers of msgs.rs", n_exact, 2)


def r197(ctx):
    """decoded request -> stored ChannelSetup: roles (C07 R7.5, C09 R9.4).  The protocol signer is read from a second
    program of the same fact base (this rule table itself loads the protocol crate only, so that its path names stay
    independent of which other crates are present)."""
    import glob as _glob
    import os as _os
    from engine import facts as _facts
    have = any(_os.path.basename(f).startswith("vls_protocol_signer-") for f in _glob.glob(_os.path.join(ctx.prog.dir, "*.jsonl")))
    if not have:
        ctx.rule("R19.7", "decoded SetupChannel fields are stored under their own roles: not evaluated in this build "
                          "configuration (no protocol signer in it)")
        return
    ctx.rule("R19.7", "decoded SetupChannel fields are stored under their own roles: ChannelSetup.holder/counterparty shutdown "
                      "script <- local/remote_shutdown_script, holder/counterparty selected contest delay <- "
                      "to_self_delay / remote_to_self_delay (value and presence)")
    from rules import C07 as _c07
    saved, saved_fv = ctx.prog, ctx.__dict__.get("_fv")
    try:
        ctx.prog = _facts.Program(saved.dir, crates=_c07.CRATES)
        ctx.__dict__["_fv"] = {}
        _c07.setup_roles(ctx, "R19.7", dict(_c07.SCRIPT_ROLES, **_c07.DELAY_ROLES),
                         "the signer stores and later validates against a value the node did not send in that role")
    finally:
        ctx.prog = saved
        if saved_fv is not None:
            ctx.__dict__["_fv"] = saved_fv

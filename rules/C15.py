"""C15 — channel state is discarded only when safely buried, and ids are never reused."""
from engine import rulelib as R
from engine import atoms
from engine.rulelib import fnview
from engine.cfg import render, strip_ref, peel, subexprs

CRATES = None
LS = "lightning_signer::"
NODE = LS + "node::Node"
ST = LS + "monitor::State"
MB = LS + "monitor::ChainMonitorBase"

CLAIM = {
    "text": "Decides on all MIR paths of all workspace crates: (R15.1) channels.remove, Persist::delete_channel and "
            "tracker.remove_listener are called only from Node::prune_channels and (stubs only) Node::forget_channel; "
            "(R15.2) prune_channels selects a Ready channel only on the true edge of monitor.is_done(); "
            "State::is_done returns true only through deep_enough_and_saw_node_forget(h, MIN_DEPTH) with h one of "
            "funding_double_spent_height / mutual_closing_height / closing_swept_height, which returns true only when "
            "depth >= limit and saw_forget_channel, with depth = (height + 1) saturating-minus the event height; "
            "closing_swept_height is set only on the not-swept -> swept edge of is_closing_swept, which requires "
            "is_all_spent, and on_remove_block_end samples is_closing_swept before and after undoing the block's changes "
            "and clears closing_swept_height on every path where it went swept -> not swept (so the depth is counted on "
            "the current best chain); saw_forget_channel is written only by ChainMonitorBase::forget_channel <- Channel::forget "
            "<- Node::forget_channel; forget_channel removes only stubs; (R15.3) new_channel refuses "
            "dbid_high_water_mark >= dbid before creating anything, forget_channel raises the mark to the channel's "
            "oid (only upwards) and persists it before returning, and the mark survives restart (C11 R11.2 slots). "
            "(R15.4) the monitor recognises the node own outputs of a unilateral close by scripts built from the right keys: in decode_commitment_tx the to-us (non-delayed) script comes from the holder payment point, the holder delayed script from keys derived with holder delayed/htlc and counterparty revocation/htlc basepoints and the counterparty-selected delay, and the counterparty delayed script from the mirror image (else an unswept output is not seen and the channel counts as done). (R15.5/R15.6) restart clause (`survives any number of ... restarts`, `also after a restart`): the channel-id high-water mark is persisted before forget_channel acknowledges, and every persisted field of node state, channel entry, tracker and monitor is restored into the same slot (same obligations as C11 R11.1 for the node class and C11 R11.2). Does not decide the numeric depth arithmetic at extremes.",
    "note": "MIN_DEPTH constant evaluated by rustc; restart survival of channels relies on C11",
    "technique": "static analysis: who-may-call/write + must-pass-through + guard scenarios",
}


def run(ctx):
    ctx.explanation = CLAIM["text"]
    ctx.not_decided = "depth arithmetic at numeric extremes; behaviour over reorg histories (C14)"
    r151(ctx)
    r152(ctx)
    r153(ctx)
    r154(ctx)
    r_restart(ctx)


def r151(ctx):
    ctx.rule("R15.1", "who may discard channel state")
    p = ctx.prog
    prune = f"{NODE}::prune_channels"
    forget = f"{NODE}::forget_channel"
    R.who_may_call(ctx, "R15.1", lambda n: n == LS + "persist::Persist::delete_channel" or n.endswith("persist::Persist>::delete_channel") and False,
                   {prune: "pruning after is_done / stub timeout", forget: "stub removal on forget",
                    "<vls_persist::backup_persister::BackupPersister<M, B> as lightning_signer::persist::Persist>::delete_channel": "composite persister forwards",
                    "<vls_persist::thread_memo_persister::ThreadMemoPersister as lightning_signer::persist::Persist>::delete_channel": "memoising persister forwards"},
                   "Persist::delete_channel", floor=2, exclude=R.is_test_util)
    R.who_may_call(ctx, "R15.1", lambda n: n.endswith("ChainTracker::<L>::remove_listener"),
                   {prune: "listener removed together with the pruned channel"}, "ChainTracker::remove_listener", floor=1,
                   exclude=R.is_test_util)
    # removals from the channel map: BTreeMap::remove whose receiver is the channels guard
    n = 0
    for b in p.bodies.values():
        if b.d.krate != "lightning_signer" or R.is_test_util(R.owner_name(p, b)):
            continue
        fv = None
        for bi, c in b.calls():
            nm = c.callee.name if c.callee else ""
            if nm.endswith("::remove") and "BTreeMap" in nm and c.args:
                fv = fv or fnview(ctx, b)
                ty = b.ty(c.args[0].place.local) if c.args[0].place is not None else ""
                recv = render(fv.expr(c.args[0]))
                if "ChannelSlot" in ty or "get_channels" in recv or recv.endswith("channels"):
                    n += 1
                    on = R.owner_name(p, b)
                    ctx.ob("R15.1", on in (prune, forget), f"{on}/removes-channel",
                           f"`{on}` removes an entry from the channel map", where=f"{b.file}:{c.line}",
                           sample="channels.remove in prune_channels / forget_channel")
    ctx.floor("R15.1", "channel-map removals", n, 2)
    # forget_channel removes only stubs
    fb = p.fn(forget)
    fv = fnview(ctx, fb)
    nv = fv.named()
    rem = [(bi, c.line) for bi, c in fb.calls() if c.callee and c.callee.name.endswith("::remove") and "BTreeMap" in c.callee.name]
    R.named_scenario_refused(ctx, "R15.1", fb, ["!stub_found"], f"{forget}/removes-only-stubs",
                             "forget_channel can remove a channel that is not a stub", sinks=rem)
    # stub_found is set only in the Stub arm
    sets = []
    for l in range(len(fb.local_tys)):
        if fb.local_name(l) == "stub_found":
            for (bi, idx, obj) in fv.defs.get(l, []):
                if idx != "T" and obj.kind == "a" and obj.rv.ops and obj.rv.ops[0].const and obj.rv.ops[0].const["s"] == "true":
                    sets.append(bi)
    ok = bool(sets)
    for sb in sets:
        # dominated by the Stub arm of the match on the slot
        arm = None
        for b2 in sorted(fv.live_blocks()):
            t = fb.term(b2)
            if t.kind == "switch" and t.discr.place is not None:
                e = fv.expr(t.discr)
                if e[0] == "discr" and len(e) > 2 and e[2].endswith("channel::ChannelSlot"):
                    adt = p.adt(LS + "channel::ChannelSlot")
                    names = [v["name"] for v in adt["variants"]]
                    stub_edges = {(b2, tg) for v, tg in t.arms if names[v] == "Stub"}
                    if stub_edges and fv.must_pass(sb, stub_edges):
                        arm = "Stub"
        ok = ok and arm == "Stub"
    ctx.ob("R15.1", ok, f"{forget}/stub-flag", "stub_found is set outside the ChannelSlot::Stub arm", where=f"{fb.file}:{fb.line}",
           sample="stub_found = true only in the Stub arm")


def r152(ctx):
    ctx.rule("R15.2", "a ready channel is pruned only when its monitor is done; is_done requires depth and the node's forget")
    p = ctx.prog
    # prune_channels: the key-collecting closure returns Some(key) for Ready only on is_done true edge
    pb = p.fn(f"{NODE}::prune_channels")
    cls = [c for c in p.closures_of(pb)]
    found = False
    for cb in cls:
        cv = fnview(ctx, cb)
        done = [(bi, c) for bi, c in cb.calls() if c.callee and c.callee.name == f"{MB}::is_done"]
        if not done:
            continue
        found = True
        te = set()
        for bi, c in done:
            te |= cv.result_edges(bi, c, "ok")
        adt = p.adt(LS + "channel::ChannelSlot")
        names = [v["name"] for v in adt["variants"]]
        ready_edges = set()
        for b2 in sorted(cv.live_blocks()):
            t = cb.term(b2)
            if t.kind == "switch" and t.discr.place is not None:
                e = cv.expr(t.discr)
                if e[0] == "discr" and len(e) > 2 and e[2].endswith("channel::ChannelSlot"):
                    ready_edges |= {(b2, tg) for v, tg in t.arms if names[v] == "Ready"}
        somes = [r for r in cv.return_sites() if r["kind"] == "some"]
        for r in somes:
            via_ready = cv.must_pass(R.site_block(r), ready_edges) if ready_edges else False
            if via_ready:
                ctx.ob("R15.2", cv.must_pass(R.site_block(r), te) and bool(te), f"{pb.name}/ready-needs-is_done",
                       "prune_channels selects a ready channel for removal without monitor.is_done() being true",
                       where=f"{cb.file}:{r['line']}", sample="Some(key) in the Ready arm dominated by is_done() == true")
        # no Some in the Ready arm that bypasses: any Some reachable from the Ready edge must pass te
        for (u, v) in ready_edges:
            live = cv.reach(v, cut_edges=te)
            bad = [r for r in somes if R.site_block(r) in live]
            ctx.ob("R15.2", not bad, f"{pb.name}/ready-arm", "the Ready arm can return Some(key) without is_done()",
                   where=f"{cb.file}:{cb.line}", sample="Ready arm: Some only after is_done")
        for bi, c in done:
            recv = render(cv.expr(c.args[0]))
            ctx.ob("R15.2", recv.endswith(".monitor"), f"{pb.name}/is_done-receiver", f"is_done called on `{recv[:80]}`", where=f"{cb.file}:{c.line}")
    ctx.ob("R15.2", found, f"{pb.name}/is_done-call", "prune_channels no longer consults monitor.is_done()", where=f"{pb.file}:{pb.line}")
    # ChainMonitorBase::is_done delegates
    mb = p.fn(f"{MB}::is_done")
    mv = fnview(ctx, mb)
    ctx.ob("R15.2", bool(R.call_blocks(mv, lambda n: n == f"{ST}::is_done")), f"{mb.name}/delegates", "ChainMonitorBase::is_done no longer asks State::is_done",
           where=f"{mb.file}:{mb.line}")
    # State::is_done: true only via deep_enough_and_saw_node_forget(h, MIN_DEPTH)
    ib = p.fn(f"{ST}::is_done")
    iv = fnview(ctx, ib, policy=False)
    deep = [(bi, c) for bi, c in ib.calls() if c.callee and c.callee.name == f"{ST}::deep_enough_and_saw_node_forget"]
    ctx.floor("R15.2", "deep_enough_and_saw_node_forget calls in is_done", len(deep), 3)
    te = set()
    heights = set()
    min_depth = None
    for k, (v, ty) in p.consts.items():
        if p.defs[k].name == LS + "monitor::MIN_DEPTH":
            min_depth = v
    for bi, c in deep:
        te |= iv.result_edges(bi, c, "ok")
        h = render(peel(iv.expr(c.args[1])))
        heights.add(h.rsplit(".", 1)[-1])
        lim = c.args[2].int_value()
        ctx.ob("R15.2", lim == min_depth and min_depth is not None, f"{ib.name}/limit/{h.rsplit('.', 1)[-1]}",
               f"is_done uses depth limit {lim} for {h} (MIN_DEPTH is {min_depth})", where=f"{ib.file}:{c.line}", sample=f"limit {lim}")
    ctx.ob("R15.2", heights == {"funding_double_spent_height", "mutual_closing_height", "closing_swept_height"},
           f"{ib.name}/events", f"is_done considers {sorted(heights)}", where=f"{ib.file}:{ib.line}", sample=sorted(heights))
    for r in iv.return_sites():
        if r["kind"] == "true" or (r["kind"] == "value"):
            ctx.ob("R15.2", iv.must_pass(R.site_block(r), te) and bool(te), f"{ib.name}/true-needs-deep-enough",
                   f"State::is_done can return {r['how']} without deep_enough_and_saw_node_forget being true",
                   where=f"{ib.file}:{r['line']}", sample="true dominated by deep_enough_and_saw_node_forget(..) == true")
    # deep_enough_and_saw_node_forget
    db = p.fn(f"{ST}::deep_enough_and_saw_node_forget")
    dv = fnview(ctx, db, policy=False)
    trues = [(r["block"], r["line"]) for r in dv.return_sites() if r["kind"] in ("true", "value")]
    ctx.floor("R15.2", "true return in deep_enough_and_saw_node_forget", len(trues), 1)
    R.named_scenario_refused(ctx, "R15.2", db, ["depth < limit"], f"{db.name}/needs-depth",
                             "deep_enough_and_saw_node_forget returns true before the event is buried", sinks=trues, policy=False)
    R.named_scenario_refused(ctx, "R15.2", db, ["!State.saw_forget_channel"], f"{db.name}/needs-forget",
                             "deep_enough_and_saw_node_forget returns true although the node never asked to forget the channel",
                             sinks=trues, policy=False)
    nd = fnview(ctx, db, policy=False).named()
    dep = _named(nd, "depth")
    ctx.ob("R15.2", dep is not None and render(dep).endswith("State::depth_of(self, other_height)"), f"{db.name}/depth-source",
           f"depth is `{render(dep)[:80] if dep else None}`", where=f"{db.file}:{db.line}")
    ob = p.fn(f"{ST}::depth_of")
    ov = fnview(ctx, ob, policy=False)
    rr = [render(ov.expr(r["stmt"].rv.ops[0])) if "stmt" in r and r["stmt"].rv.ops else r["how"] for r in ov.return_sites()]
    rr += [render(ov._call_expr(r["call"], 0)) for r in ov.return_sites() if "call" in r]
    ok = any(("saturating_sub" in x or "sat-" in x) and x.startswith("((self.height + 1) ") and "other_height" in x for x in rr)
    ctx.ob("R15.2", ok, f"{ob.name}/formula", f"depth_of returns {rr}", where=f"{ob.file}:{ob.line}", sample=rr)
    # closing_swept_height only on the not-swept -> swept edge
    ab = p.fn(f"{ST}::on_add_block_end")
    av = fnview(ctx, ab, policy=False).named()
    ws = [(bi, s.line) for bi in av.live_blocks() for s in ab.stmts(bi)
          if any(isinstance(pr, tuple) and pr[0] == "f" and pr[2] == "closing_swept_height" for pr in s.place.proj)]
    R.named_scenario_refused(ctx, "R15.2", ab, ["!closing_is_swept"], f"{ab.name}/swept-edge",
                             "closing_swept_height is recorded although the closing outputs are not all swept", sinks=ws, policy=False)
    cis = _named(av, "closing_is_swept")
    ctx.ob("R15.2", cis is not None and render(cis).endswith("State::is_closing_swept(self)"), f"{ab.name}/is-swept-source",
           f"closing_is_swept is `{render(cis)[:80] if cis else None}`", where=f"{ab.file}:{ab.line}")
    # ... and is cleared again when a disconnected block un-sweeps the closing ("on the current best chain")
    rb = p.fn(f"{ST}::on_remove_block_end")
    rv0 = fnview(ctx, rb, policy=False)
    rv = rv0.named()
    for nm_ in ("closing_was_swept", "closing_is_swept"):
        e = _named(rv, nm_)
        ctx.ob("R15.2", e is not None and render(e).endswith("State::is_closing_swept(self)"), f"{rb.name}/{nm_}-source",
               f"`{nm_}` in on_remove_block_end is `{render(e)[:80] if e else None}`, not is_closing_swept(): after a reorg "
               f"closing_swept_height would not follow the best chain", where=f"{rb.file}:{rb.line}", sample=f"{nm_} <- self.is_closing_swept()")
    clr = set()
    for bi in rv.live_blocks():
        for s in rb.stmts(bi):
            if s.kind == "a" and any(isinstance(pr, tuple) and pr[0] == "f" and pr[2] == "closing_swept_height" for pr in s.place.proj):
                val = render(rv0.expr(s.rv.ops[0])) if s.rv.ops else render(("agg",))
                if "None" in str(s.rv.a) or "None" in val:
                    clr.add(bi)
    ctx.ob("R15.2", bool(clr), f"{rb.name}/clears", "on_remove_block_end never clears closing_swept_height", where=f"{rb.file}:{rb.line}")
    cut = atoms.scenario_cut(rv, [atoms.parse_atom("closing_was_swept"), atoms.parse_atom("!closing_is_swept")])
    rets = [bi for bi in rv.live_blocks() if rb.term(bi).kind == "ret"]
    live = rv.reach(0, cut_edges=cut, cut_nodes=clr)
    ctx.ob("R15.2", bool(cut) and not any(r in live for r in rets), f"{rb.name}/unswept-clears-height",
           "a disconnected block that un-sweeps the closing outputs leaves closing_swept_height set: is_done keeps counting "
           "depth from a sweep that is no longer on the best chain", where=f"{rb.file}:{rb.line}",
           sample="closing_was_swept && !closing_is_swept => closing_swept_height = None on every path")
    # the is-swept test is evaluated after the block's changes were undone
    loops = R.loops_over(rv0, lambda x: "changes" in x)
    isw = [bi for bi, c in rb.calls() if c.callee and c.callee.name == f"{ST}::is_closing_swept"]
    ctx.ob("R15.2", len(loops) == 1 and len(isw) >= 2, f"{rb.name}/shape", f"{len(loops)} undo loops, {len(isw)} is_closing_swept calls",
           where=f"{rb.file}:{rb.line}")
    if len(loops) == 1 and len(isw) >= 2:
        h = loops[0][0]
        after = [bi for bi in isw if h not in rv0.reach(bi) ]
        before = [bi for bi in isw if h in rv0.reach(bi)]
        ctx.ob("R15.2", len(after) >= 1 and len(before) >= 1, f"{rb.name}/order", "is_closing_swept is not sampled once before and once after the undo loop",
               where=f"{rb.file}:{rb.line}", sample="was_swept; undo changes; is_swept")
    sb = p.fn(f"{ST}::is_closing_swept")
    ok = R.body_calls(p, sb.name, "ClosingOutpoints::is_all_spent") or any(
        R.closure_calls(p, cd, lambda n: n.endswith("ClosingOutpoints::is_all_spent")) for bi, c in sb.calls() for cd in c.cls)
    ctx.ob("R15.2", ok, f"{sb.name}/all-spent", "is_closing_swept no longer requires ClosingOutpoints::is_all_spent", where=f"{sb.file}:{sb.line}")
    # saw_forget_channel writers / callers
    R.who_may_write(ctx, "R15.2", "monitor::State", "saw_forget_channel", {f"{MB}::forget_channel": "the node's forget request"},
                    floor=1, borrows_allowed={})
    R.who_may_call(ctx, "R15.2", lambda n: n == f"{MB}::forget_channel", {LS + "channel::Channel::forget": "Channel::forget"},
                   "ChainMonitorBase::forget_channel", floor=1, exclude=R.is_test_util)
    R.who_may_call(ctx, "R15.2", lambda n: n == LS + "channel::Channel::forget", {f"{NODE}::forget_channel": "Node::forget_channel"},
                   "Channel::forget", floor=1, exclude=R.is_test_util)


def _named(fv, name):
    b = fv.b
    for l in range(len(b.local_tys)):
        if b.local_name(l) == name:
            e = fv.local_expr(l)
            return e[2] if e[0] == "let" else e
    return None


def r153(ctx):
    ctx.rule("R15.3", "ids are never reused: new_channel refuses dbid <= high-water mark; forget_channel raises and persists it")
    p = ctx.prog
    nb = p.fn(f"{NODE}::new_channel")
    nv = fnview(ctx, nb)
    sinks = [(bi, ln) for bi, ln, c in R.call_blocks(nv, lambda n: n == f"{NODE}::find_or_create_channel")]
    ctx.floor("R15.3", "creation call in new_channel", len(sinks), 1)
    R.scenario_refused(ctx, "R15.3", nb, ["NodeState.dbid_high_water_mark >= dbid"], sinks, key=f"{nb.name}/refuse-reuse",
                       what="new_channel creates a channel for a dbid that is not above the high-water mark (key reuse after forgetting)",
                       depth=0)
    for bi, ln, c in R.call_blocks(nv, lambda n: n.endswith("ChannelId::new_from_peer_id_and_oid")):
        a = [render(peel(nv.expr(x))) for x in c.args]
        ctx.ob("R15.3", a == ["peer_id", "dbid"], f"{nb.name}/id-from-dbid", f"channel id built from {a}", where=f"{nb.file}:{ln}", sample=a)
    fb = p.fn(f"{NODE}::forget_channel")
    fv = fnview(ctx, fb)
    ws = [(bb, bi, idx, o) for (bb, bi, idx, o) in R.field_writes(p, "NodeState", "dbid_high_water_mark") if bb is fb]
    ctx.ob("R15.3", len(ws) == 1, f"{fb.name}/raises-mark", f"forget_channel writes the high-water mark {len(ws)} times", where=f"{fb.file}:{fb.line}")
    for bb, bi, idx, o in ws:
        val = render(fv.expr(o.rv.ops[0])) if hasattr(o, "rv") and o.rv.ops else "?"
        ctx.ob("R15.3", val.endswith("ChannelId::oid(channel_id)"), f"{fb.name}/mark-value", f"mark set to `{val[:80]}`", where=f"{fb.file}:{o.line}", sample=val[-40:])
        R.scenario_refused(ctx, "R15.3", fb, ["`lightning_signer::channel::ChannelId::oid(channel_id)` <= NodeState.dbid_high_water_mark"],
                           [(bi, o.line)], key=f"{fb.name}/mark-only-up", what="forget_channel can lower the high-water mark", depth=0)
        # persisted before returning
        pe = set()
        for bj, c in fb.calls():
            n = (c.decl.name if c.decl else "") + "|" + (c.callee.name if c.callee else "")
            if "persist::Persist::update_node" in n and "allowlist" not in n:
                es = fv.result_edges(bj, c, "ok")
                pe |= es or ({(bj, c.target)} if c.target is not None else set())
        after = set()
        for v in fv.succ[bi]:
            after |= fv.reach(v, cut_edges=pe)
        bad = [r for r in fv.success_sites() if r["block"] in after]
        ctx.ob("R15.3", bool(pe) and not bad, f"{fb.name}/mark-persisted", "forget_channel can return Ok with a raised mark that was not persisted",
               where=f"{fb.file}:{o.line}", sample="mark write -> update_node -> return")
    # whenever a channel is forgotten - the ready channel's forget succeeded, or a stub is removed - the mark has been
    # raised to its id, or was already at least that high
    wblocks = {bi for (bb, bi, idx, o) in ws}
    high = set()        # edges taken when oid <= mark (comparison `oid > mark` false)
    for bi2 in sorted(fv.live_blocks()):
        if fb.term(bi2).kind != "switch":
            continue
        for tg, at in atoms.edge_atoms(fv, bi2):
            if at is None:
                continue
            # the edge whose condition is  oid(channel_id) - mark <= 0
            if at[0] == "le" and at[2] == 0 and len(at[1]) == 2:
                co = {("oid" if "ChannelId::oid(" in sym[0] else ("mark" if "dbid_high_water_mark" in (sym[1] or sym[0]) else "?")): k for sym, k in at[1]}
                if co.get("oid") == 1 and co.get("mark") == -1:
                    high.add((bi2, tg))
    forget_ok = set()
    for bj, c in fb.calls():
        if c.callee and c.callee.name == LS + "channel::Channel::forget":
            forget_ok |= fv.result_edges(bj, c, "ok")
    succ_blocks = [r["block"] for r in fv.success_sites()]
    bad = []
    for (u, v) in forget_ok:
        live = fv.reach(v, cut_nodes=wblocks, cut_edges=high)
        bad += [sb for sb in succ_blocks if sb in live]
    ctx.ob("R15.3", bool(forget_ok) and bool(wblocks) and not bad, f"{fb.name}/ready-raises-mark",
           "forget_channel can return Ok after forgetting a *ready* channel without the high-water mark having been raised to its id: "
           "once the channel is pruned the same or a lower id can be created again", where=f"{fb.file}:{fb.line}",
           sample="Channel::forget ok => mark write or oid <= mark before Ok")
    rm = [bj for bj, c in fb.calls() if c.callee and c.callee.name.endswith("BTreeMap::<K, V, A>::remove")]
    live0 = R.reach_consistent(fv.named(), [0], cut_nodes=wblocks, cut_edges=high)   # respects the `stub_found` flag
    ctx.ob("R15.3", bool(rm) and not [x for x in rm if x in live0], f"{fb.name}/stub-raises-mark",
           "forget_channel can remove a stub without the high-water mark having been raised to its id", where=f"{fb.file}:{fb.line}",
           sample="stub removal => mark write or oid <= mark first")
    # who may write the mark at all
    R.who_may_write(ctx, "R15.3", "NodeState", "dbid_high_water_mark", {f"{NODE}::forget_channel": "raised on forget"}, floor=1)
    # the mark survives a restart: stored entry <- live field, restore argument <- stored entry, restored slot <- argument
    rst = p.fn(LS + "node::NodeState::restore")
    pnames = [rst.local_name(i + 1) for i in range(rst.argc)]
    if "dbid_high_water_mark" not in pnames:
        raise R.Broken("anchor missing: parameter dbid_high_water_mark of NodeState::restore")
    ng = 0
    for g in [b for b in p.bodies.values() if b.d.krate == "vls_persist" and b.name.endswith("::get_nodes") and "KVVPersister" in b.name]:
        gv = fnview(ctx, g)
        for bi, ln, c in R.call_blocks(gv, lambda n: n == LS + "node::NodeState::restore"):
            ng += 1
            e = gv.expr(c.args[pnames.index("dbid_high_water_mark")])
            ok = any(x[0] == "field" and x[3] == "dbid_high_water_mark" for x in subexprs(e))
            ctx.ob("R15.3", ok, f"{g.name}/restore-arg/dbid_high_water_mark",
                   f"get_nodes passes `{render(e)[:100]}` as NodeState::restore's dbid_high_water_mark: after a restart the mark is lost "
                   f"and a forgotten id can be created again", where=f"{g.file}:{ln}", sample="dbid_high_water_mark <- state_entry.dbid_high_water_mark")
            for i, pn in enumerate(pnames):
                if pn != "dbid_high_water_mark":
                    e2 = gv.expr(c.args[i])
                    leak = any(x[0] == "field" and x[3] == "dbid_high_water_mark" for x in subexprs(e2))
                    ctx.ob("R15.3", not leak, f"{g.name}/restore-arg/{pn}/not-the-mark", f"the stored mark is passed as NodeState::restore's {pn}",
                           where=f"{g.file}:{ln}")
    ctx.floor("R15.3", "NodeState::restore calls in KVVPersister::get_nodes", ng, 1)
    rv = fnview(ctx, rst)
    for bb, bi, si, st in R.constructions(p, LS + "node::NodeState"):
        if bb is rst:
            vals = dict(zip(st.rv.a[3], st.rv.ops))
            e = rv.expr(vals["dbid_high_water_mark"])
            ctx.ob("R15.3", R.mentions_param(e, "dbid_high_water_mark"), f"{rst.name}/slot/dbid_high_water_mark",
                   f"NodeState::restore fills the mark from `{render(e)[:80]}`", where=f"{rst.file}:{st.line}", sample="mark <- parameter")
    for bb, bi, si, st in R.constructions(p, "vls_persist::model::NodeStateEntry"):
        vals = dict(zip(st.rv.a[3], st.rv.ops))
        if (bb.mac and "derive" in bb.mac) or "_serde" in bb.name or R.is_test_util(R.owner_name(p, bb)):
            continue    # serde's Deserialize visitor builds the entry from the wire
        if "dbid_high_water_mark" in vals:
            ev = fnview(ctx, bb)
            e = ev.expr(vals["dbid_high_water_mark"])
            ctx.ob("R15.3", any(x[0] == "field" and x[3] == "dbid_high_water_mark" and x[2].endswith("NodeState") for x in subexprs(e)),
                   f"{R.owner_name(p, bb)}/stores-mark", f"the stored entry's mark is `{render(e)[:80]}`", where=f"{bb.file}:{st.line}",
                   sample="entry.mark <- state.dbid_high_water_mark")
    # find_or_create_channel is reachable only from new_channel* (the checked entry) and test helpers
    R.who_may_call(ctx, "R15.3", lambda n: n == f"{NODE}::find_or_create_channel",
                   {f"{NODE}::new_channel": "checked against the high-water mark",
                    f"{NODE}::new_channel_with_random_id": "random 32-byte ids from the keys manager (no dbid)",
                    f"{NODE}::new_channel_with_id": "test utility (cfg test_utils)"},
                   "Node::find_or_create_channel", floor=2)


def r154(ctx):
    ctx.rule("R15.4", "decode_commitment_tx builds the scripts that identify the node's own outputs from the right side's keys "
                      "and delays (argument roles)")
    p = ctx.prog
    b = p.fn(LS + "util::transaction_utils::decode_commitment_tx")
    fv = fnview(ctx, b)
    H, C = "params.holder_pubkeys.", "params.counterparty_parameters?.pubkeys."
    n = 0
    for bi, c in b.calls():
        nm = c.callee.name if c.callee else ""
        a = [render(peel(fv.expr(x))) for x in c.args]
        last = nm.rsplit("::", 1)[-1]
        if last == "get_to_countersignatory_with_anchors_redeemscript" or (last == "from_slice" and "CompressedPublicKey" in nm):
            n += 1
            ok = (H + "payment_point") in a[0] and C not in a[0]
            ctx.ob("R15.4", ok, f"{b.name}/to-us-script/{last}", f"the node's own non-delayed output script is built from `{a[0][-80:]}` "
                   "(expected the holder payment point): the node's to_remote output of a counterparty close is not recognised, the "
                   "close counts as swept and the channel can be pruned with funds unswept", where=f"{b.file}:{c.line}",
                   sample="holder_pubkeys.payment_point")
        elif last == "derive_new" and "TxCreationKeys" in nm and len(a) == 6:
            n += 1
            holder_side = a[1].startswith("holder_per_commitment_point")
            want = [H + "delayed_payment_basepoint", H + "htlc_basepoint", C + "revocation_basepoint", C + "htlc_basepoint"] if holder_side \
                else [C + "delayed_payment_basepoint", C + "htlc_basepoint", H + "revocation_basepoint", H + "htlc_basepoint"]
            side = "holder" if holder_side else "counterparty"
            ctx.ob("R15.4", a[2:] == want, f"{b.name}/tx-keys/{side}",
                   f"tx keys for the {side} commitment derived from {[x[-40:] for x in a[2:]]}",
                   where=f"{b.file}:{c.line}", sample=[x[-30:] for x in want])
        elif last == "get_revokeable_redeemscript" and len(a) == 3:
            n += 1
            holder_side = "holder_per_commitment_point" in a[0]
            side = "holder" if holder_side else "counterparty"
            dl = "params.counterparty_parameters?.selected_contest_delay" if holder_side else "params.holder_selected_contest_delay"
            ok = a[0].endswith(".revocation_key") and a[2].endswith(".broadcaster_delayed_payment_key") and a[1] == dl \
                and ("holder_per_commitment_point" in a[2]) == holder_side
            ctx.ob("R15.4", ok, f"{b.name}/delayed-script/{side}",
                   f"delayed output script of the {side} commitment uses delay `{a[1][-60:]}`",
                   where=f"{b.file}:{c.line}", sample=dl)
    ctx.floor("R15.4", "script constructions in decode_commitment_tx", n, 5)


def r_restart(ctx):
    """restart clauses of C15: the mark raised by forget_channel is durable when the request is acknowledged, and what was
    stored (node state incl. the mark, channel entries, tracker with the monitors' State incl. saw_forget_channel and the
    closing heights) comes back in the same slots.  Same obligations as C11 R11.1 (node class) and C11 R11.2."""
    from rules import C11 as _c11
    from engine import report as _report
    v = _report.renamed(ctx, {"R11.1": "R15.5", "R11.2": "R15.6"})
    _c11.r111(v, classes={"node"})
    _c11.r112(v)

"""C01 — a holder commitment is revoked only after its successor is counter-signed.

Decides the reachability skeleton of the enforcement state machine (DESIGN §4 C01):
who can disclose a secret, under which dominating bound, who can move the bound, from what
data, and that the bound only moves after signature verification.  Does not decide the
arithmetic of LDK's secret derivation nor u64 wrap-around at 2^64-2.
"""
from engine import rulelib as R
from engine.rulelib import fnview
from engine.cfg import render, strip_ref, subexprs
from engine import atoms

CRATES = None  # whole workspace: a new secret-releasing site in any crate must be seen

LS = "lightning_signer::"
CH = LS + "channel::Channel"
CHB = f"<{CH} as {LS}channel::ChannelBase>"
STUB = LS + "channel::ChannelStub"
STUBB = f"<{STUB} as {LS}channel::ChannelBase>"
ES = LS + "policy::validator::EnforcementState"
VAL = LS + "policy::validator::Validator"

LDK_RELEASE = "as lightning::sign::ChannelSigner>::release_commitment_secret"


def is_ldk_release(n):
    return n.endswith("ChannelSigner>::release_commitment_secret") or \
        n == "lightning::sign::ChannelSigner::release_commitment_secret"


def run(ctx):
    p = ctx.prog
    ctx.explanation = (
        "Static rules R1.1-R1.9 over MIR of the whole workspace: (R1.1) LDK's "
        "release_commitment_secret and the commitment_seed field are reachable only from 4+1 named "
        "functions; (R1.2) in both secret getters the release call is unreachable in the scenario "
        "n+2 > next_holder_commit_num; (R1.3) check_future_secret lets the secret flow only into an "
        "equality test; (R1.4) the stub never returns a secret; (R1.5) writers/callers of the counter; "
        "(R1.6) next_holder_commit_info is stored only after Ok of the validator and of the signature "
        "check and only for n == next_holder_commit_num; (R1.7) signature check: every success return "
        "and every loop iteration passes a successful verify_ecdsa over the recomposed tx; (R1.8) the "
        "counter advances only with the info taken from next_holder_commit_info; (R1.9) handler "
        "replies carry only secrets returned by those functions.")
    ctx.not_decided = ("numeric correctness of BOLT-3 secret derivation inside LDK; u64 wrap-around "
                       "of commitment_number+2 in release builds (assumes commitment numbers < 2^48); "
                       "restart clause is delegated to C11 (persist/restore agreement).")
    ctx.assumptions += [
        "policy is non-permissive: Policy::policy_error returns Err (DESIGN §3.1)",
        "rustc nightly front end + MIR construction; LDK/secp256k1 semantics trusted by name",
        "single live object per typed access path inside one function (DESIGN §9)",
    ]
    r11(ctx)
    r12(ctx)
    r13(ctx)
    r14(ctx)
    r15(ctx)
    r16(ctx)
    r17(ctx)
    r18(ctx)
    r19(ctx)
    r_restart(ctx)


# ---------------------------------------------------------------------------- R1.1
def r11(ctx, rid="R1.1"):
    ctx.rule(rid, "who-may-call: ChannelSigner::release_commitment_secret / read of "
                     "InMemorySigner.commitment_seed only in the named functions")
    allowed = {
        f"{CHB}::get_per_commitment_secret": "guarded getter (R1.2)",
        f"{CHB}::get_per_commitment_secret_or_none": "guarded getter (R1.2)",
        f"{CHB}::check_future_secret": "compares only (R1.3)",
        f"{STUBB}::check_future_secret": "compares only (R1.3)",
        "<vls_protocol_client::dyn_signer::DynSigner as lightning_signer::lightning::sign::ChannelSigner>::release_commitment_secret":
            "node-side client adaptor: forwards to the inner remote signer, holds no seed",
        "<lightning_signer::util::loopback::LoopbackChannelSigner as lightning::sign::ChannelSigner>::release_commitment_secret":
            "test utility (loopback signer)",
    }
    R.who_may_call(ctx, rid, is_ldk_release, allowed, "release of a holder commitment secret", floor=4)
    seed_allowed = {
        f"{STUB}::channel_keys_with_channel_value": "re-derives the same signer with the channel value",
        "<lightning_signer::util::debug_utils::DebugInMemorySigner<'_> as std::fmt::Debug>::fmt":
            "debug printer wraps the bytes in DebugBytes (hex abbreviated)",
    }
    n = 0
    for b, bi, idx, obj in R.field_reads(ctx.prog, "InMemorySigner", "commitment_seed"):
        on = R.owner_name(ctx.prog, b)
        if R.is_test_util(on):
            continue
        n += 1
        ok_reader = on in seed_allowed
        if not ok_reader:
            # the same re-derivation written in place (the stub's helper inlined into its caller): the seed read is
            # handed straight to InMemorySigner::new and goes nowhere else
            fvb = fnview(ctx, b, policy=False)
            reads_here = [1 for b2, _, _, _ in R.field_reads(ctx.prog, "InMemorySigner", "commitment_seed") if b2 is b]
            news = [c for _, c in b.calls() if c.callee and c.callee.name.endswith("InMemorySigner::new")]
            fed = sum(1 for c in news for a in c.args if R.mentions_field(fvb.expr(a), "InMemorySigner", "commitment_seed"))
            ok_reader = bool(news) and fed >= len(reads_here)
        ctx.ob(rid, ok_reader, f"{on}/reads/InMemorySigner.commitment_seed",
               f"`{on}` reads InMemorySigner.commitment_seed (root of all per-commitment secrets)",
               where=f"{b.file}:{obj.line}", sample=seed_allowed.get(on))
    ctx.floor(rid, "reads of commitment_seed", n, 1)


# ---------------------------------------------------------------------------- R1.2
def r12(ctx, rid="R1.2"):
    ctx.rule(rid, "guard entailment: release call unreachable when commitment_number + 2 > "
                     "EnforcementState.next_holder_commit_num")
    for fn in ("get_per_commitment_secret", "get_per_commitment_secret_or_none"):
        b = ctx.prog.fn(f"{CHB}::{fn}")
        fv = fnview(ctx, b)
        sinks = [(bi, ln) for bi, ln, c in R.call_blocks(fv, is_ldk_release)]
        ctx.floor(rid, f"release sites in {fn}", len(sinks), 1)
        R.scenario_refused(
            ctx, rid, b, ["commitment_number + 2 > EnforcementState.next_holder_commit_num"], sinks,
            key=f"{b.name}/release/bound",
            what=f"`{fn}` can reach release_commitment_secret(n) with n + 2 > next_holder_commit_num "
                 f"(secret of a commitment whose successor was not counter-signed)")
        # the released index is the requested one: INITIAL_COMMITMENT_NUMBER - commitment_number
        for bi, ln, c in R.call_blocks(fv, is_ldk_release):
            e = fv.expr(c.args[1])
            lin = atoms.linear(e)
            ok = (lin[1] == (1 << 48) - 1 and len(lin[0]) == 1 and
                  all(s[0] == "commitment_number" and c_ == -1 for s, c_ in lin[0].items()))
            ctx.ob(rid, ok, f"{b.name}/release/index",
                   f"`{fn}` releases index `{render(e)}`, not INITIAL_COMMITMENT_NUMBER - commitment_number",
                   where=f"{b.file}:{ln}", sample=render(e))


# ---------------------------------------------------------------------------- R1.3
def r13(ctx):
    ctx.rule("R1.3", "provenance: in check_future_secret the released bytes flow only into an equality test")
    for owner in (CHB, STUBB):
        b = ctx.prog.fn(f"{owner}::check_future_secret")
        fv = fnview(ctx, b)
        sites = R.call_blocks(fv, is_ldk_release)
        ctx.floor("R1.3", "release site in check_future_secret", len(sites), 1)
        for bi, ln, c in sites:
            esc, tainted = R.taint_escapes(fv, c.dest.local, passthrough=("ops::Index", "ops::RangeFull",
                                                                        "slice::", "array::"))
            ctx.ob("R1.3", not esc, f"{b.name}/secret-escapes",
                   f"`{b.name}`: the released secret flows to {esc[:3]} (not only into `==`)",
                   where=f"{b.file}:{ln}", sample=f"{len(tainted)} tainted locals, all end in PartialEq")


# ---------------------------------------------------------------------------- R1.4
def r14(ctx):
    ctx.rule("R1.4", "ChannelStub never discloses: no Ok / Some return in its secret getters")
    for fn, bad in (("get_per_commitment_secret", ("ok", "maybe", "value")),
                    ("get_per_commitment_secret_or_none", ("some", "maybe", "value"))):
        b = ctx.prog.fn(f"{STUBB}::{fn}")
        fv = fnview(ctx, b)
        rs = fv.return_sites()
        offending = [r for r in rs if r["kind"] in bad]
        ctx.ob("R1.4", not offending and bool(rs), f"{b.name}/returns-secret",
               f"`{b.name}` (channel not set up) has a return site that may carry a secret: "
               f"{[r['how'] for r in offending]}", where=f"{b.file}:{b.line}",
               sample=[r["how"] for r in rs])


# ---------------------------------------------------------------------------- R1.5
def r15(ctx):
    ctx.rule("R1.5", "who-may-write next_holder_commit_num / build EnforcementState / call its setters")
    setter = f"{ES}::set_next_holder_commit_num"
    tsetter = f"{ES}::set_next_holder_commit_num_for_testing"
    R.who_may_write(ctx, "R1.5", "EnforcementState", "next_holder_commit_num",
                    {setter: "the checked setter", tsetter: "test utility (feature test_utils)"}, floor=1,
                    borrows_allowed={})
    # constructions
    for b, bi, si, s in R.constructions(ctx.prog, ES):
        on = R.owner_name(ctx.prog, b)
        ok = on == f"{ES}::new" or (b.mac is not None and "derive" in b.mac)
        ctx.ob("R1.5", ok, f"{on}/constructs/EnforcementState",
               f"`{on}` builds an EnforcementState literal (could start with arbitrary counters)",
               where=f"{b.file}:{s.line}")
    # EnforcementState::new starts at zero
    b = ctx.prog.fn(f"{ES}::new")
    fv = fnview(ctx, b)
    for bb, bi, si, s in R.constructions(ctx.prog, ES):
        if bb is not b:
            continue
        a = s.rv.a
        vals = dict(zip(a[3], s.rv.ops))
        v = vals["next_holder_commit_num"].int_value()
        ctx.ob("R1.5", v == 0, f"{b.name}/initial/next_holder_commit_num",
               "EnforcementState::new does not start next_holder_commit_num at 0", where=f"{b.file}:{s.line}",
               sample="next_holder_commit_num: 0")
    # callers
    R.who_may_call(ctx, "R1.5", lambda n: n == setter, {
        f"{VAL}::set_next_holder_commit_num": "validator default method (progression check)",
        f"{CH}::activate_initial_commitment": "initial activation, guarded by next == 0 (R1.8)",
    }, "EnforcementState::set_next_holder_commit_num", floor=2)
    R.who_may_call(ctx, "R1.5", lambda n: n == f"{VAL}::set_next_holder_commit_num", {
        f"{CH}::revoke_previous_holder_commitment": "the only advance path (its private helper advance_holder_commitment_state is "
                                                    "transparent: always analysed as part of its caller)",
        f"{CH}::advance_holder_commitment": "test utility wrapper (cfg test_utils)",
        "<lightning_signer::policy::onchain_validator::OnchainValidator as lightning_signer::policy::validator::Validator>::set_next_holder_commit_num":
            "delegating wrapper",
    }, "Validator::set_next_holder_commit_num", floor=1)
    # test setters are reachable only from test utilities
    for b, bi, c in R.call_sites(ctx.prog, lambda n: n.endswith("set_next_holder_commit_num_for_testing")):
        on = R.owner_name(ctx.prog, b)
        ctx.ob("R1.5", R.is_test_util(on), f"{on}/calls/test-setter",
               f"non-test function `{on}` calls the test-only setter of next_holder_commit_num",
               where=f"{b.file}:{c.line}")
    # the setter itself only moves by 0/+1 : scenario num > current + 1 and num < current refused
    b = ctx.prog.fn(setter)
    fv = fnview(ctx, b, policy=False)
    ws = [(bi, s.line) for (bb, bi, si, s) in R.field_writes(ctx.prog, "EnforcementState", "next_holder_commit_num")
          if bb is b]
    # setter panics (does not return) on illegal progression; writes must be unreachable then
    for scen, nm in ((["num > EnforcementState.next_holder_commit_num + 1"], "skip-ahead"),
                     (["num < EnforcementState.next_holder_commit_num"], "backwards")):
        R.scenario_refused(ctx, "R1.5", b, scen, ws, key=f"{b.name}/progression/{nm}",
                           what=f"`set_next_holder_commit_num` can write the counter in scenario {scen}",
                           depth=0)
    # validator default method: policy error unless num == current or current + 1
    b = ctx.prog.fn(f"{VAL}::set_next_holder_commit_num")
    fv = fnview(ctx, b)
    sinks = [(bi, ln) for bi, ln, c in R.call_blocks(fv, lambda n: n == setter)]
    for scen, nm in ((["num > EnforcementState.next_holder_commit_num + 1"], "skip-ahead"),
                     (["num < EnforcementState.next_holder_commit_num"], "backwards")):
        R.scenario_refused(ctx, "R1.5", b, scen, sinks, key=f"{b.name}/progression/{nm}",
                           what=f"Validator::set_next_holder_commit_num reaches the setter in scenario {scen}",
                           depth=0)


# ---------------------------------------------------------------------------- R1.6
def r16(ctx):
    ctx.rule("R1.6", "next_holder_commit_info is stored only after Ok(validate_holder_commitment_tx) and "
                     "Ok(check_holder_tx_signatures) and only when commitment_number == next_holder_commit_num")
    entry = {f"{CH}::validate_holder_commitment_tx": "raw entry point",
             f"{CH}::validate_holder_commitment_tx_phase2": "semantic entry point"}
    taker = {f"{CH}::revoke_previous_holder_commitment": "take() for the advance",
             f"{CH}::activate_initial_commitment": "take() for the initial activation"}
    ws = R.who_may_write(ctx, "R1.6", "EnforcementState", "next_holder_commit_info", entry, floor=2,
                         borrows_allowed=taker)
    for b, bi, idx, obj in ws:
        on = R.owner_name(ctx.prog, b)
        if on not in entry:
            continue
        sink = [(bi, obj.line)]
        R.must_pass_guard(ctx, "R1.6", b, sink, lambda n: n == f"{VAL}::validate_holder_commitment_tx",
                          "Validator::validate_holder_commitment_tx", "store of next_holder_commit_info")
        R.must_pass_guard(ctx, "R1.6", b, sink, lambda n: n == f"{CH}::check_holder_tx_signatures",
                          "Channel::check_holder_tx_signatures", "store of next_holder_commit_info")
        R.scenario_refused(ctx, "R1.6", b, ["commitment_number != EnforcementState.next_holder_commit_num"], sink,
                           key=f"{b.name}/store/only-next",
                           what=f"`{on}` stores next_holder_commit_info for a commitment number other than "
                                f"next_holder_commit_num", depth=0)
        # what is stored: the validated info2 and the verified signatures
        fv = fnview(ctx, b)
        e = fv.expr(obj.rv.ops[0]) if hasattr(obj, "rv") and obj.rv.ops else None
        if e is not None:
            txt = render(e)
            sigs_ok = "counterparty_commit_sig" in txt and "counterparty_htlc_sigs" in txt
            ctx.ob("R1.6", sigs_ok, f"{b.name}/store/sigs",
                   f"`{on}` stores signatures other than the verified parameters: {txt[:200]}",
                   where=f"{b.file}:{obj.line}", sample=txt[:160])


# ---------------------------------------------------------------------------- R1.7
def r17(ctx):
    ctx.rule("R1.7", "check_holder_tx_signatures: success requires Ok(verify_ecdsa) on the recomposed "
                     "commitment and, per loop iteration, on each recomposed HTLC tx")
    b = ctx.prog.fn(f"{CH}::check_holder_tx_signatures")
    fv = fnview(ctx, b)
    is_verify = lambda n: n.endswith("::verify_ecdsa")
    sites = R.call_blocks(fv, is_verify)
    ctx.ob("R1.7", len(sites) >= 2, f"{b.name}/verify-sites",
           f"check_holder_tx_signatures has {len(sites)} verify_ecdsa call(s); needs commitment + per-HTLC",
           where=f"{b.file}:{b.line}", sample=f"{len(sites)} verify_ecdsa sites")
    edges = set()
    per_site = []
    for bi, ln, c in sites:
        es = fv.result_edges(bi, c, "ok")
        per_site.append((bi, ln, c, es))
        ctx.ob("R1.7", bool(es), f"{b.name}/verify-checked/{len(per_site)}",
               "result of verify_ecdsa is not tested (signature failure would be ignored)",
               where=f"{b.file}:{ln}", sample=f"ok-edges {sorted(es)}")
        edges |= es
    # classify sites: in-loop vs straight-line
    loop_sites = [s for s in per_site if fv.reaches(s[2].target if s[2].target is not None else s[0], s[0])]
    straight = [s for s in per_site if s not in loop_sites]
    ctx.ob("R1.7", len(straight) >= 1 and len(loop_sites) >= 1, f"{b.name}/verify-shape",
           "expected one verify_ecdsa outside the HTLC loop and one inside it",
           where=f"{b.file}:{b.line}", sample=f"{len(straight)} straight-line, {len(loop_sites)} in loop")
    # every success return passes the commitment-level verify
    se = set()
    for s in straight:
        se |= s[3]
    for sb, ln in R.success_blocks(fv):
        ctx.ob("R1.7", fv.must_pass(sb, se) and bool(se), f"{b.name}/ok-needs-commit-sig",
               "check_holder_tx_signatures can return Ok without a successful commitment signature check",
               where=f"{b.file}:{ln}", detail={"path_lines": fv.lines_of_path(fv.path(0, sb, cut_edges=se))},
               sample="Ok return dominated by Ok(verify_ecdsa #1)")
    # every loop iteration passes the HTLC verify: no cycle through the loop header avoiding its ok-edges
    le = set()
    for s in loop_sites:
        le |= s[3]
    # the loop that contains the per-HTLC verification (whatever iterator drives it)
    headers = []
    for bi, c in fv.b.calls():
        nm = c.callee.name if c.callee else ""
        if not (nm.endswith("Iterator>::next") or nm.endswith(">::next")) or c.target is None:
            continue
        body_reach = fv.reach(c.target)
        if bi in body_reach and any(s[0] in body_reach for s in loop_sites):
            headers.append(bi)
    ctx.ob("R1.7", len(headers) >= 1, f"{b.name}/loop-header", "HTLC loop not found", where=f"{b.file}:{b.line}")
    for h in headers:
        tgt = fv.b.term(h).call.target
        cyc = tgt is not None and h in fv.reach(tgt, cut_edges=le)
        ctx.ob("R1.7", not cyc, f"{b.name}/iteration-needs-htlc-sig",
               "an iteration of the HTLC loop can complete without a successful HTLC signature check",
               where=f"{b.file}:{fv.b.term(h).line}", sample="loop back-edge dominated by Ok(verify_ecdsa #2)")
        # the loop visits every HTLC of the recomposed commitment: it ranges over 0..htlcs.len() (a missing signature
        # then panics on the index), or a length mismatch between HTLCs and supplied signatures is refused first
        it = render(fv.expr(fv.b.term(h).call.args[0])) if fv.b.term(h).call.args else ""
        over_all = "Range{start: 0, end: len(" in it and "htlcs(" in it
        if not over_all:
            eqs = R.eq_sites(fv, lambda a, c: a.startswith("len(") and c.startswith("len(") and
                             ("counterparty_htlc_sigs" in a) != ("counterparty_htlc_sigs" in c) and ("htlcs(" in a or "htlcs(" in c))
            succ_b = [sb for sb, _ in R.success_blocks(fv)]
            over_all = bool(eqs) and all(dife and not any(sb in fv.reach(v) for sb in succ_b for (_, v) in dife)
                                         for (_, _, _, dife, _, _) in eqs)
        ctx.ob("R1.7", over_all, f"{b.name}/every-htlc-visited",
               f"the HTLC signature loop is driven by `{it[:120]}`: nothing makes it visit every HTLC of the recomposed commitment "
               f"(with fewer signatures than HTLCs the surplus HTLCs go unverified and the commitment is still accepted)",
               where=f"{b.file}:{fv.b.term(h).line}", sample="for ndx in 0..htlcs.len()")
    # provenance of operands
    for k, (bi, ln, c, es) in enumerate(per_site):
        msg = fv.expr(c.args[1])
        sig = fv.expr(c.args[2])
        key = fv.expr(c.args[3])
        okm = R.mentions_param(msg, "recomposed_tx")
        ctx.ob("R1.7", okm, f"{b.name}/verify{k}/message-from-recomposed",
               f"verify_ecdsa message does not derive from the recomposed transaction: {render(msg)[:200]}",
               where=f"{b.file}:{ln}", sample="message <- recomposed_tx")
        sp = R.params_mentioned(sig)
        oks = any(x in ("counterparty_commit_sig", "counterparty_htlc_sigs") for x in sp)
        ctx.ob("R1.7", oks, f"{b.name}/verify{k}/sig-param",
               f"verify_ecdsa signature operand is not a counterparty signature parameter: {render(sig)[:120]}",
               where=f"{b.file}:{ln}", sample=render(sig)[:80])
        okk = R.mentions_field(key, "ChannelSetup", "counterparty_points") or \
            R.mentions_call(key, "counterparty_pubkeys")
        ctx.ob("R1.7", okk, f"{b.name}/verify{k}/key-from-counterparty",
               f"verify_ecdsa key does not derive from the counterparty's basepoints: {render(key)[:200]}",
               where=f"{b.file}:{ln}", sample="key <- setup.counterparty_points")
    # straight-line site verifies with the funding key, loop site with an htlc-basepoint-derived key
    for (bi, ln, c, es) in straight:
        key = fv.expr(c.args[3])
        ctx.ob("R1.7", R.mentions_field(key, "ChannelPublicKeys", "funding_pubkey"),
               f"{b.name}/commit-verify/funding-key",
               f"commitment signature verified against `{render(key)[:120]}`, not the counterparty funding key",
               where=f"{b.file}:{ln}")
    for (bi, ln, c, es) in loop_sites:
        key = fv.expr(c.args[3])
        ctx.ob("R1.7", R.mentions_field(key, "ChannelPublicKeys", "htlc_basepoint") and
               R.mentions_param(key, "per_commitment_point"),
               f"{b.name}/htlc-verify/htlc-key",
               f"HTLC signature verified against `{render(key)[:160]}`, not derive(per_commitment_point, htlc_basepoint)",
               where=f"{b.file}:{ln}")
        sig = fv.expr(c.args[2])
        msg = fv.expr(c.args[1])
        # same index for htlc and signature
        sig = strip_ref(sig)
        # (a) sigs[ndx] with the same ndx that selects the HTLC, or (b) the two halves of one zip element
        rs, rm = render(sig), render(msg)
        zipped = "Iterator::zip(" in rs and "Iterator::zip(" in rm and rs.split("Iterator::zip(", 1)[1].split(")?", 1)[0] == \
            rm.split("Iterator::zip(", 1)[1].split(")?", 1)[0]
        ctx.ob("R1.7", (sig[0] == "index" and render(sig[2]) in render(msg)) or zipped,
               f"{b.name}/htlc-verify/index-agreement",
               "HTLC signature index differs from the HTLC whose transaction is verified",
               where=f"{b.file}:{ln}")


# ---------------------------------------------------------------------------- R1.8
def r18(ctx):
    ctx.rule("R1.8", "the counter advances only with (info, sigs) taken from next_holder_commit_info; "
                     "initial activation only from next_holder_commit_num == 0")
    b = ctx.prog.fn(f"{CH}::revoke_previous_holder_commitment")
    fv = fnview(ctx, b)
    # the advance = the checked Validator::set_next_holder_commit_num call (the private helper advance_holder_commitment_state
    # is transparent, i.e. analysed as part of this function)
    adv = R.call_blocks(fv, lambda n: n == f"{VAL}::set_next_holder_commit_num")
    ctx.floor("R1.8", "advance (Validator::set_next_holder_commit_num) in revoke_previous_holder_commitment", len(adv), 1)
    for bi, ln, c in adv:
        info = fv.expr(c.args[3])
        sigs = fv.expr(c.args[4])
        num = fv.expr(c.args[2])
        ok = R.mentions_field(info, "EnforcementState", "next_holder_commit_info") and \
            R.mentions_field(sigs, "EnforcementState", "next_holder_commit_info")
        ctx.ob("R1.8", ok, f"{b.name}/advance/info-from-next",
               f"advance uses info `{render(info)[:120]}` / sigs `{render(sigs)[:80]}` not taken from "
               f"next_holder_commit_info", where=f"{b.file}:{ln}", sample=render(info)[:120])
        lin = atoms.linear(num)
        okn = lin[1] == 1 and list(lin[0].values()) == [1] and list(lin[0])[0][0] == "new_current_commitment_number"
        ctx.ob("R1.8", okn, f"{b.name}/advance/number",
               f"advance sets next_holder_commit_num to `{render(num)}` (expected new_current_commitment_number + 1)",
               where=f"{b.file}:{ln}", sample=render(num))
        # advance only when n == next and the stored info is present
        R.scenario_refused(ctx, "R1.8", b,
                           ["new_current_commitment_number != EnforcementState.next_holder_commit_num"],
                           [(bi, ln)], key=f"{b.name}/advance/only-next",
                           what="revoke_previous_holder_commitment can advance the counter for a number "
                                "other than next_holder_commit_num", depth=0)
    # the secret release on the advancing path follows the Ok of the setter
    advb = {bi for bi, _, _ in adv}
    rel = [(bi, ln) for bi, ln, c in R.call_blocks(fv, lambda n: n == f"{CH}::release_commitment_secret")
           if any(bi in fv.reach(a) for a in advb)]
    ctx.floor("R1.8", "secret release after the advance", len(rel), 1)
    R.must_pass_guard(ctx, "R1.8", b, rel, lambda n: n == f"{VAL}::set_next_holder_commit_num",
                      "Validator::set_next_holder_commit_num", "secret release after the advance", depth=0)
    # Channel::release_commitment_secret discloses n-1 through the guarded getter only
    b3 = ctx.prog.fn(f"{CH}::release_commitment_secret")
    fv3 = fnview(ctx, b3)
    gs = R.call_blocks(fv3, lambda n: n.endswith("ChannelBase>::get_per_commitment_secret"))
    ctx.floor("R1.8", "getter call in Channel::release_commitment_secret", len(gs), 1)
    for bi, ln, c in gs:
        e = fv3.expr(c.args[1])
        lin = atoms.linear(e)
        ok = lin[1] == -1 and list(lin[0].values()) == [1] and list(lin[0])[0][0] == "commitment_number"
        ctx.ob("R1.8", ok, f"{b3.name}/getter-arg",
               f"release_commitment_secret(n) asks the getter for `{render(e)}` (expected n - 1)",
               where=f"{b3.file}:{ln}", sample=render(e))
    # activate_initial_commitment
    b4 = ctx.prog.fn(f"{CH}::activate_initial_commitment")
    fv4 = fnview(ctx, b4)
    sets = R.call_blocks(fv4, lambda n: n == f"{ES}::set_next_holder_commit_num")
    ctx.floor("R1.8", "setter call in activate_initial_commitment", len(sets), 1)
    for bi, ln, c in sets:
        R.scenario_refused(ctx, "R1.8", b4, ["EnforcementState.next_holder_commit_num != 0"], [(bi, ln)],
                           key=f"{b4.name}/only-from-zero",
                           what="activate_initial_commitment can move the counter when it is not 0", depth=0)
        info = fv4.expr(c.args[2])
        ctx.ob("R1.8", R.mentions_field(info, "EnforcementState", "next_holder_commit_info"),
               f"{b4.name}/info-from-next",
               f"initial activation uses `{render(info)[:120]}`, not the validated next_holder_commit_info",
               where=f"{b4.file}:{ln}")
        v = c.args[1].int_value()
        ctx.ob("R1.8", v == 1, f"{b4.name}/sets-one", f"initial activation sets the counter to {v}, not 1",
               where=f"{b4.file}:{ln}")


    # the staged commitment is *consumed* by the advance: once next_holder_commit_num has moved, next_holder_commit_info no
    # longer holds the info that licensed the move (else it licenses the next revoke too, without a new validation)
    for bb, fvv, sinks in ((b, fv, [(bi, ln) for bi, ln, c in adv]), (b4, fv4, [(bi, ln) for bi, ln, c in sets])):
        clear = set()
        for cbi, cc in bb.calls():
            nm = cc.callee.name if cc.callee else ""
            if nm.endswith("Option::<T>::take") and cc.args and \
               R.mentions_field(fvv.expr(cc.args[0]), "EnforcementState", "next_holder_commit_info"):
                clear.add(cbi)
        for bi_ in fvv.live_blocks():
            for st in bb.stmts(bi_):
                if st.kind == "a" and any(isinstance(pr, tuple) and pr[0] == "f" and pr[2] == "next_holder_commit_info"
                                          for pr in st.place.proj) and "None" in repr(st.rv):
                    clear.add(bi_)
        oks = [r for r in fvv.return_sites() if r["kind"] == "ok"]
        for sbi, sln in sinks:
            before = sbi not in fvv.reach(0, cut_nodes=clear) if clear else False
            after = bool(clear) and not any(r["block"] in fvv.reach(sbi, cut_nodes=clear) for r in oks)
            ctx.ob("R1.8", before or after, f"{bb.name}/advance/consumes-staged-info",
                   f"`{bb.name}` advances next_holder_commit_num (line {sln}) on a path that leaves next_holder_commit_info in "
                   "place (not taken before, not cleared before the Ok return): the stale entry licenses the next revoke "
                   "without a newly validated, counter-signed commitment, and the secret of the current commitment is disclosed",
                   where=f"{bb.file}:{sln}", sample="take() before the advance")


# ---------------------------------------------------------------------------- R1.9
def r19(ctx):
    ctx.rule("R1.9", "handler layer: DisclosedSecret replies are built only from the return values of "
                     "revoke_previous_holder_commitment / get_per_commitment_secret; legacy secret-with-point "
                     "only for protocol < NO_SECRET with n >= 2 and index n - 2")
    DS = "vls_protocol::model::DisclosedSecret"
    n = 0
    for b, bi, si, s in R.constructions(ctx.prog, DS):
        if b.d.krate in ("vls_protocol",) or (b.mac and "derive" in b.mac):
            continue
        on = R.owner_name(ctx.prog, b)
        if b.d.krate not in ("vls_protocol_signer", "lightning_signer", "vlsd", "vls_proxy"):
            # node-side clients decode replies; not part of the signer
            continue
        n += 1
        # find the call that receives this closure and check its receiver
        ok = False
        why = "constructed outside a closure mapped over a secret-returning call"
        if b.d.kind == "Closure" and b.d.root is not None and b.d.root.id in ctx.prog.bodies:
            parent = ctx.prog.bodies[b.d.root.id]
            # closures may be nested in closures: search all bodies rooted at the same fn
            holders = [parent] + ctx.prog.closures_of(parent)
            for hb in holders:
                hv = fnview(ctx, hb)
                for cbi, c in hb.calls():
                    if any(d.id == b.d.id for d in c.cls):
                        recv = hv.expr(c.args[0]) if c.args else ("opaque", "")
                        if R.mentions_call(recv, "revoke_previous_holder_commitment", ctx.prog) or \
                           R.mentions_call(recv, "get_per_commitment_secret", ctx.prog):
                            ok = True
                        else:
                            why = f"receiver `{render(recv)[:200]}`"
        ctx.ob("R1.9", ok, f"{on}/DisclosedSecret/{b.d.name.rsplit('::', 1)[-1]}",
               f"`{on}` builds a DisclosedSecret reply from something other than the guarded secret paths: {why}",
               where=f"{b.file}:{s.line}", sample="secret <- revoke_previous_holder_commitment / get_per_commitment_secret")
    ctx.floor("R1.9", "DisclosedSecret reply constructions in the signer", n, 4)
    # direct getter calls from outside vls-core: only the handler's legacy GetPerCommitmentPoint arm
    getter = lambda nm: nm.endswith("ChannelBase>::get_per_commitment_secret") or \
        nm == "lightning_signer::channel::ChannelBase::get_per_commitment_secret"
    sites = [s for s in R.call_sites(ctx.prog, getter)]
    for b, bi, c in sites:
        on = R.owner_name(ctx.prog, b)
        if on == f"{CH}::release_commitment_secret" or R.is_test_util(on):
            continue
        if b.d.krate == "vls_protocol_signer":
            fv = fnview(ctx, b)
            e = fv.expr(c.args[1])
            lin = atoms.linear(e)
            ok_idx = lin[1] == -2 and list(lin[0].values()) == [1]
            ctx.ob("R1.9", ok_idx, f"{on}/legacy-secret/index",
                   f"legacy GetPerCommitmentPoint discloses index `{render(e)}`, expected commitment_number - 2",
                   where=f"{b.file}:{c.line}", sample=render(e))
            R.scenario_refused(ctx, "R1.9", b, ["commitment_number < 2"], [(bi, c.line)],
                               key=f"{on}/legacy-secret/n>=2",
                               what="legacy secret disclosure reachable with commitment_number < 2", depth=0)
            continue
        ctx.ob("R1.9", False, f"{on}/calls/get_per_commitment_secret",
               f"`{on}` calls get_per_commitment_secret directly", where=f"{b.file}:{c.line}")


CLAIM = {
    "text": "Decides, for every path of every function in every workspace crate (MIR), the structural "
            "clauses R1.1-R1.9 that are necessary for C01: only four named functions can reach LDK's secret "
            "release and it is unreachable when n+2 > next_holder_commit_num (canonical linear-atom entailment, "
            "robust to respelling); the stub never returns a secret; next_holder_commit_num has one checked "
            "writer reachable only from revoke/activate; next_holder_commit_info is stored only after Ok of the "
            "validator and of check_holder_tx_signatures and only for n == next; the signature check verifies "
            "commitment and every HTLC against the recomposed transaction with the counterparty's keys; handler "
            "replies carry only secrets from those paths. (R1.10/R1.11) restart clause: every acknowledged change of the channel's enforcement state is persisted before the success return and every persisted field is restored into the same slot, the restored EnforcementState installed unmodified (same obligations as C11 R11.1 for the channel class and C11 R11.2). Does NOT decide LDK's derivation arithmetic, u64 "
            "wrap-around.",
    "note": "non-permissive policy (policy_error returns Err); rustc MIR construction; LDK/secp256k1 semantics by "
            "name; one live object per typed access path within a function; test utilities (feature test_utils) "
            "listed by name and shown unreachable from shipping code",
    "technique": "static analysis: MIR who-may-call/write + must-pass-through + guard-scenario entailment + provenance slices",
}


def r_restart(ctx):
    """the restart clause of the statement ("with a signer restart allowed between any two requests"): the channel's
    enforcement state the rules above reason about is, at every acknowledged request, the state a restarted signer has.
    Same obligations as C11 R11.1 (persist-before-acknowledge, channel class) and C11 R11.2 (persist / restore field
    agreement, restored EnforcementState installed unmodified), evaluated here because this property depends on them."""
    from rules import C11 as _c11
    from engine import report as _report
    v = _report.renamed(ctx, {"R11.1": "R1.10", "R11.2": "R1.11"})
    _c11.r111(v, classes={"channel"})
    _c11.r112(v)

"""C13 — the chain tracker follows only validated blocks and rejects atomically."""
from engine import rulelib as R
from engine import effects, atoms
from engine.rulelib import fnview
from engine.cfg import render, strip_ref, subexprs

CRATES = ["lightning_signer", "vls_protocol_signer"]
OPTIONAL_CRATES = ["vls_persist"]
LS = "lightning_signer::"
TR = LS + "chain::tracker::ChainTracker::<L>"
VAL = LS + "policy::validator::Validator"

CLAIM = {
    "text": "Decides on all MIR paths of ChainTracker::add_block / remove_block: (R13.4) remove_block compares both the supplied previous block header and the supplied previous filter header with the remembered ones and refuses a mismatch; (R13.1) every mutation of the tracked "
            "state (headers, tip, height, listeners/ListenSlot, monitor State; found as field writes, &mut borrows "
            "handed to callees, and calls into mutating callees by transitive summaries) is dominated by Ok of "
            "maybe_finish_decoding_block and Ok of validate_block and cannot reach a refusal exit (failure "
            "atomicity); (R13.2) ChainTracker::validate_block succeeds only if prev_blockhash equals the previous "
            "header's hash, validate_pow returned Ok, validate_retarget returned Ok on interval boundaries (mainnet), "
            "bits are unchanged otherwise, (R13.5) the tracker is given the configured trusted oracle set on both construction paths (fresh node and restart), and the proof validator returned Ok unless the all-zero filter-header test "
            "was taken; validate_retarget refuses the three out-of-range scenarios; (R13.3) validator::validate_block "
            "refuses every proof.verify error and key_matches < ceil(n/2), with key_matches counted over the trusted "
            "oracle keys. Does not decide PoW/retarget arithmetic inside rust-bitcoin nor TXOO proof semantics.",
    "note": "non-permissive policy; rust-bitcoin validate_pow / txoo verify trusted by name; streamed-block push "
            "events reach the monitors' private decode state before add_block (not part of the listed state)",
    "technique": "static analysis: MIR effects (failure atomicity) + must-pass-through + guard-scenario entailment",
}

CLASSES = effects.Classes({
    "tracker": [("ChainTracker<L>", "headers"), ("ChainTracker<L>", "tip"), ("ChainTracker<L>", "height"),
                ("ChainTracker<L>", "listeners"), ("tracker::ChainTracker", "headers"), ("tracker::ChainTracker", "tip"),
                ("tracker::ChainTracker", "height"), ("tracker::ChainTracker", "listeners")],
    "watches": [("tracker::ListenSlot", None)],
    "monitor": [("monitor::State", None)],
})


CLAIM["text"] += (" (R13.6) restart clause, where the build has a persistence layer: every persisted field of channel entry, node "
                  "state, tracker and monitors is serialised and restored into the same slot (same obligations as C11 R11.2).")

def run(ctx):
    ctx.explanation = CLAIM["text"]
    ctx.not_decided = "PoW / retarget arithmetic inside rust-bitcoin; TXOO proof semantics"
    r131(ctx)
    r132(ctx)
    r133(ctx)
    r134(ctx)
    r135(ctx)
    r_restore(ctx)


def r131(ctx, rid="R13.1"):
    ctx.rule(rid, "add_block/remove_block: every tracked-state mutation is dominated by Ok(maybe_finish_decoding_block) "
                      "and Ok(validate_block) and reaches no refusal exit")
    eff = effects.Effects(ctx, CLASSES)
    for fn in ("add_block", "remove_block"):
        b = ctx.prog.fn(f"{TR}::{fn}")
        fv = fnview(ctx, b)
        sites = eff.sites(b)
        ctx.floor(rid, f"mutation sites in {fn}", len(sites), 4)
        g1 = R.guard_edges(ctx, fv, lambda n: n == f"{TR}::maybe_finish_decoding_block", 0)
        g2 = R.guard_edges(ctx, fv, lambda n: n == f"{TR}::validate_block", 0)
        exits, _ = effects.refusal_exits(ctx, fv)
        for bi, cs, desc, ln in sites:
            k = f"{b.name}/{desc.split('(')[0].replace(' ', '_')}"
            ok1 = fv.must_pass(bi, g1) and bool(g1)
            ok2 = fv.must_pass(bi, g2) and bool(g2)
            ctx.ob(rid, ok1 and ok2, f"{k}/validated-first",
                   f"`{fn}` mutates {sorted(cs)} ({desc}) on a path that has not passed "
                   f"{'maybe_finish_decoding_block' if not ok1 else 'validate_block'}",
                   where=f"{b.file}:{ln}", sample=f"{desc} dominated by both validations")
            bad = [x for x in exits if fv.reaches(bi, x["block"]) and x["block"] != bi]
            ctx.ob(rid, not bad, f"{k}/no-refusal-after",
                   f"`{fn}` mutates {sorted(cs)} ({desc}) and can still refuse the request afterwards "
                   f"(error exit at line {bad[0]['line'] if bad else '?'}): a rejected request would not be atomic",
                   where=f"{b.file}:{ln}", sample=f"{desc}: no error exit reachable afterwards")
    # validate_block / maybe_finish do not touch the tracked state themselves
    for fn in ("validate_block",):
        b = ctx.prog.fn(f"{TR}::{fn}")
        s = eff.summary(b)
        ctx.ob(rid, not s, f"{b.name}/pure", f"`{fn}` itself mutates {sorted(s)}", where=f"{b.file}:{b.line}",
               sample="validation is read-only on tracked state")


def r132(ctx):
    ctx.rule("R13.2", "ChainTracker::validate_block Ok entails link, PoW, retarget structure and proof validation")
    b = ctx.prog.fn(f"{TR}::validate_block")
    fv = fnview(ctx, b)
    succ = R.success_blocks(fv)
    R.mismatch_refused(ctx, "R13.2", b, lambda a, c: "prev_blockhash" in a and "block_hash(" in c and "prev_headers" in c,
                       f"{b.name}/link", "header link check (prev_blockhash vs hash of the previous header)")
    R.must_pass_guard(ctx, "R13.2", b, succ, lambda n: n.endswith("::validate_pow"), "Header::validate_pow",
                      "Ok return", depth=0)
    # pow target operand is the header's own target
    for bi, ln, c in R.call_blocks(fv, lambda n: n.endswith("::validate_pow")):
        tgt = render(fv.expr(c.args[1]))
        hdr = render(fv.expr(c.args[0]))
        ctx.ob("R13.2", "target(" in tgt and hdr in tgt, f"{b.name}/pow-target",
               f"validate_pow is called with target `{tgt[:120]}` which is not the header's own target",
               where=f"{b.file}:{ln}", sample=tgt[:100])
    # retarget on interval boundaries (non-testnet)
    rt_edges = R.guard_edges(ctx, fv, lambda n: n == LS + "chain::tracker::validate_retarget", 0)
    assum = [atoms.parse_atom("`((height + 1) % DIFFCHANGE_INTERVAL)` == 0")]
    nview = fv
    cut = atoms.scenario_cut(nview, assum) | _testnet_cut(ctx, fv, is_testnet=False)
    live = fv.reach(0, cut_edges=cut | rt_edges)
    bad = [s for s in succ if s[0] in live]
    ctx.ob("R13.2", bool(rt_edges) and not bad, f"{b.name}/retarget-on-interval",
           "on a difficulty-interval boundary (mainnet) validate_block can succeed without Ok(validate_retarget)",
           where=f"{b.file}:{b.line}", sample={"edges_cut": len(cut), "retarget_ok_edges": len(rt_edges)})
    ctx.ob("R13.2", len(cut) >= 2, f"{b.name}/retarget-branch-recognised",
           "the interval test `(height + 1) % DIFFCHANGE_INTERVAL == 0` / network test were not recognised",
           where=f"{b.file}:{b.line}", sample=f"{len(cut)} edges decided by the scenario")
    # bits unchanged off-boundary (mainnet)
    sites = R.comparison_sites(fv, lambda a, c: a.endswith(".bits") and c.endswith(".bits"))
    ctx.ob("R13.2", len(sites) >= 1, f"{b.name}/bits-comparison", "bits equality check removed", where=f"{b.file}:{b.line}")
    for bi, c, is_ne, r0, r1 in sites:
        equal_edges = fv.result_edges(bi, c, "err" if is_ne else "ok")
        cut2 = equal_edges | _testnet_cut(ctx, fv, is_testnet=False)
        differ = fv.result_edges(bi, c, "ok" if is_ne else "err")
        bad = [s for s in succ if any(s[0] in fv.reach(v, cut_edges=cut2) for (_, v) in differ)]
        ctx.ob("R13.2", not bad, f"{b.name}/bits-mismatch-refused",
               "off a retarget boundary on mainnet a block with changed difficulty bits is accepted",
               where=f"{b.file}:{c.line}", sample="bits != prev.bits -> error (mainnet)")
    # proof: Ok(validate_block of the policy validator) or the all-zero filter header edge
    pe = R.guard_edges(ctx, fv, lambda n: n == f"{VAL}::validate_block", 0)
    zero_edges = set()
    zsites = 0
    for bi, c in fv.b.calls():
        nm = c.callee.name if c.callee else ""
        if nm.endswith("Iterator>::all") or nm.endswith("::all"):
            src = render(fv.expr(c.args[0]))
            if "prev_headers.1" in src or "prev_filter_header" in src:
                zsites += 1
                zero_edges |= fv.result_edges(bi, c, "ok")
    # the same test spelled as a comparison with the all-zero array: `h.to_byte_array() == [0u8; 32]`
    import re as _re
    for bi, c, is_ne, r0, r1 in R.comparison_sites(fv, lambda a, z: ("prev_headers.1" in a or "prev_filter_header" in a)
                                                  and _re.search(r"\[const 0_u8; \d+\]", z) is not None):
        zsites += 1
        zero_edges |= fv.result_edges(bi, c, "err" if is_ne else "ok")
    ctx.ob("R13.2", zsites == 1, f"{b.name}/zero-filter-test", f"expected exactly one all-zero filter-header test, found {zsites}",
           where=f"{b.file}:{b.line}")
    for sb, ln in succ:
        ok = fv.must_pass(sb, pe | zero_edges) and bool(pe)
        ctx.ob("R13.2", ok, f"{b.name}/proof-or-zero-filter",
               "validate_block can succeed without the proof validator's Ok other than through the documented "
               "all-zero filter-header upgrade path",
               where=f"{b.file}:{ln}", detail={"path_lines": fv.lines_of_path(fv.path(0, sb, cut_edges=pe | zero_edges))},
               sample="Ok dominated by Ok(validator.validate_block) or the all-zero edge")
    # arguments handed to the proof validator
    for bi, ln, c in R.call_blocks(fv, lambda n: n == f"{VAL}::validate_block"):
        names = [render(strip_ref(fv.named().expr(a)))[:60] for a in c.args]
        ok = "proof" in names[1] and "height" in names[2] and "header" in names[3] and \
            ("prev_filter_header" in names[5] or "prev_headers.1" in names[5]) and "trusted_oracle_pubkeys" in names[7]
        ctx.ob("R13.2", ok, f"{b.name}/proof-args", f"proof validator called with unexpected arguments {names}",
               where=f"{b.file}:{ln}", sample=names)
    # validate_retarget's three bounds
    rb = ctx.prog.fn(LS + "chain::tracker::validate_retarget")
    for scen, nm in ((["target > chain_max"], "above-chain-max"), (["target < min"], "below-min"), (["target > max"], "above-max")):
        _named_scenario(ctx, "R13.2", rb, scen, f"{rb.name}/{nm}",
                        f"validate_retarget accepts a target in scenario {scen}")


def _testnet_cut(ctx, fv, is_testnet):
    """edges infeasible when network (is / is not) Testnet: comparisons of ChainTracker.network with Network::Testnet"""
    cut = set()
    for bi, c in fv.b.calls():
        nm = c.callee.name if c.callee else ""
        if "cmp::PartialEq" in nm and (nm.endswith("::eq") or nm.endswith("::ne")) and len(c.args) == 2:
            r = render(fv.expr(c.args[0])) + "|" + render(fv.expr(c.args[1]))
            if ".network" in r and "Testnet" in r:
                eq_true = fv.result_edges(bi, c, "ok" if nm.endswith("::eq") else "err")   # network == Testnet
                eq_false = fv.result_edges(bi, c, "err" if nm.endswith("::eq") else "ok")
                cut |= (eq_false if is_testnet else eq_true)
    return cut


def _named_scenario(ctx, rid, body, scen, key, what, policy=True):
    fv = fnview(ctx, body, policy).named()
    assum = [atoms.parse_atom(a) for a in scen]
    cut = atoms.scenario_cut(fv, assum)
    live = fv.reach(0, cut_edges=cut)
    bad = [s for s in R.success_blocks(fv) if s[0] in live]
    ctx.ob(rid, bool(cut) and not bad, key, what, where=f"{body.file}:{body.line}",
           detail={"scenario": scen, "edges_cut": len(cut)}, sample={"scenario": scen, "edges_cut": len(cut)})


def r133(ctx):
    ctx.rule("R13.3", "validator::validate_block: every proof.verify error and key_matches < ceil(n/2) are refusals; "
                      "key_matches counts trusted oracle keys present in proof.attestations")
    b = ctx.prog.fn(LS + "policy::validator::validate_block")
    _named_scenario(ctx, "R13.3", b, ["result is Err"], f"{b.name}/verify-error-refused",
                    "validate_block accepts although proof.verify returned an error")
    _named_scenario(ctx, "R13.3", b, ["key_matches < required_majority"], f"{b.name}/majority",
                    "validate_block accepts with fewer attestations than the required majority")
    fv = fnview(ctx, b).named()
    # definitions of the two quantities
    req = keym = res = None
    for l in range(len(b.local_tys)):
        n = b.local_name(l)
        if n == "required_majority":
            req = fv.local_expr(l)
        if n == "key_matches":
            keym = fv.local_expr(l)
        if n == "result":
            res = fv.local_expr(l)
    rr = render(req[2]) if req and req[0] == "let" else (render(req) if req else "?")
    accepted = ("((len(trusted_oracle_pubkeys) + 1) / 2)", "(len(trusted_oracle_pubkeys) - (len(trusted_oracle_pubkeys) / 2))")
    ok = rr in accepted or ("div_ceil(" in rr and "trusted_oracle_pubkeys" in rr and rr.rstrip(")").endswith(", 2"))
    ctx.ob("R13.3", ok, f"{b.name}/required-majority-formula",
           f"required_majority is computed as `{rr}`; expected ceil(len(trusted_oracle_pubkeys) / 2)",
           where=f"{b.file}:{b.line}", sample=rr)
    kr = render(keym[2]) if keym and keym[0] == "let" else "?"
    okk = "trusted_oracle_pubkeys" in kr and "count" in kr and "filter" in kr
    # the collection that is iterated and counted is the set of trusted oracles (one vote per trusted key), not the
    # attestation list (an oracle listed twice would count twice)
    from engine.cfg import peel
    base = None
    if keym and keym[0] == "let":
        for x in subexprs(keym[2]):
            if x[0] == "call" and x[1].endswith("::filter") and x[2]:
                base = render(peel(x[2][0]))
    okk = okk and base is not None and base.endswith("trusted_oracle_pubkeys")
    ctx.ob("R13.3", okk, f"{b.name}/key-matches-source",
           f"key_matches must count trusted oracle keys that have an attestation (iterating trusted_oracle_pubkeys); it is "
           f"computed as `{kr[:200]}`",
           where=f"{b.file}:{b.line}", sample=kr[:160])
    # the filter closure compares trusted_key with attestation keys
    cl = [c for c in ctx.prog.closures_of(b)]
    found = False
    for cb in cl:
        cv = fnview(ctx, cb)
        for bi, c in cb.calls():
            nm = c.callee.name if c.callee else ""
            if "cmp::PartialEq" in nm and nm.endswith("::eq"):
                found = True
    ctx.ob("R13.3", found, f"{b.name}/key-equality", "the attestation key is no longer compared with the trusted key",
           where=f"{b.file}:{b.line}")
    rres = render(res[2]) if res and res[0] == "let" else "?"
    ok = "verify(" in rres and all(x in rres for x in ("proof", "height", "header", "prev_filter_header", "outpoint_watches"))
    ctx.ob("R13.3", ok, f"{b.name}/verify-args", f"proof.verify called as `{rres[:200]}`", where=f"{b.file}:{b.line}",
           sample=rres[:160])
    # the default trait method delegates here and is not overridden (except delegating wrappers)
    d = ctx.prog.fn(f"{VAL}::validate_block")
    dv = fnview(ctx, d)
    ctx.ob("R13.3", bool(R.call_blocks(dv, lambda n: n.startswith(LS + "policy::validator::validate_block"))),
           f"{d.name}/delegates", "Validator::validate_block no longer delegates to validator::validate_block",
           where=f"{d.file}:{d.line}")
    for im, dd in ctx.prog.impl_of.get(d.d.id, []):
        ok = dd.id == d.d.id or "OnchainValidator" in dd.name or "null_validator" in dd.name
        ctx.ob("R13.3", ok, f"{dd.name}/overrides/validate_block", f"`{dd.name}` overrides block validation", where=dd.loc)


def r134(ctx):
    ctx.rule("R13.4", "remove_block: both halves of the caller-supplied previous headers (block header and filter header) "
                      "are compared with the remembered ones, and a mismatch of either is refused before anything changes")
    p = ctx.prog
    b = p.fn(LS + "chain::tracker::ChainTracker::<L>::remove_block")
    fv = fnview(ctx, b)
    succ = R.success_blocks(fv)
    for half, name in (("0", "block header"), ("1", "filter header")):
        def both(a, c, h=half):
            # the halves themselves, or (for the block header) their block hashes, which commit to the whole header
            strip = lambda x: x[len("bitcoin::block::Header::block_hash("):-1] if x.startswith("bitcoin::block::Header::block_hash(") else x
            a2, c2 = (strip(a), strip(c)) if h == "0" else (a, c)
            return a2.endswith(f"supplied_prev_headers.{h}") and "headers[" in c2 and c2.endswith(f".{h}")
        sites = R.eq_sites(fv, both)
        ctx.ob("R13.4", len(sites) >= 1, f"{b.name}/prev-{name.replace(' ', '-')}/compared",
               f"remove_block no longer compares the supplied previous {name} with the remembered one: a request can retreat the tip "
               f"onto a header the tracker never validated" + (" (a blank filter header then also disables proof checking)" if half == "1" else ""),
               where=f"{b.file}:{b.line}", sample=f"supplied_prev_headers.{half} vs self.headers[0].{half}")
        # the comparison is made whenever a previous header is remembered: the only way around it is the empty-window edge
        empty_e = atoms.known_empty_edges(fv, "self.headers")
        if sites:
            around = fv.reach(0, cut_nodes={x[0] for x in sites}, cut_edges=empty_e)
            skipped = [ln for sb, ln in succ if sb in around]
            ctx.ob("R13.4", bool(empty_e) and not skipped, f"{b.name}/prev-{name.replace(' ', '-')}/always-compared",
                   f"remove_block can succeed without comparing the supplied previous {name} although the tracker remembers one "
                   "(the comparison is conditional on something other than an empty header window)",
                   where=f"{b.file}:{sites[0][1]}", sample="comparison skipped only when self.headers is empty")
        for bi, line, eqe, dife, r0, r1 in sites:
            bad = [sb for sb, ln in succ if any(sb in fv.reach(v) for (_, v) in dife)]
            ctx.ob("R13.4", bool(dife) and not bad, f"{b.name}/prev-{name.replace(' ', '-')}/mismatch-refused",
                   f"remove_block can succeed although the supplied previous {name} differs from the remembered one",
                   where=f"{b.file}:{line}", sample="!= => refused")


def r135(ctx):
    ctx.rule("R13.5", "the tracker validates proofs against the configured trusted oracle set on both construction paths: "
                      "Node::new hands services.trusted_oracle_pubkeys to the tracker constructor, and "
                      "Node::new_from_persistence installs it into the restored tracker before the node is built")
    p = ctx.prog
    NODE = LS + "node::Node"
    # restart path
    b = p.fn(f"{NODE}::new_from_persistence")
    fv = fnview(ctx, b)
    ws = [(bi, idx, obj) for (bb, bi, idx, obj) in R.field_writes(p, "ChainTracker<L>", "trusted_oracle_pubkeys") if bb is b] or \
         [(bi, idx, obj) for (bb, bi, idx, obj) in R.field_writes(p, "ChainTracker", "trusted_oracle_pubkeys") if bb is b]
    if not ws:
        for bb, bi, idx, obj in R.field_writes(p, "", "trusted_oracle_pubkeys"):
            if bb is b:
                ws.append((bi, idx, obj))
    ctx.ob("R13.5", len(ws) >= 1, f"{b.name}/installs-oracles",
           "the tracker restored at start-up is not given the trusted oracle set: it validates blocks against an empty set "
           "(required majority 0), so any attestation is accepted after a restart", where=f"{b.file}:{b.line}",
           sample="tracker.trusted_oracle_pubkeys <- services.trusted_oracle_pubkeys")
    for bi, idx, obj in ws:
        e = fv._call_expr(obj, 0) if idx == "T" else (fv.expr(obj.rv.ops[0]) if obj.rv.ops else ("opaque", "?"))
        ok = any(x[0] == "field" and x[3] == "trusted_oracle_pubkeys" and x[2].endswith("NodeServices") for x in subexprs(e))
        ctx.ob("R13.5", ok, f"{b.name}/oracles-source", f"the restored tracker's oracle set is `{render(e)[:100]}` (expected "
               "services.trusted_oracle_pubkeys)", where=f"{b.file}:{obj.line}", sample="services.trusted_oracle_pubkeys")
    wb = {bi for bi, _, _ in ws}
    for bi, ln, c in R.call_blocks(fv, lambda n: n == f"{NODE}::new_full"):
        ctx.ob("R13.5", bool(wb) and bi not in fv.reach(0, cut_nodes=wb), f"{b.name}/oracles-before-node",
               "new_from_persistence can build the node with a tracker that has no trusted oracle set", where=f"{b.file}:{ln}",
               sample="new_full dominated by the oracle-set assignment")
    # fresh path
    nb = p.fn(f"{NODE}::new")
    nv = fnview(ctx, nb)
    n = 0
    for bi, c in nb.calls():
        nm = c.callee.name if c.callee else ""
        if "chain::tracker::ChainTracker" in nm and c.callee is not None and c.callee.params and "trusted_oracle_pubkeys" in c.callee.params:
            n += 1
            a = nv.expr(c.args[c.callee.params.index("trusted_oracle_pubkeys")])
            ok = any(x[0] == "field" and x[3] == "trusted_oracle_pubkeys" and x[2].endswith("NodeServices") for x in subexprs(a))
            ctx.ob("R13.5", ok, f"{nb.name}/oracles-source/{nm.rsplit('::', 1)[-1]}",
                   f"Node::new builds the tracker with oracle set `{render(a)[:100]}`", where=f"{nb.file}:{c.line}",
                   sample="services.trusted_oracle_pubkeys")
    ctx.floor("R13.5", "tracker constructor calls in Node::new", n, 1)


def r_restore(ctx):
    from rules import C11 as _c11
    _c11.shared_restore(ctx, "R13.6", "tip, height, header window, watches and monitors are what a restarted tracker continues from.")

"""C12 — velocity limits bound spending in every time window, across restarts."""
from engine import rulelib as R
from engine import atoms
from engine.rulelib import fnview
from engine.cfg import render, strip_ref, peel, subexprs

CRATES = ["lightning_signer", "vls_persist", "vls_protocol_signer"]
LS = "lightning_signer::"
VC = LS + "util::velocity::VelocityControl"
NODE = LS + "node::Node"
NS = LS + "node::NodeState"

CLAIM = {
    "text": "Decides structural clauses necessary for C12: (R12.1, restart clause) the velocity controls loaded from the "
            "store flow unchanged through get_nodes -> NodeState::restore -> Node::new_full -> with_log_prefix into the "
            "NodeState installed in the Node (slot-by-slot provenance: payment control <- payment control, fee control "
            "<- fee control), the persisted model copies start_sec/bucket_interval/buckets/limit field by field in both "
            "directions, and update_spec resets a control only when the spec differs; (R12.2) the three approval sites "
            "(add_invoice, add_keysend, check_onchain_tx) call insert on the right control with the request's amount "
            "and the clock, record/acknowledge the approval only on its true edge, and refuse on its false edge; "
            "(R12.3) inside VelocityControl::insert the bucket increment is unreachable in the scenario "
            "velocity + amount > limit, the window rotation (bucket shift and start_sec re-alignment) happens on every "
            "path before any return (so approved and refused requests age the window alike), start_sec is re-aligned "
            "to current_sec - current_sec % bucket_interval, nshift = (current_sec - start_sec)/bucket_interval capped "
            "at len, and velocity() sums every bucket. (R12.5) the other save/load pair (the approver's control): get_state hands out the window start and the whole bucket vector, and load_from_state / with_state installs both components into the same fields, so a control rebuilt after a restart rotates from the saved start, not from 0. Does not decide the sliding-window inequality itself "
            "(arithmetic over arrival times). (R12.4) every approval that counts an amount in a velocity control persists "
            "the node state (update_node) before the success return, so the counted amount is in the store at restart.",
    "note": "rustc MIR; saturating arithmetic treated as addition; clock values trusted",
    "technique": "static analysis: provenance slices (slot agreement) + must-pass-through + guard-scenario entailment",
}


def run(ctx):
    ctx.explanation = CLAIM["text"]
    ctx.not_decided = "the sliding-window bound over all arrival patterns (arithmetic over runtime timestamps)"
    r121(ctx)
    r122(ctx)
    r123(ctx)
    r124(ctx)
    r125(ctx)


def r121(ctx, rid="R12.1"):
    ctx.rule(rid, "restart: restored velocity controls reach the installed NodeState slot by slot; model copies all "
                      "four fields both ways; update_spec only resets on a spec change")
    p = ctx.prog
    # Node::new_full -> with_log_prefix args derive from the state parameter's own controls
    b = p.fn(f"{NODE}::new_full")
    fv = fnview(ctx, b)
    sites = R.call_blocks(fv, lambda n: n == f"{NS}::with_log_prefix")
    ctx.floor(rid, "with_log_prefix call in new_full", len(sites), 1)
    for bi, ln, c in sites:
        for idx, fld in ((1, "velocity_control"), (2, "fee_velocity_control")):
            e = fv.expr(c.args[idx])
            ok = R.mentions_param(e, "state") and R.mentions_field(e, "NodeState", fld)
            other = "fee_velocity_control" if fld == "velocity_control" else "velocity_control"
            crossed = any(x[0] == "field" and x[3] == other and x[2].endswith("NodeState") for x in subexprs(e)) and \
                not any(x[0] == "field" and x[3] == fld and x[2].endswith("NodeState") for x in subexprs(e))
            ctx.ob(rid, ok and not crossed, f"{b.name}/keeps/{fld}",
                   f"Node::new_full installs `{render(e)[:140]}` as {fld}; the control restored from the store "
                   f"(state.{fld}) is discarded, so a restart resets the amount already counted",
                   where=f"{b.file}:{ln}", sample=f"{fld} <- state.{fld} (update_spec'd)")
    # with_log_prefix / restore / new: aggregate slots come from the same-named parameters
    for fn in ("with_log_prefix", "restore", "new"):
        fb = p.fn(f"{NS}::{fn}")
        fvv = fnview(ctx, fb)
        aggs = [(bb, bi, si, s) for (bb, bi, si, s) in R.constructions(p, NS) if bb is fb]
        ctx.floor(rid, f"NodeState literal in {fn}", len(aggs), 1)
        for bb, bi, si, s in aggs:
            vals = dict(zip(s.rv.a[3], s.rv.ops))
            for fld in ("velocity_control", "fee_velocity_control"):
                e = fvv.expr(vals[fld])
                ok = render(strip_ref(e)) == fld
                ctx.ob(rid, ok, f"{fb.name}/slot/{fld}",
                       f"NodeState::{fn} fills {fld} from `{render(e)[:100]}`", where=f"{fb.file}:{s.line}",
                       sample=f"{fld} <- parameter {fld}")
    # persistence: get_nodes passes the entry's controls in the right positions
    gn = [b2 for b2 in p.bodies.values() if b2.d.krate == "vls_persist" and b2.name.endswith("::get_nodes")
          and "KVVPersister" in b2.name]
    ctx.floor(rid, "KVVPersister::get_nodes", len(gn), 1)
    for g in gn:
        gv = fnview(ctx, g)
        rs = R.call_blocks(gv, lambda n: n == f"{NS}::restore")
        ctx.floor(rid, "NodeState::restore call in get_nodes", len(rs), 1)
        rb = p.fn(f"{NS}::restore")
        pnames = [rb.local_name(i + 1) for i in range(rb.argc)]
        for bi, ln, c in rs:
            for fld in ("velocity_control", "fee_velocity_control", "dbid_high_water_mark"):
                i = pnames.index(fld)
                e = gv.expr(c.args[i])
                ok = any(x[0] == "field" and x[3] == fld for x in subexprs(e))
                ctx.ob(rid, ok, f"{g.name}/restore-arg/{fld}",
                       f"get_nodes passes `{render(e)[:120]}` as NodeState::restore's {fld}", where=f"{g.file}:{ln}",
                       sample=f"{fld} <- state_entry.{fld}")
    # model <-> core field copies
    for frm in ("vls_persist::model::<impl std::convert::From<vls_persist::model::VelocityControl> for lightning_signer::util::velocity::VelocityControl>::from",
                "<vls_persist::model::VelocityControl as std::convert::From<lightning_signer::util::velocity::VelocityControl>>::from"):
        fb = p.fn(frm)
        fvv = fnview(ctx, fb)
        n = 0
        for bi in fvv.live_blocks():
            for s in fb.stmts(bi):
                if s.kind == "a" and s.rv.op == "agg" and isinstance(s.rv.a, tuple) and s.rv.a[0] == "adt" \
                   and s.rv.a[1].name.endswith("VelocityControl"):
                    n += 1
                    for fname, op in zip(s.rv.a[3], s.rv.ops):
                        e = fvv.expr(op)
                        ok = any(x[0] == "field" and x[3] == fname for x in subexprs(e)) or \
                            render(peel(e)).endswith("." + fname)
                        ctx.ob(rid, ok, f"{fb.name}/field/{fname}",
                               f"velocity control conversion copies `{render(e)[:80]}` into {fname}",
                               where=f"{fb.file}:{s.line}", sample=f"{fname} <- v.{fname}")
        ctx.floor(rid, f"aggregate in {frm[-60:]}", n, 1)
    # NodeStateEntry::from(&NodeState) stores each control from the same-named live field
    sb_ = p.fn("<vls_persist::model::NodeStateEntry as std::convert::From<&lightning_signer::node::NodeState>>::from")
    sv_ = fnview(ctx, sb_)
    nlit = 0
    for bb, bi, si, st in R.constructions(p, "vls_persist::model::NodeStateEntry"):
        if bb is not sb_:
            continue
        nlit += 1
        vals = dict(zip(st.rv.a[3], st.rv.ops))
        for fld in ("velocity_control", "fee_velocity_control"):
            e = sv_.expr(vals[fld])
            got = [x[3] for x in subexprs(e) if x[0] == "field" and x[2].endswith("node::NodeState")]
            ctx.ob(rid, got == [fld], f"{sb_.name}/stores/{fld}",
                   f"the stored {fld} is built from NodeState.{got}: after a restart the counted amounts of the two controls are "
                   f"mixed up (a spec mismatch then resets the window)", where=f"{sb_.file}:{st.line}", sample=f"{fld} <- state.{fld}")
    ctx.floor(rid, "NodeStateEntry literal in From<&NodeState>", nlit, 1)
    # every update_spec pairs a control with the policy's spec of the same kind (fee control <- fee spec, payment control
    # <- global spec): a mismatched spec resets the control, i.e. forgets what was counted
    nsp = 0
    for fnm in (LS + "node::Node::new_full", LS + "node::Node::update_velocity_controls"):
        fb = p.fn(fnm)
        fvn = fnview(ctx, fb).named()
        for bi, c in fb.calls():
            if not (c.callee and c.callee.name == f"{VC}::update_spec"):
                continue
            nsp += 1
            # the receiver by its variable name, the spec by its value (a `let fee_spec = policy.fee_velocity_control()` in between
            # must not matter)
            recv, spec = render(fvn.expr(c.args[0])), render(fnview(ctx, fb).expr(c.args[1]))
            # which control it is: by the NodeState field the receiver was copied from (or is), else by its variable name
            src = [x[3] for x in subexprs(fnview(ctx, fb).expr(c.args[0]))
                   if x[0] == "field" and x[3] in ("velocity_control", "fee_velocity_control")]
            is_fee = (src[0] == "fee_velocity_control") if len(set(src)) == 1 else ("fee_velocity_control" in recv)
            ok = ("Policy::fee_velocity_control(" in spec) if is_fee else ("Policy::global_velocity_control(" in spec)
            ctx.ob(rid, ok, f"{fnm}/update_spec/{'fee' if is_fee else 'payment'}",
                   f"`{fnm}` re-specs the {'fee' if is_fee else 'payment'} velocity control `{recv[-40:]}` with `{spec[:70]}`: a spec of the "
                   "other kind does not match and resets the control (the counted amount is forgotten, the limit no longer binds)",
                   where=f"{fb.file}:{c.line}", sample="fee control <- policy.fee_velocity_control(), payment control <- policy.global_velocity_control()")
    ctx.floor(rid, "update_spec calls in new_full / update_velocity_controls", nsp, 2)
    # update_spec: reset only when !spec_matches
    ub = p.fn(f"{VC}::update_spec")
    uv = fnview(ctx, ub, policy=False)
    # writes to the control: a field assignment, a whole-value assignment `*self = ..`, or a `&mut self.field` handed on
    ws = []
    for bi in uv.live_blocks():
        for s in ub.stmts(bi):
            fld = any(isinstance(pr, tuple) and pr[0] == "f" and pr[2] in ("buckets", "start_sec", "limit", "bucket_interval") and
                      pr[1].endswith("VelocityControl") for pr in s.place.proj)
            whole = s.place.local == 1 and tuple(s.place.proj) == ("*",)
            mutb = s.kind == "a" and s.rv.op == "ref" and s.rv.a and s.rv.place is not None and s.rv.place.local == 1 and \
                any(isinstance(pr, tuple) and pr[0] == "f" and pr[2] in ("buckets", "start_sec") for pr in s.rv.place.proj)
            if fld or whole or mutb:
                ws.append((bi, s.line))
        t = ub.term(bi)
        if t.kind == "call" and t.call.dest.local == 1 and tuple(t.call.dest.proj) == ("*",):
            ws.append((bi, t.call.line))
    ctx.floor(rid, "spec_matches test in update_spec", len([1 for bi, c in ub.calls() if c.callee and c.callee.name == f"{VC}::spec_matches"]), 1)
    me = set()
    for bi, c in ub.calls():
        if c.callee and c.callee.name == f"{VC}::spec_matches":
            me |= uv.result_edges(bi, c, "ok")
    live = uv.reach(0, cut_edges=uv.result_edges(*[(bi, c) for bi, c in ub.calls() if c.callee and c.callee.name == f"{VC}::spec_matches"][0], "err")) if me else set(range(uv.n))
    bad = [w for w in ws if w[0] in live]
    ctx.ob(rid, bool(me) and not bad, f"{ub.name}/reset-only-on-change",
           "update_spec rewrites the control (buckets, window start) even when the spec is unchanged: every restart would reset or "
           "misplace the window",
           where=f"{ub.file}:{ub.line}", sample="bucket reset unreachable when spec_matches")


def r122(ctx):
    ctx.rule("R12.2", "approval sites: insert on the right control with the request amount; approval recorded only on the "
                      "true edge; false edge refuses")
    p = ctx.prog
    table = [
        (f"{NODE}::add_invoice", "velocity_control", "amount_msat", "invoices"),
        (f"{NODE}::add_keysend", "velocity_control", "amount_msat", "invoices"),
        (f"{NODE}::check_onchain_tx", "fee_velocity_control", "non_beneficial", None),
    ]
    for fn, ctrl, amt, rec in table:
        b = p.fn(fn)
        fv = fnview(ctx, b).named()
        sites = R.call_blocks(fv, lambda n: n == f"{VC}::insert")
        ctx.ob("R12.2", len(sites) == 1, f"{fn}/insert-site", f"`{fn}` has {len(sites)} VelocityControl::insert call(s), expected 1",
               where=f"{b.file}:{b.line}", sample="one insert call")
        for bi, ln, c in sites:
            recv = fv.expr(c.args[0])
            okc = any(x[0] == "field" and x[3] == ctrl and x[2].endswith("NodeState") for x in subexprs(recv))
            ctx.ob("R12.2", okc, f"{fn}/insert-control", f"`{fn}` inserts into `{render(recv)[:80]}`, expected NodeState.{ctrl}",
                   where=f"{b.file}:{ln}", sample=f"insert on {ctrl}")
            ae = fv.expr(c.args[2])
            a = render(ae)
            a_val = render(fnview(ctx, b).expr(c.args[2]))      # values instead of variable names
            amt_ok = amt in a or (amt == "non_beneficial" and R.mentions_call(ae, "validate_onchain_tx") and "1000" in a_val)
            ctx.ob("R12.2", amt_ok, f"{fn}/insert-amount", f"`{fn}` inserts amount `{a[:100]}` (expected the request's {amt})",
                   where=f"{b.file}:{ln}", sample=a[:80])
            t = render(fv.expr(c.args[1]))
            ctx.ob("R12.2", "now" in t, f"{fn}/insert-time", f"`{fn}` inserts at time `{t[:80]}` (expected the clock's now)",
                   where=f"{b.file}:{ln}", sample=t[:60])
            true_e = fv.result_edges(bi, c, "ok")
            false_e = fv.result_edges(bi, c, "err")
            ctx.ob("R12.2", bool(true_e) and bool(false_e), f"{fn}/insert-checked", f"`{fn}` ignores the result of insert",
                   where=f"{b.file}:{ln}")
            # on the false edge: no success return carrying approval (Ok(true) / Ok(()) for check_onchain_tx)
            after_false = set()
            for (u, v) in false_e:
                after_false |= fv.reach(v, cut_edges=true_e)
            for r in fv.return_sites():
                if r["block"] not in after_false:
                    continue
                txt = r["how"]
                val = render(fv.expr(r["stmt"].rv.ops[0])) if "stmt" in r and r["stmt"].rv.ops else ""
                approving = (r["kind"] == "ok" and (val in ("true", "()", "") and fn.endswith("check_onchain_tx") or val == "true"))
                ctx.ob("R12.2", not approving, f"{fn}/false-edge-refuses",
                       f"`{fn}` can return an approval ({txt} {val}) although the velocity limit refused the amount",
                       where=f"{b.file}:{r['line']}", sample=f"after insert==false: {r['kind']} {val}")
            # recording (invoices.insert / persist) only after the true edge
            if rec:
                recs = [(rbi, c2.line) for rbi, c2 in b.calls()
                        if c2.callee and c2.callee.name.endswith("::insert") and c2.args and
                        any(x[0] == "field" and x[3] == rec and x[2].endswith("NodeState") for x in subexprs(fv.expr(c2.args[0])))]
                ctx.floor("R12.2", f"approval recording in {fn}", len(recs), 1)
                for rbi, rln in recs:
                    ctx.ob("R12.2", fv.must_pass(rbi, true_e), f"{fn}/record-after-insert",
                           f"`{fn}` records the approved payment on a path that has not passed the velocity check",
                           where=f"{b.file}:{rln}", sample="invoices.insert dominated by insert==true")


def r123(ctx, rid="R12.3"):
    ctx.rule(rid, "VelocityControl::insert: increment refused beyond the limit; rotation + start_sec re-alignment on "
                      "every path before return; canonical shift arithmetic; velocity() sums all buckets")
    p = ctx.prog
    b = p.fn(f"{VC}::insert")
    fv = fnview(ctx, b, policy=False).named()
    # the increment: IndexMut on buckets followed by write, or direct write through index
    inc = []
    for bi in fv.live_blocks():
        for s in b.stmts(bi):
            if s.kind == "a" and s.place.proj and s.place.proj[0] == "*":
                e = fv.expr_of_place(s.place) if hasattr(fv, "expr_of_place") else None
        t = b.term(bi)
        if t.kind == "call" and t.call.callee and "IndexMut" in t.call.callee.name and t.call.args:
            if any(x[0] == "field" and x[3] == "buckets" for x in subexprs(fv.expr(t.call.args[0]))):
                inc.append((bi, t.call.line))
    ctx.floor(rid, "bucket increment site", len(inc), 1)
    assum = [atoms.parse_atom("current_velocity + velocity_msat > VelocityControl.limit")]
    cut = atoms.scenario_cut(fv, assum)
    live = fv.reach(0, cut_edges=cut)
    bad = [x for x in inc if x[0] in live]
    ctx.ob(rid, bool(cut) and not bad, f"{b.name}/limit-guards-increment",
           "VelocityControl::insert can add the amount to the bucket although velocity + amount > limit",
           where=f"{b.file}:{inc[0][1]}", sample={"scenario": "current_velocity + velocity_msat > limit", "edges_cut": len(cut)})
    # in that scenario the function returns false only
    rets = [r for r in fv.return_sites() if R.site_block(r) in live]
    ctx.ob(rid, all(r["kind"] == "false" for r in rets) and rets, f"{b.name}/limit-returns-false",
           f"insert returns {[r['how'] for r in rets]} when the limit would be exceeded", where=f"{b.file}:{b.line}",
           sample="returns false")
    # current_velocity is velocity() taken after the rotation
    cv = None
    for l in range(len(b.local_tys)):
        if b.local_name(l) == "current_velocity":
            cv = fv.local_expr(l)
    cvr = render(cv[2]) if cv and cv[0] == "let" else "?"
    ctx.ob(rid, cvr.endswith("VelocityControl::velocity(self)"), f"{b.name}/current-velocity",
           f"current_velocity is `{cvr[:100]}`", where=f"{b.file}:{b.line}", sample=cvr[-60:])
    # rotation before every return: start_sec write and the shift loop are not control-dependent on the verdict
    sw = [(bi, s) for bi in fv.live_blocks() for s in b.stmts(bi)
          if any(isinstance(pr, tuple) and pr[0] == "f" and pr[2] == "start_sec" and pr[1].endswith("VelocityControl")
                 for pr in s.place.proj)]
    ctx.ob(rid, len(sw) == 1, f"{b.name}/start_sec-write", f"expected one write of start_sec in insert, found {len(sw)}",
           where=f"{b.file}:{b.line}")
    swb = {bi for bi, _ in sw}
    for r in fv.return_sites():
        ok = r["block"] not in fv.reach(0, cut_nodes=swb)
        ctx.ob(rid, ok, f"{b.name}/realign-before-return/{r['kind']}",
               f"insert can return {r['how']} without re-aligning start_sec after shifting the buckets: the next call "
               f"shifts again and already-approved amounts age out faster than real time",
               where=f"{b.file}:{r['line']}", sample=f"return {r['kind']} dominated by start_sec write")
    for bi, s in sw:
        e = render(fv.expr(s.rv.ops[0]))
        ok = e in ("(current_sec - (current_sec % self.bucket_interval))",)
        ctx.ob(rid, ok, f"{b.name}/start_sec-value", f"start_sec is re-aligned to `{e}`", where=f"{b.file}:{s.line}",
               sample=e)
    # the start_sec write comes before the velocity() reading and verdict
    # the shift count (what the buckets are rotated by): min(#buckets, elapsed / bucket_interval), used both for the
    # truncation and for the number of fresh buckets (binding names do not matter)
    SH = "min(len(self.buckets), ((current_sec - self.start_sec) / self.bucket_interval))"
    pv = fnview(ctx, b, policy=False)
    rs = [render(pv.expr(c.args[1])) for bi, c in b.calls() if c.callee and c.callee.name.endswith("Vec::<T, A>::resize") and len(c.args) > 1]
    rg = [render(pv.expr(c.args[0])) for bi, c in b.calls() if c.callee and "IntoIterator>::into_iter" in c.callee.name and c.args]
    ok = any(r == f"(len(self.buckets) - {SH})" for r in rs) and any(r.endswith(f"start: 0, end: {SH}}}") for r in rg)
    ctx.ob(rid, ok, f"{b.name}/nshift", f"buckets are truncated to {rs} and refilled over {rg} (expected a shift by {SH})",
           where=f"{b.file}:{b.line}", sample=SH)
    # velocity(): loop over all buckets, accumulating
    vb = p.fn(f"{VC}::velocity")
    vv = fnview(ctx, vb, policy=False).named()
    it = [c for bi, c in vb.calls() if c.callee and c.callee.name.endswith("Iterator>::next")]
    # ... or a fold / sum over the same iterator (`self.buckets.iter().fold(0, |s, b| s.saturating_add(*b))`)
    it += [c for bi, c in vb.calls() if c.callee and c.callee.name.rsplit("::", 1)[-1] in ("fold", "sum") and "Iterator" in c.callee.name]
    src_ok = False
    for c in it:
        e = vv.expr(c.args[0])
        if any(x[0] == "field" and x[3] == "buckets" for x in subexprs(e)):
            src_ok = True
    ctx.ob(rid, src_ok, f"{vb.name}/sums-all-buckets", "velocity() no longer iterates over self.buckets",
           where=f"{vb.file}:{vb.line}", sample="for bucket in self.buckets.iter()")


def r124(ctx, rid="R12.4"):
    ctx.rule(rid, "restart: an amount counted by VelocityControl::insert (true edge) is persisted with update_node "
                      "before the approving function returns success")
    from engine import effects
    p = ctx.prog
    classes = effects.Classes({"velocity": [("node::NodeState", "velocity_control"), ("node::NodeState", "fee_velocity_control"),
                                            ("velocity::VelocityControl", None)]})
    pers = {"velocity": lambda n: n in (LS + "persist::Persist::update_node", LS + "persist::Persist::new_node")
            or n.endswith("persist::Persist>::update_node")}
    eff = effects.Effects(ctx, classes)
    du = effects.Durability(ctx, eff, pers, mutates_only_on_success={f"{VC}::insert"},
                            exceptions={(f"{NODE}::update_velocity_controls", "velocity")},
                            storage_pred=pers["velocity"])
    fns = [f"{NODE}::add_invoice", f"{NODE}::add_keysend", f"{NODE}::check_onchain_tx"]
    others = [b for b in p.bodies.values() if b.d.krate == "lightning_signer" and b.d.kind == "AssocFn" and b.d.pub and
              "::node::Node::" in b.name and not R.is_test_util(b.name) and "velocity" in eff.summary(b)
              and not b.name.endswith(("::new", "::new_full", "::new_from_persistence", "::restore_node", "::restore_nodes",
                                       "::update_velocity_controls", "::new_extended"))]
    names = sorted(set(fns) | {b.name for b in others})
    ctx.floor(rid, "functions counting velocity", len(names), 3)
    for fn in names:
        b = p.fn(fn)
        lk = du.leaks(b, "velocity")
        seen = set()
        if not lk:
            ctx.ob(rid, True, f"{fn}/velocity/durable", "", where=f"{b.file}:{b.line}",
                   sample="counted amount persisted (update_node) before success return")
        for (bi, desc, ln), r in lk:
            tag = desc.split("(")[0].replace("call ", "").rsplit("::", 1)[-1]
            if tag in seen:
                continue
            seen.add(tag)
            ctx.ob(rid, False, f"{fn}/velocity/{tag}/not-persisted",
                   f"`{fn}` counts an amount against a velocity limit ({desc}, line {ln}) and returns success (line "
                   f"{r['line']}) without persisting the node state: a restart forgets the amount already counted",
                   where=f"{b.file}:{ln}")


def r125(ctx, rid="R12.5"):
    ctx.rule(rid, "VelocityControl::get_state / load_from_state are inverse on the counted window: get_state returns "
                  "(start_sec, all buckets); with_state installs state.0 as start_sec and state.1 as buckets; "
                  "load_from_state hands its whole state to with_state")
    p = ctx.prog
    gb = p.fn(f"{VC}::get_state")
    gv = fnview(ctx, gb, policy=False)
    parts = None
    for r in gv.return_sites():
        st = r.get("stmt")
        if st is not None and st.rv.op in ("agg", "tuple") or (st is not None and "tuple" in repr(st.rv)):
            parts = [render(peel(gv.expr(o))) for o in st.rv.ops]
    ok = parts is not None and len(parts) == 2 and parts[0].endswith("self.start_sec") and \
        (parts[1].endswith("clone(self.buckets)") or parts[1].endswith("self.buckets") or
         parts[1].endswith("to_vec(self.buckets)"))
    ctx.ob(rid, ok, f"{gb.name}/returns-window", f"get_state returns {parts} (expected the window start and the whole bucket vector): "
           "a control rebuilt from it after a restart does not hold what was counted", where=f"{gb.file}:{gb.line}", sample=parts)
    wb = p.fn(f"{VC}::with_state")
    wv = fnview(ctx, wb, policy=False)
    got = {}
    whole = False
    for bi in wv.live_blocks():
        for st in wb.stmts(bi):
            if st.kind != "a":
                continue
            for pr in st.place.proj:
                if isinstance(pr, tuple) and pr[0] == "f" and pr[2] in ("start_sec", "buckets", "limit", "bucket_interval") and st.place.local == 1:
                    got[pr[2]] = render(peel(wv.expr(st.rv.ops[0]))) if st.rv.ops else repr(st.rv)
            if st.place.local == 1 and not st.place.proj and st.rv.op == "agg":
                whole = True
                for fname, op in zip(st.rv.a[3], st.rv.ops):
                    got[fname] = render(peel(wv.expr(op)))
    for fld, comp in (("start_sec", "state.0"), ("buckets", "state.1")):
        ctx.ob(rid, got.get(fld, "").endswith(comp), f"{wb.name}/installs/{fld}",
               f"with_state sets {fld} from `{got.get(fld)}` (expected {comp}): after a restart the control "
               + ("rotates from second 0, so the first insert shifts every restored bucket out and the window restarts empty"
                  if fld == "start_sec" else "has lost the amounts counted before the restart"),
               where=f"{wb.file}:{wb.line}", sample=f"{fld} <- {comp}")
    for fld in ("limit", "bucket_interval"):
        ctx.ob(rid, fld not in got or got[fld].endswith("self." + fld), f"{wb.name}/keeps/{fld}",
               f"with_state overwrites {fld} with `{got.get(fld)}`", where=f"{wb.file}:{wb.line}")
    lb = p.fn(f"{VC}::load_from_state")
    lv = fnview(ctx, lb, policy=False)
    ws = R.call_blocks(lv, lambda n: n == f"{VC}::with_state")
    ctx.ob(rid, len(ws) == 1, f"{lb.name}/uses-with_state", "load_from_state no longer installs the saved state through with_state",
           where=f"{lb.file}:{lb.line}")
    for bi, ln, c in ws:
        a = [render(peel(lv.expr(x))) for x in c.args]
        ctx.ob(rid, a[-1] == "state" and "VelocityControl::new(spec)" in a[0], f"{lb.name}/args",
               f"load_from_state calls with_state({[x[:50] for x in a]}) (expected a control built from `spec` and the whole `state`)",
               where=f"{lb.file}:{ln}", sample=[x[:50] for x in a])

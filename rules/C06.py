"""C06 — approved invoices are never overpaid in flight; unbacked payments are refused."""
from engine import rulelib as R
from engine import atoms
from engine.rulelib import fnview
from engine.cfg import render, strip_ref, peel, subexprs

CRATES = ["lightning_signer"]
OPTIONAL_CRATES = ["vls_protocol_signer"]
LS = "lightning_signer::"
CH = LS + "channel::Channel"
NS = LS + "node::NodeState"
ES = LS + "policy::validator::EnforcementState"
VAL = LS + "policy::validator::Validator"
SVT = LS + "policy::simple_validator::SimpleValidator"
SV = f"<{SVT} as {VAL}>"

CLAIM = {
    "text": "Decides necessary structural conditions of the node-wide payment ledger: (R6.1) each of the four entry "
            "points that store a new commitment (sign_counterparty_commitment_tx, _phase2, "
            "validate_holder_commitment_tx, _phase2) reaches its state write only after Ok(NodeState::validate_payments) "
            "called with summaries computed from the *new* commitment in the right slot (incoming_payments_summary / "
            "payments_summary with Some(&info2) on the side being updated); apply_payments is called with the very "
            "same summaries and delta after the advance (counterparty paths and revoke_previous_holder_commitment); "
            "(R6.2) validate_payments records every hash whose validate_payment_balance fails as unbalanced except "
            "the documented uninvoiced-existing-payment case, and a non-empty unbalanced list is a refusal; the "
            "channel's own previous contribution is replaced, not added (updated_incoming_outgoing); "
            "validate_payment_balance refuses incoming + (invoice ? amount + max_routing_fee : 0) < outgoing; the "
            "per-hash operands come from the matching summaries; (R6.3) on restart, new_from_persistence calls "
            "restore_payments for every ready channel, and restore_payments rebuilds incoming from the incoming "
            "summary and outgoing from the outgoing summary; (R6.4) the per-channel summaries are conservative: the "
            "outgoing summary reads the holder's offered and the counterparty's received HTLCs, unions them and keeps "
            "the *larger* amount per hash; the incoming summary reads the holder's received and the counterparty's "
            "offered HTLCs, intersects them and keeps the *smaller* amount; summarize_payments adds the parts of one "
            "hash. (R6.6) the payment summaries are computed from the whole supplied content: nothing drops or alters an HTLC between the request and the validated / recorded CommitmentInfo2. (R6.7) the per-hash ledger entry (RoutedPayment: what each channel has in flight for the hash) is never replaced wholesale while the node runs: entries are created with entry().or_insert*, only the restart path before restore_payments may insert fresh ones, and only the two pruning functions remove entries. Does not decide the conservation inequality across "
            "channels and histories (sums over runtime maps).",
    "note": "non-permissive policy; summaries' min/max view logic (payments_summary) inspected only for slot usage",
    "technique": "static analysis: must-pass-through + provenance slices (slot agreement) + guard scenarios",
}


CLAIM["text"] += (" (R6.8) an operator's memoized approval covers exactly what was approved: MemoApprover answers true for an invoice "
                  "only on equality of the whole-invoice hashes (not the payment hash, which a different invoice - other amount, other "
                  "payee - can share), and for a keysend only on equality of payment hash and amount; evaluated where the build "
                  "contains the protocol signer.")

def run(ctx):
    ctx.explanation = CLAIM["text"]
    ctx.not_decided = "the node-wide conservation inequality over all update orders (sums over runtime maps)"
    r61(ctx)
    r62(ctx)
    r63(ctx)
    r64(ctx)
    r65(ctx)
    r_content(ctx)
    r67(ctx)
    r68(ctx)


def _named(fv, name):
    b = fv.b
    for l in range(len(b.local_tys)):
        if b.local_name(l) == name:
            e = fv.local_expr(l)
            return e[2] if e[0] == "let" else e
    return None


def r61(ctx):
    ctx.rule("R6.1", "new commitments are stored only after Ok(validate_payments) over summaries of the new commitment; "
                     "apply_payments uses the same summaries")
    p = ctx.prog
    vp = lambda n: n == f"{NS}::validate_payments"
    table = [
        (f"{CH}::sign_counterparty_commitment_tx", "counterparty", lambda n: n == f"{VAL}::set_next_counterparty_commit_num"),
        (f"{CH}::sign_counterparty_commitment_tx_phase2", "counterparty", lambda n: n == f"{VAL}::set_next_counterparty_commit_num"),
        (f"{CH}::validate_holder_commitment_tx", "holder", None),
        (f"{CH}::validate_holder_commitment_tx_phase2", "holder", None),
    ]
    for fn, side, sinkpred in table:
        b = p.fn(fn)
        fv = fnview(ctx, b)
        nv = fv.named()
        if sinkpred is not None:
            sinks = [(bi, ln) for bi, ln, c in R.call_blocks(fv, sinkpred)]
        else:
            sinks = [(bi, o.line) for (bb, bi, idx, o) in R.field_writes(p, "EnforcementState", "next_holder_commit_info") if bb is b]
        ctx.floor("R6.1", f"state write in {fn}", len(sinks), 1)
        R.must_pass_guard(ctx, "R6.1", b, sinks, vp, "NodeState::validate_payments", "commitment state write", depth=0)
        for bi, ln, c in R.call_blocks(fv, vp):
            a = [fv.expr(x) for x in c.args]
            for slot, fname, label in ((2, "incoming_payments_summary", "incoming"), (3, "::payments_summary", "outgoing")):
                e = a[slot]
                calls = [x for x in subexprs(e) if x[0] == "call" and x[1].endswith(fname) and "EnforcementState" in x[1]]
                via = None
                if not calls and R.mentions_call(e, "make_validated_recomposed_holder_commitment_tx"):
                    # raw holder entry: the summary is computed inside the recomposition helper (checked below)
                    via = "make_validated_recomposed_holder_commitment_tx"
                    hb = p.fn(f"{CH}::make_validated_recomposed_holder_commitment_tx")
                    hv = fnview(ctx, hb)
                    for r in hv.return_sites():
                        if r["kind"] == "ok" and "stmt" in r:
                            calls = [x for x in subexprs(hv.expr(r["stmt"].rv.ops[0])) if x[0] == "call" and x[1].endswith(fname)
                                     and "EnforcementState" in x[1]]
                ok = len(calls) >= 1
                if ok:
                    args = calls[0][2]
                    new_slot, other_slot = (2, 1) if side == "counterparty" else (1, 2)
                    newv, oth = render(peel(args[new_slot])), render(peel(args[other_slot]))
                    builder = "build_counterparty_commitment_info" if side == "counterparty" else "build_holder_commitment_info"
                    ok = render(peel(args[0])).endswith("enforcement_state") and oth == "None" and \
                        (builder in newv or "make_validated_recomposed_holder_commitment_tx" in newv)
                ctx.ob("R6.1", ok, f"{fn}/{label}-summary",
                       f"validate_payments' {label} summary is `{render(e)[:160]}`: not {fname.strip(':')} of the enforcement state "
                       f"with the new {side} commitment in its slot", where=f"{b.file}:{ln}",
                       sample=f"{label} <- {fname.strip(':')}(estate, {'None, Some(new)' if side == 'counterparty' else 'Some(new), None'})"
                              + (f" via {via}" if via else ""))
            ctx.ob("R6.1", render(peel(a[1])) == "self.id0", f"{fn}/channel-id", f"channel id `{render(a[1])}`", where=f"{b.file}:{ln}")
            dl = render(peel(a[4]))
            okd = dl.startswith(f"{ES}::claimable_balances(self.enforcement_state")
            ctx.ob("R6.1", okd, f"{fn}/delta", f"balance delta `{dl[:120]}`", where=f"{b.file}:{ln}", sample=dl[:80])
        # apply_payments with the same operands, after the advance
        aps = R.call_blocks(fv, lambda n: n == f"{NS}::apply_payments")
        if side == "counterparty":
            ctx.floor("R6.1", f"apply_payments in {fn}", len(aps), 1)
        vcalls = R.call_blocks(fv, vp)
        for bi, ln, c in aps:
            va = [render(peel(nv.expr(x))) for x in vcalls[0][2].args[1:5]] if vcalls else None
            aa = [render(peel(nv.expr(x))) for x in c.args[1:5]]
            ctx.ob("R6.1", va == aa, f"{fn}/apply-same-operands", f"apply_payments({[x[:50] for x in aa]}) differs from what was validated",
                   where=f"{b.file}:{ln}", sample="apply_payments(id0, incoming, outgoing, delta) == validated operands")
            if sinkpred is not None:
                R.must_pass_guard(ctx, "R6.1", b, [(bi, ln)], sinkpred, "set_next_counterparty_commit_num", "apply_payments", depth=0)
    # revoke path
    b = p.fn(f"{CH}::revoke_previous_holder_commitment")
    fv = fnview(ctx, b)
    nv = fv.named()
    aps = R.call_blocks(fv, lambda n: n == f"{NS}::apply_payments")
    ctx.floor("R6.1", "apply_payments in revoke_previous_holder_commitment", len(aps), 1)
    for bi, ln, c in aps:
        aa = [render(peel(fv.expr(x))) for x in c.args[2:4]]
        ok = aa[0].startswith(f"{ES}::incoming_payments_summary(self.enforcement_state, Some(") and \
            aa[1].startswith(f"{ES}::payments_summary(self.enforcement_state, Some(") and "next_holder_commit_info" in aa[0] \
            and aa[0].endswith(", None)") and aa[1].endswith(", None)")
        ctx.ob("R6.1", ok, f"{b.name}/apply-operands", f"apply_payments({[x[:80] for x in aa]})", where=f"{b.file}:{ln}", sample=[x[:60] for x in aa])
        # the advance step = checked setter + secret release (the private helper advance_holder_commitment_state is
        # transparent); its last fallible call is the release, whose Ok the caller tests
        R.must_pass_guard(ctx, "R6.1", b, [(bi, ln)], lambda n: n == f"{CH}::release_commitment_secret",
                          "the counter advance (set_next_holder_commit_num + release_commitment_secret)", "apply_payments", depth=0)
        setters = {sb for sb, _, _ in R.call_blocks(fv, lambda n: n.endswith("Validator::set_next_holder_commit_num"))}
        ctx.ob("R6.1", bool(setters) and bi not in fv.reach(0, cut_nodes=setters), f"{b.name}/apply-after-advance",
               "apply_payments is reachable without the counter advance having run", where=f"{b.file}:{ln}",
               sample="apply_payments dominated by Validator::set_next_holder_commit_num")


def r62(ctx):
    ctx.rule("R6.2", "validate_payments / validate_payment_balance: unbalanced hashes refuse the update")
    p = ctx.prog
    b = p.fn(f"{NS}::validate_payments")
    fv = fnview(ctx, b)
    nv = fv.named()
    R.named_scenario_refused(ctx, "R6.2", b, ["len(unbalanced) > 0"], f"{b.name}/unbalanced-refused",
                             "validate_payments succeeds although some payment hash is out of balance")
    # every failing balance check leads to unbalanced.push, except (payment.is_some && invoiced_amount.is_none)
    bal = [(bi, c) for bi, c in b.calls() if c.decl is not None and c.decl.name == f"{VAL}::validate_payment_balance"]
    ctx.ob("R6.2", len(bal) == 1, f"{b.name}/balance-call", f"{len(bal)} validate_payment_balance calls", where=f"{b.file}:{b.line}")
    pushes = [bi for bi, c in b.calls() if c.callee and c.callee.name.endswith("::push") and c.args and
              render(strip_ref(nv.expr(c.args[0]))) == "unbalanced"]
    ctx.ob("R6.2", len(pushes) == 1, f"{b.name}/unbalanced-push", f"{len(pushes)} unbalanced.push sites", where=f"{b.file}:{b.line}")
    loops = R.loops_over(fv, lambda s: "hashes" in s)
    ctx.ob("R6.2", len(loops) == 1, f"{b.name}/hash-loop", "loop over payment hashes not found", where=f"{b.file}:{b.line}")
    for bi, c in bal:
        erre = fv.result_edges(bi, c, "err")
        # the tolerated exception: payment.is_some() && invoiced_amount.is_none()
        tol = atoms.scenario_cut(nv, [atoms.parse_atom("`std::option::Option::<T>::is_some(payment)`"),
                                      atoms.parse_atom("`std::option::Option::<T>::is_none(invoiced_amount)`")])
        # scenario "balance check failed and NOT the tolerated case": cut the tolerated edges' complements is complex;
        # instead: from the Err edge, an iteration completes only through the push or through the tolerated branch
        tol_edges = set()
        for sb in fv.live_blocks():
            for tg, atom in atoms.edge_atoms(nv, sb):
                if atom is not None and atoms.entails(atom, atoms.parse_atom("invoiced_amount is None")):
                    tol_edges.add((sb, tg))
        ctx.ob("R6.2", len(tol_edges) == 1, f"{b.name}/tolerated-branch", f"{len(tol_edges)} `invoiced_amount.is_none()` branches after a failed balance",
               where=f"{b.file}:{c.line}")
        for h, hc, be, ee in loops:
            completes = False
            for (u, v) in erre:
                r = fv.reach(v, cut_nodes=set(pushes) | {h}, cut_edges=tol_edges)
                if any(h in fv.succ[x] for x in r):
                    completes = True
            ctx.ob("R6.2", bool(erre) and not completes, f"{b.name}/failed-balance-recorded",
                   "a payment hash whose balance check failed is neither recorded as unbalanced nor the documented "
                   "uninvoiced-existing-payment exception", where=f"{b.file}:{c.line}",
                   sample="Err(validate_payment_balance) -> unbalanced.push unless payment.is_some() && invoice.is_none()")
        # operands
        a = [render(nv.expr(x)) for x in c.args[1:4]]
        ok = a[0].replace(" ", "") == "(incoming_sat*1000)" and a[1].replace(" ", "") == "(outgoing_sat*1000)" and a[2] == "invoiced_amount"
        ctx.ob("R6.2", ok, f"{b.name}/balance-operands", f"validate_payment_balance({a})", where=f"{b.file}:{c.line}", sample=a)
    for nm, src in (("incoming_for_chan_sat", "incoming_payment_summary"), ("outgoing_for_chan_sat", "outgoing_payment_summary")):
        e = _named(nv, nm)
        ok = e is not None and R.mentions_param(e, src) and not R.mentions_param(e, "outgoing_payment_summary" if src.startswith("inc") else "incoming_payment_summary")
        ctx.ob("R6.2", ok, f"{b.name}/{nm}-source", f"{nm} is `{render(e)[:100] if e else None}`", where=f"{b.file}:{b.line}", sample=f"{nm} <- {src}")
    ia = _named(nv, "invoiced_amount")
    ctx.ob("R6.2", ia is not None and R.mentions_field(ia, "NodeState", "invoices") and "::map(" in render(ia),
           f"{b.name}/invoice-source", f"invoiced_amount is `{render(ia)[:100] if ia else None}`", where=f"{b.file}:{b.line}")
    # updated_incoming_outgoing: replaces this channel's contribution
    ub = p.fn(LS + "node::RoutedPayment::updated_incoming_outgoing")
    uv = fnview(ctx, ub).named()
    for nm, fld, arg in (("incoming_sum", "incoming", "incoming_amount_sat"), ("outgoing_sum", "outgoing", "outgoing_amount_sat")):
        e = _named(uv, nm)
        r = render(e) if e else ""
        ok = f"self.{fld}" in r and arg in r and " - " in r and " + " in r and ("outgoing" if fld == "incoming" else "incoming") + "_amount_sat" not in r
        ctx.ob("R6.2", ok, f"{ub.name}/{nm}", f"{nm} = `{r[:160]}`", where=f"{ub.file}:{ub.line}", sample=f"sum({fld}) + new - old[channel]")
    # validate_payment_balance
    vb = p.fn(f"{SV}::validate_payment_balance")
    R.named_scenario_refused(ctx, "R6.2", vb, ["incoming_msat + max_to_invoice_msat < outgoing_msat"], f"{vb.name}/overpay",
                             "a payment whose outgoing exceeds incoming plus the invoiced allowance is accepted")
    vv = fnview(ctx, vb).named()
    # every alternative the allowance can take (an `if let` in place, or the result of a helper)
    defs = R.all_defs(vv, "max_to_invoice_msat")
    for l in range(len(vb.local_tys)):
        if vb.local_name(l) == "max_to_invoice_msat":
            for (bi, idx, obj) in vv.defs.get(l, []):
                if idx != "T" and obj.kind == "a" and obj.rv.op == "bin":
                    defs.append(f"({render(vv.expr(obj.rv.ops[0]))} {obj.rv.a} {render(vv.expr(obj.rv.ops[1]))})")
    okd = any(d == "0" for d in defs) and any("max_routing_fee_msat" in d and "+" in d or "Add" in d for d in defs) and len(defs) <= 3
    ctx.ob("R6.2", okd, f"{vb.name}/allowance", f"max_to_invoice_msat definitions: {defs}", where=f"{vb.file}:{vb.line}", sample=defs)


def r63(ctx):
    ctx.rule("R6.3", "restart: restore_payments for every ready channel before it is usable; slots incoming<-incoming, outgoing<-outgoing")
    p = ctx.prog
    nb = p.fn(LS + "node::Node::new_from_persistence")
    nv = fnview(ctx, nb)
    calls = R.call_blocks(nv, lambda n: n == f"{CH}::restore_payments")
    ctx.ob("R6.3", len(calls) >= 1, f"{nb.name}/calls-restore_payments", "new_from_persistence no longer rebuilds the payment ledger",
           where=f"{nb.file}:{nb.line}")
    # the Ready-channel insertion is preceded by restore_payments
    ins = [(bi, c.line) for bi, c in nb.calls() if c.callee and c.callee.name.endswith("::insert") and "BTreeMap" in c.callee.name]
    for bi, ln, c in calls:
        # reachable insert after a Channel literal without passing restore_payments?
        pass
    chan_lits = [(bi, s.line) for (bb, bi, si, s) in R.constructions(p, CH) if bb is nb]
    for cb_, cl in chan_lits:
        cut = {x[0] for x in calls}
        after = nv.reach(cb_, cut_nodes=cut)
        bad = [i for i in ins if i[0] in after and i[0] != cb_]
        # an insert reachable from the Channel literal without restore_payments (same iteration)
        ls = R.loops_over(nv, lambda s: True)
        hdrs = {h for h, _, _, _ in ls}
        after2 = nv.reach(cb_, cut_nodes=cut | hdrs)
        bad = [i for i in ins if i[0] in after2]
        ctx.ob("R6.3", not bad, f"{nb.name}/restore-before-insert",
               "a restored ready channel is inserted into the channel map without restore_payments having run",
               where=f"{nb.file}:{cl}", sample="Channel literal -> restore_payments -> channels.insert")
    # nothing overwrites the rebuilt ledger afterwards: after restore_payments has run (in new_from_persistence) and
    # after new_from_persistence has returned (in restore_node) there is no insert / clear on NodeState.payments
    def ledger_writes(body, fv):
        out = []
        for bi, c in body.calls():
            nm = c.callee.name if c.callee else ""
            last = nm.rsplit("::", 1)[-1]
            if last in ("insert", "clear", "remove", "retain", "entry", "append", "extend") and c.args:
                e = fv.expr(c.args[0])
                if any(x[0] == "field" and x[3] == "payments" and x[2].endswith("NodeState") for x in subexprs(e)):
                    out.append((bi, c.line, last))
        return out
    for body, after_pred, what in ((nb, lambda n: n == f"{CH}::restore_payments", "restore_payments"),
                                   (p.fn(LS + "node::Node::restore_node"), lambda n: n == LS + "node::Node::new_from_persistence", "new_from_persistence")):
        bv = fnview(ctx, body)
        anchors_ = R.call_blocks(bv, after_pred)
        ctx.ob("R6.3", len(anchors_) >= 1, f"{body.name}/calls-{what}", f"{body.name} no longer calls {what}", where=f"{body.file}:{body.line}")
        lw = ledger_writes(body, bv)
        for abi, aln, ac in anchors_:
            reach = set()
            for t in body.term(abi).targets[:1]:
                reach = bv.reach(t)
            late = [(ln, k) for bi, ln, k in lw if bi in reach]
            ctx.ob("R6.3", not late, f"{body.name}/ledger-kept-after-{what}",
                   f"`{body.name}` modifies NodeState.payments (line {late[0][0] if late else 0}, {late[0][1] if late else ''}) after {what} "
                   f"rebuilt the in-flight amounts: the restored ledger is overwritten and an invoice can be overpaid after a restart",
                   where=f"{body.file}:{late[0][0] if late else aln}", sample=f"no ledger write after {what}")
    rb = p.fn(f"{CH}::restore_payments")
    rv = fnview(ctx, rb).named()
    for nm, src, other in (("incoming_sat", "incoming_payment_summary", "outgoing_payment_summary"),
                           ("outgoing_sat", "outgoing_payment_summary", "incoming_payment_summary")):
        e = _named(rv, nm)
        names = {x[1] for x in subexprs(e) if x[0] in ("let", "var")} if e else set()
        ok = src in names and other not in names
        ctx.ob("R6.3", ok, f"{rb.name}/{nm}-source",
               f"restore_payments rebuilds {nm} from {sorted(n for n in names if 'summary' in n)} (expected {src}): after a restart "
               f"the in-flight amount for an invoice is mis-stated", where=f"{rb.file}:{rb.line}", sample=f"{nm} <- {src}")
    for nm, want in (("incoming_payment_summary", "incoming_payments_summary(self.enforcement_state, None, None)"),
                     ("outgoing_payment_summary", "::payments_summary(self.enforcement_state, None, None)")):
        e = _named(rv, nm)
        ctx.ob("R6.3", e is not None and want in render(e), f"{rb.name}/{nm}", f"{nm} = `{render(e)[:160] if e else None}`",
               where=f"{rb.file}:{rb.line}", sample=want)
    for bi, c in rb.calls():
        if c.callee and c.callee.name == LS + "node::RoutedPayment::apply":
            a = [render(strip_ref(rv.expr(x))) for x in c.args[1:4]]
            ctx.ob("R6.3", a == ["self.id0", "incoming_sat", "outgoing_sat"], f"{rb.name}/apply-args", f"payment.apply({a})",
                   where=f"{rb.file}:{c.line}", sample=a)


def _merge_kinds(ctx, cb):
    """how a closure `|e| ..` updates *e from a captured amount: {"max"}, {"min"}, {"overwrite"} or a mix"""
    from engine import atoms
    kinds = set()
    for bi2, c2 in cb.calls():
        n2 = c2.callee.name if c2.callee else ""
        if n2.endswith("cmp::max") or n2.endswith("Ord::max"):
            kinds.add("max")
        elif n2.endswith("cmp::min") or n2.endswith("Ord::min"):
            kinds.add("min")
    fv = fnview(ctx, cb, policy=False)
    for bi2 in sorted(fv.live_blocks()):
        for st in cb.stmts(bi2):
            if st.kind != "a" or "*" not in st.place.proj or not (1 <= st.place.local <= cb.argc) or not st.rv.ops:
                continue
            val = fv.expr(st.rv.ops[0])
            if val[0] in ("max", "min"):
                kinds.add(val[0])
                continue
            if val[0] == "call":
                continue        # max()/min() result, counted above
            dst = fv.place_expr(st.place)
            try:
                le = atoms.cmp_atom("<=", val, dst)
                ge = atoms.cmp_atom(">=", val, dst)
            except Exception:
                kinds.add("overwrite")
                continue
            if bi2 not in fv.reach(0, cut_edges=atoms.scenario_cut(fv, [le])):
                kinds.add("max")        # stored only when the new amount is larger
            elif bi2 not in fv.reach(0, cut_edges=atoms.scenario_cut(fv, [ge])):
                kinds.add("min")
            else:
                kinds.add("overwrite")
    return kinds


def r64(ctx):
    ctx.rule("R6.4", "per-channel payment summaries are conservative: outgoing = union with max over (holder offered, "
                     "counterparty received); incoming = intersection with min over (holder received, counterparty offered)")
    p = ctx.prog
    spec = {"payments_summary": {"holder": "offered_htlcs", "counterparty": "received_htlcs", "merge": "max", "forbid": "min"},
            "incoming_payments_summary": {"holder": "received_htlcs", "counterparty": "offered_htlcs", "merge": "min", "forbid": "max"}}
    for fn, w in spec.items():
        b = p.fn(f"{ES}::{fn}")
        fv = fnview(ctx, b, policy=False)
        cl = p.closures_of(b)
        # which list each side contributes: the closure mapped over new_<side>_tx.or(current_<side>_commit_info)
        got = {}
        for bi, c in b.calls():
            nm = c.callee.name if c.callee else ""
            if not nm.endswith("Option::<T>::map") or not c.cls or not c.args:
                continue
            recv = render(fv.expr(c.args[0]))
            side = "holder" if ("new_holder_tx" in recv or "current_holder_commit_info" in recv) else \
                ("counterparty" if ("new_counterparty_tx" in recv or "current_counterparty_commit_info" in recv) else None)
            if side is None:
                continue
            for cd in c.cls:
                cb = p.bodies.get(cd.id)
                if cb is None:
                    continue
                for bi2 in range(len(cb.blocks)):
                    for st in cb.stmts(bi2):
                        pl = st.rv.place if st.kind == "a" and st.rv.place is not None else None
                        for pr in (pl.proj if pl is not None else []):
                            if isinstance(pr, tuple) and pr[0] == "f" and pr[1].endswith("CommitmentInfo2") and pr[2].endswith("_htlcs"):
                                got.setdefault(side, set()).add(pr[2])
        for side in ("holder", "counterparty"):
            ctx.ob("R6.4", got.get(side) == {w[side]}, f"{b.name}/{side}-list",
                   f"{fn} takes {sorted(got.get(side, []))} from the {side} commitment (expected {w[side]})", where=f"{b.file}:{b.line}",
                   sample=f"{side} -> {w[side]}")
        # the merge of the two per-hash amounts: max()/min() call, or a store guarded by the comparison
        cmps = set()
        for cb in cl:
            cmps |= _merge_kinds(ctx, cb)
        ctx.ob("R6.4", cmps == {w["merge"]}, f"{b.name}/merge",
               f"{fn} merges the holder and counterparty amounts of one payment with {sorted(cmps)} (expected {w['merge']}): "
               + ("the in-flight outgoing amount is under-counted and an invoice can be overpaid" if fn == "payments_summary"
                  else "the in-flight incoming amount is over-counted and an unbacked payment can pass"),
               where=f"{b.file}:{b.line}", sample=f"merge = {w['merge']}")
    # summarize_payments adds the parts
    sb = p.fn(f"{ES}::summarize_payments")
    adds = [c for bi, c in sb.calls() if c.callee and ("checked_add" in c.callee.name or "saturating_add" in c.callee.name)]
    plus = [1 for bi in range(len(sb.blocks)) for st in sb.stmts(bi) if st.kind == "a" and st.rv.op == "bin" and str(st.rv.a).startswith("Add")]
    for cb in p.closures_of(sb):
        plus += [1 for bi in range(len(cb.blocks)) for st in cb.stmts(bi) if st.kind == "a" and st.rv.op == "bin" and str(st.rv.a).startswith("Add")]
        adds += [c for bi, c in cb.calls() if c.callee and ("checked_add" in c.callee.name or "saturating_add" in c.callee.name)]
    ctx.ob("R6.4", bool(adds or plus), f"{sb.name}/adds-parts", "summarize_payments no longer adds the HTLCs of one payment hash",
           where=f"{sb.file}:{sb.line}", sample="sum per payment hash")


def r65(ctx):
    ctx.rule("R6.5", "an approved invoice and its in-flight ledger entry are pruned only when the payment is complete "
                     "(fulfilled or nothing outgoing) and the prune time has passed; a forwarded payment only when nothing is "
                     "incoming and no invoice refers to it")
    p = ctx.prog
    b = p.fn(f"{NS}::is_invoice_prunable")
    fv = fnview(ctx, b, policy=False)
    nv = fv.named()
    vals = {}
    for bi in sorted(fv.live_blocks()):
        for st in b.stmts(bi):
            if st.kind == "a" and st.place.local == 0 and not st.place.proj and st.rv.ops:
                vals[bi] = render(strip_ref(nv.expr(st.rv.ops[0])))
    ctx.ob("R6.5", set(vals.values()) == {"is_payment_complete", "false"}, f"{b.name}/result",
           f"is_invoice_prunable returns {sorted(set(vals.values()))} (expected: false, or is_payment_complete once past the prune time)",
           where=f"{b.file}:{b.line}", sample=sorted(set(vals.values())))
    calls_ = {c.callee.name.rsplit("::", 1)[-1] for bi, c in b.calls() if c.callee}
    dests = {b.local_name(c.dest.local) for bi, c in b.calls() if c.callee and c.callee.name.endswith("::is_no_outgoing") and c.dest.is_local()}
    ctx.ob("R6.5", {"is_fulfilled", "is_no_outgoing"} <= calls_ and "is_payment_complete" in dests, f"{b.name}/complete-definition",
           f"is_payment_complete is not is_fulfilled() || is_no_outgoing() (calls {sorted(calls_ & {'is_fulfilled', 'is_no_outgoing', 'is_no_incoming'})})",
           where=f"{b.file}:{b.line}", sample="is_fulfilled() || is_no_outgoing()")
    # the complete-branch is taken only on the true edge of a test of is_past_prune_time
    te = set()
    for bi in sorted(fv.live_blocks()):
        t = b.term(bi)
        if t.kind == "switch" and t.discr.place is not None and t.discr.place.is_local():
            l = t.discr.place.local
            sd = fv.single_def(l)
            src = l
            if sd is not None and sd[1] != "T" and sd[2].kind == "a" and sd[2].rv.op == "use" and sd[2].rv.ops[0].place is not None:
                src = sd[2].rv.ops[0].place.local
            if b.local_name(src) == "is_past_prune_time" or b.local_name(l) == "is_past_prune_time":
                fv._bool_switch(bi, t, False, "ok", te)
    bad = [bi for bi, v in vals.items() if v != "false" and not fv.must_pass(bi, te)]
    ctx.ob("R6.5", bool(te) and not bad, f"{b.name}/needs-prune-time", "is_invoice_prunable can return true before the prune time has passed",
           where=f"{b.file}:{b.line}", sample="true only on the is_past_prune_time edge")
    # forwarded payments
    helper_present = any(d.id in p.bodies for d in p.by_name.get(f"{NS}::is_forwarded_payment_prunable", []))
    if not helper_present:
        # the predicate was written in place (inlined into prune_forwarded_payments' retain closure): the same four
        # conditions must be consulted there
        pf = p.fn(f"{NS}::prune_forwarded_payments")
        bodies_ = [pf] + list(p.closures_of(pf))
        calls = {c.callee.name.rsplit("::", 1)[-1] for bb in bodies_ for bi, c in bb.calls() if c.callee}
        gets = sum(1 for bb in bodies_ for bi, c in bb.calls() if c.callee and c.callee.name.endswith("::get"))
        ctx.ob("R6.5", {"is_no_incoming", "is_no_outgoing"} <= calls and gets >= 2, f"{pf.name}/conditions",
               f"prune_forwarded_payments consults {sorted(calls)}", where=f"{pf.file}:{pf.line}",
               sample="no invoice, no issued invoice, nothing incoming, nothing outgoing (predicate written in place)")
        R.who_may_call(ctx, "R6.5", lambda n: n == f"{NS}::is_invoice_prunable",
                       {f"{NS}::prune_invoices": "approved invoices", f"{NS}::prune_issued_invoices": "issued invoices"},
                       "is_invoice_prunable", floor=1, exclude=R.is_test_util)
        return
    fb = p.fn(f"{NS}::is_forwarded_payment_prunable")
    calls = {c.callee.name.rsplit("::", 1)[-1] for bi, c in fb.calls() if c.callee}
    ctx.ob("R6.5", {"is_no_incoming", "is_no_outgoing"} <= calls and sum(1 for bi, c in fb.calls() if c.callee and c.callee.name.endswith("::get")) >= 2,
           f"{fb.name}/conditions", f"is_forwarded_payment_prunable consults {sorted(calls)}", where=f"{fb.file}:{fb.line}",
           sample="no invoice, no issued invoice, nothing incoming, nothing outgoing")
    fvv = fnview(ctx, fb, policy=False)
    trues = [r for r in fvv.return_sites() if r["kind"] in ("true", "maybe", "value")]
    for nm in ("is_no_incoming", "is_no_outgoing"):
        te = set()
        for bi, c in fb.calls():
            if c.callee and c.callee.name.endswith("::" + nm):
                te |= fvv.result_edges(bi, c, "ok")
        # the last condition is returned directly (tail); earlier ones must have been true
        if nm == "is_no_incoming":
            ctx.ob("R6.5", bool(te) and all(fvv.must_pass(R.site_block(r), te) for r in trues), f"{fb.name}/needs/{nm}",
                   f"a forwarded payment can be pruned although something is still incoming", where=f"{fb.file}:{fb.line}", sample=f"{nm}() required")
    # who may decide pruning
    R.who_may_call(ctx, "R6.5", lambda n: n == f"{NS}::is_invoice_prunable",
                   {f"{NS}::prune_invoices": "approved invoices", f"{NS}::prune_issued_invoices": "issued invoices"},
                   "is_invoice_prunable", floor=1, exclude=R.is_test_util)


def r_content(ctx):
    """the in-flight sums of C06 are computed from the HTLC lists of the CommitmentInfo2; an HTLC dropped while that value is built is not counted"""
    from rules import C04 as _c04
    ctx.rule("R6.6", "the commitment content that is validated and recorded is the content the caller supplied: the info "
                    "builders forward balances, both HTLC lists and the feerate unmodified and CommitmentInfo2::new only sorts "
                    "(same obligations as the first part of C04 R4.3)")
    _c04.content_passthrough(ctx, rid="R6.6")


def r67(ctx):
    ctx.rule("R6.7", "NodeState.payments entries are never overwritten while the node runs: `insert` (replace) only in "
                     "Node::restore_node (before the channels' restore_payments), removal only in the two prune functions, "
                     "everywhere else entry().or_insert*: approving an invoice or keysend for a hash that already has HTLCs "
                     "in flight must not reset what the channels reported for it")
    p = ctx.prog
    ALLOWED = {
        ("lightning_signer::node::Node::restore_node", "insert"):
            "restart path, before new_from_persistence lets every channel re-report its in-flight HTLCs (R6.3 orders the two)",
        ("lightning_signer::node::NodeState::prune_invoices", "retain"): "drops expired, fully resolved payments",
        ("lightning_signer::node::NodeState::prune_forwarded_payments", "retain"): "drops resolved forwarded payments",
    }
    NONDESTRUCTIVE = ("entry", "or_insert_with", "or_insert", "or_default", "get_mut", "get", "iter", "iter_mut", "values",
                      "values_mut", "contains_key", "keys", "len", "is_empty")
    n = 0
    for b in sorted(p.bodies.values(), key=lambda x: x.name):
        if b.d.krate != "lightning_signer" or R.is_test_util(b.name):
            continue
        fv = None
        for bi, c in b.calls():
            nm = c.callee.name if c.callee else ""
            last = nm.rsplit("::", 1)[-1]
            if not c.args or not ("Map" in nm or "map::" in nm or "Entry" in nm):
                continue
            fv = fv or fnview(ctx, b, policy=False)
            e = fv.expr(c.args[0])
            if not any(x[0] == "field" and x[3] == "payments" and x[2].endswith("NodeState") for x in subexprs(e)):
                continue
            n += 1
            if last in NONDESTRUCTIVE:
                continue
            on = R.owner_name(p, b)
            ok = (on, last) in ALLOWED
            ctx.ob("R6.7", ok, f"{on}/payments-{last}",
                   f"`{on}` applies `{last}` to NodeState.payments (line {c.line}): the ledger entry of a payment hash - what every "
                   "channel has in flight for it - is replaced or dropped while HTLCs for that hash may be pending, so the next "
                   "update on another channel is balanced against zero and an approved invoice can be overpaid",
                   where=f"{b.file}:{c.line}", sample=ALLOWED.get((on, last)))
    ctx.floor("R6.7", "map operations on NodeState.payments", n, 8)


def r68(ctx):
    p = ctx.prog
    fns = [b for b in p.bodies.values() if b.d.krate == "vls_protocol_signer" and "MemoApprover" in b.name and "{closure" not in b.name]
    if not fns:
        ctx.rule("R6.8", "memoized approvals match the whole approved object: not evaluated in this build configuration (no protocol signer)")
        return
    ctx.rule("R6.8", "MemoApprover: approve_invoice returns true from the memo only when invoice_hash(approved) == invoice_hash(proposed); "
                     "approve_keysend only when payment hash and amount are both equal")
    for meth, need in (("approve_invoice", [("invoice_hash(", "invoice_hash(")]),
                       ("approve_keysend", [("payment_hash", "payment_hash"), ("amount_msat", "amount_msat")])):
        bl = [b for b in fns if b.name.endswith("::" + meth)]
        ctx.floor("R6.8", f"MemoApprover::{meth}", len(bl), 1)
        b = bl[0]
        fv = fnview(ctx, b, policy=False).named()
        trues = [r for r in fv.return_sites() if r["kind"] == "true"]
        ctx.floor("R6.8", f"`return true` in MemoApprover::{meth}", len(trues), 1)
        for a_frag, c_frag in need:
            sites = R.eq_sites(fv, lambda a, c, af=a_frag, cf=c_frag: af in a and cf in c)
            ok = bool(sites)
            if ok:
                eq_edges = set()
                for s_ in sites:
                    eq_edges |= s_[2]
                ok = all(fv.must_pass(R.site_block(r), eq_edges) for r in trues)
            ctx.ob("R6.8", ok, f"MemoApprover::{meth}/{a_frag.strip('(')}",
                   f"MemoApprover::{meth} can answer `approved` from a memoized approval without equality of `{a_frag.strip('(')}` between the "
                   "approved and the proposed object: an approval given for one invoice (or keysend) is spent on another that merely shares "
                   "its payment hash, so a payment nobody approved is registered and its HTLCs are signed",
                   where=f"{b.file}:{b.line}", sample=f"true only behind {a_frag.strip('(')} == {c_frag.strip('(')}")

"""C18 — channel keys are a stable function of seed and channel id."""
from engine import rulelib as R
from engine import atoms
from engine.rulelib import fnview
from engine.cfg import render, strip_ref, peel, subexprs

CRATES = ["lightning_signer", "vls_persist"]
LS = "lightning_signer::"
MKM = LS + "signer::my_keys_manager::MyKeysManager"
KD = LS + "signer::derive::KeyDerive"
NODE = LS + "node::Node"
CH = LS + "channel::Channel"
STUB = LS + "channel::ChannelStub"

IMPURE = ("Atomic", "fetch_add", "::rand::", "thread_rng", "SystemTime", "Instant", "::now", "get_secure_random_bytes",
          "Clock", "get_channel_id", "unique_start", "starting_time")

CLAIM = {
    "text": "Decides the dependence structure of channel key material: (R18.1) the six key-material arguments of "
            "InMemorySigner::new in get_channel_keys_with_keys_id are exactly the components of "
            "KeyDerive::channel_keys(seed, keys_id, basepoint_index, master_key, secp); the Native and LDK "
            "implementations never read basepoint_index nor call any counter/entropy/clock source, so the result "
            "depends only on seed, keys_id and master_key; keys_id = KeyDerive::keys_id(channel_id, channel_seed_base) "
            "in both implementations; channel_seed_base and master_key are derived from the seed when the keys "
            "manager is built; (R18.2) argument roles: each key is passed to the InMemorySigner::new parameter of the "
            "same name, both in the keys manager and in ChannelStub::channel_keys_with_channel_value (which reuses the "
            "stub's own keys and keys_id); (R18.3) creation derives keys from the requested channel id and restart "
            "derives them from the *initial* channel id under which the entry was stored (never the permanent id), "
            "storing the same id as id0; setup re-derives only through channel_keys_with_channel_value; (R18.4) every "
            "LDK per-commitment call passes INITIAL_COMMITMENT_NUMBER - n; (R18.5) the sweep path re-derives from the "
            "descriptor's keys id unchanged. The LND style is excluded by the property. "
            "Does not decide key distinctness (collision resistance) nor that LDK's secrets form a BOLT-3 tree.",
    "note": "hkdf / sha256 / bip32 derivation functions are pure by name; LndKeyDerive excluded as the property says",
    "technique": "static analysis: dependence (taint) analysis of key-material arguments + argument-role agreement",
}


CLAIM["text"] += (" (R18.6) `across restarts`, storage side: the persister writes, deletes and reads a channel entry under the "
                  "initial channel id (id0) - the id the restore path parses back from the key and derives the keys from (same "
                  "obligations as C11 R11.5).")

def run(ctx):
    ctx.explanation = CLAIM["text"]
    ctx.not_decided = "collision resistance (distinct ids give distinct keys); BOLT-3 tree structure of LDK secrets"
    r181(ctx)
    r182(ctx)
    r183(ctx)
    r184(ctx)
    r185(ctx)
    r186(ctx)


def r181(ctx):
    ctx.rule("R18.1", "key material depends only on seed, network and channel id (native and LDK styles)")
    p = ctx.prog
    b = p.fn(f"{MKM}::get_channel_keys_with_keys_id")
    fv = fnview(ctx, b, policy=False)
    new = [c for bi, c in b.calls() if c.callee and c.callee.name == "lightning::sign::InMemorySigner::new"]
    ctx.floor("R18.1", "InMemorySigner::new in the keys manager", len(new), 1)
    ck = [c for bi, c in b.calls() if c.decl is not None and c.decl.name == f"{KD}::channel_keys"]
    ctx.ob("R18.1", len(ck) == 1, f"{b.name}/channel_keys-call", f"{len(ck)} KeyDerive::channel_keys calls", where=f"{b.file}:{b.line}")
    for c in new:
        for i in range(1, 7):
            e = fv.expr(c.args[i])
            h = strip_ref(e)
            only = h[0] == "field" and h[2] == "()" and h[1][0] == "call" and h[1][1] == f"{KD}::channel_keys"
            ctx.ob("R18.1", only, f"{b.name}/key-arg-{i}",
                   f"key material argument {i} of InMemorySigner::new is `{render(e)[:160]}`: not a component of KeyDerive::channel_keys",
                   where=f"{b.file}:{c.line}", sample="<- key_derive.channel_keys(..).N")
        kid = fv.expr(c.args[8])
        ctx.ob("R18.1", render(peel(kid)) == "keys_id", f"{b.name}/keys-id-arg", f"channel_keys_id argument is `{render(kid)[:60]}`",
               where=f"{b.file}:{c.line}")
    for c in ck:
        a = [render(peel(fv.expr(x))) for x in c.args[1:]]
        ok = a[0] == "self.seed" and a[1] == "keys_id" and a[3] == "self.master_key"
        ctx.ob("R18.1", ok, f"{b.name}/channel_keys-args", f"channel_keys({a})", where=f"{b.file}:{c.line}", sample=a)
    # implementations: Native and LDK
    for impl in ("NativeKeyDerive", "LdkKeyDerive"):
        ib = p.fn(f"<{LS}signer::derive::{impl} as {KD}>::channel_keys")
        iv = fnview(ctx, ib, policy=False)
        bodies = [ib] + p.closures_of(ib)
        # basepoint_index (parameter 3) is never read
        bpi = [l for l in range(1, 8) if (ib.local_name(l) or "").lstrip("_") == "basepoint_index"]
        if len(bpi) != 1:
            raise R.Broken(f"anchor missing: parameter basepoint_index of {ib.name}")
        used = list(iv._uses(bpi[0]))
        ctx.ob("R18.1", not used, f"{ib.name}/ignores-basepoint-index",
               f"{impl}::channel_keys reads basepoint_index (a per-process counter): keys would depend on creation order",
               where=f"{ib.file}:{ib.line}", sample="basepoint_index unused")
        bad = []
        for bb in bodies:
            for bi, c in bb.calls():
                nm = (c.callee.name if c.callee else "") + (c.decl.name if c.decl else "")
                if any(x in nm for x in IMPURE):
                    bad.append(nm)
        ctx.ob("R18.1", not bad, f"{ib.name}/pure", f"{impl}::channel_keys calls {bad[:3]}", where=f"{ib.file}:{ib.line}",
               sample="no counter / entropy / clock call")
        # self fields other than network are not read
        flds = set()
        for bi in iv.live_blocks():
            for s in ib.stmts(bi):
                if s.kind == "a":
                    for o in list(s.rv.ops) + ([s.rv] if s.rv.place is not None else []):
                        pl = o.place if hasattr(o, "place") else None
                        if pl is not None and pl.local == 1:
                            for pr in pl.proj:
                                if isinstance(pr, tuple) and pr[0] == "f":
                                    flds.add(pr[2])
        ctx.ob("R18.1", flds <= {"network"}, f"{ib.name}/self-fields", f"{impl}::channel_keys reads self fields {sorted(flds)}",
               where=f"{ib.file}:{ib.line}", sample=sorted(flds))
    # keys_id
    gb = p.fn(f"{MKM}::get_channel_keys_with_id")
    gv = fnview(ctx, gb, policy=False)
    for bi, c in gb.calls():
        if c.decl is not None and c.decl.name == f"{KD}::keys_id":
            a = [render(peel(gv.expr(x))) for x in c.args[1:]]
            ctx.ob("R18.1", a == ["channel_id", "self.channel_seed_base"], f"{gb.name}/keys_id-args", f"keys_id({a})", where=f"{gb.file}:{c.line}", sample=a)
    for bi, c in gb.calls():
        if c.callee and c.callee.name == f"{MKM}::get_channel_keys_with_keys_id":
            e = gv.expr(c.args[1])
            ctx.ob("R18.1", R.mentions_call(e, "KeyDerive::keys_id"), f"{gb.name}/uses-keys_id", f"keys derived from `{render(e)[:80]}`",
                   where=f"{gb.file}:{c.line}", sample="keys_id <- key_derive.keys_id(channel_id, channel_seed_base)")
    kb = [p.fn(f"{KD}::keys_id"), p.fn(f"<{LS}signer::derive::LdkKeyDerive as {KD}>::keys_id")]
    for b2 in kb:
        v2 = fnview(ctx, b2, policy=False)
        hk = [c for bi, c in b2.calls() if c.callee and c.callee.name.endswith("hkdf_sha256")]
        ok = len(hk) == 1
        if ok:
            a = [render(peel(v2.expr(x))) for x in hk[0].args]
            ok = a[0] == "channel_seed_base" and "channel_id" in a[2]
        bad = [c.callee.name for bi, c in b2.calls() if c.callee and any(x in c.callee.name for x in IMPURE)]
        ctx.ob("R18.1", ok and not bad, f"{b2.name}/from-id-and-base", "keys_id is not hkdf(channel_seed_base, .., channel_id)", where=f"{b2.file}:{b2.line}",
               sample="hkdf_sha256(channel_seed_base, 'per-peer seed', channel_id)")
    # MyKeysManager::new: channel_seed_base, master_key from the seed
    nb = p.fn(f"{MKM}::new")
    nv = fnview(ctx, nb, policy=False)
    n = 0
    for bb, bi, si, s in R.constructions(p, MKM):
        if bb is not nb:
            continue
        n += 1
        vals = dict(zip(s.rv.a[3], s.rv.ops))
        for f, want in (("channel_seed_base", "KeyDerive::channels_seed"), ("master_key", "KeyDerive::master_key")):
            e = nv.expr(vals[f])
            ok = R.mentions_call(e, want) and R.mentions_param(e, "seed")
            impure = [x[1] for x in subexprs(e) if x[0] == "call" and any(y in x[1] for y in IMPURE)]
            ctx.ob("R18.1", ok and not impure, f"{nb.name}/{f}", f"{f} is `{render(e)[:120]}`", where=f"{nb.file}:{s.line}", sample=f"{f} <- {want}(seed)")
    ctx.floor("R18.1", "MyKeysManager literal", n, 1)


def r182(ctx):
    ctx.rule("R18.2", "argument roles of InMemorySigner::new")
    p = ctx.prog
    ctor = [d for n, dl in p.by_name.items() if n == "lightning::sign::InMemorySigner::new" for d in dl]
    if not ctor or not ctor[0].params:
        raise R.Broken("anchor missing: parameter names of InMemorySigner::new")
    pn = ctor[0].params
    keys = ["funding_key", "revocation_base_key", "payment_key", "delayed_payment_base_key", "htlc_base_key", "commitment_seed"]
    # keys manager: local variable names (tuple destructuring of channel_keys in the documented order)
    b = p.fn(f"{MKM}::get_channel_keys_with_keys_id")
    nv = fnview(ctx, b, policy=False).named()
    # tuple component index per documented order of KeyDerive::channel_keys
    order = ["funding_key", "revocation_base_key", "htlc_base_key", "payment_key", "delayed_payment_base_key", "commitment_seed"]
    fv = fnview(ctx, b, policy=False)
    for bi, c in b.calls():
        if c.callee and c.callee.name == "lightning::sign::InMemorySigner::new":
            for i, pname in enumerate(pn):
                if pname not in keys:
                    continue
                e = fv.expr(c.args[i])
                comp = [x[3] for x in subexprs(e) if x[0] == "field" and x[2] == "()"]
                want = str(order.index(pname))
                ctx.ob("R18.2", comp[:1] == [want], f"{b.name}/role/{pname}",
                       f"InMemorySigner::new parameter {pname} receives component {comp[:1]} of channel_keys (expected {want} = {pname})",
                       where=f"{b.file}:{c.line}", sample=f"{pname} <- channel_keys.{want}")
    # implementations return the tuple in the documented order
    for impl in ("NativeKeyDerive", "LdkKeyDerive"):
        ib = p.fn(f"<{LS}signer::derive::{impl} as {KD}>::channel_keys")
        iv = fnview(ctx, ib, policy=False).named()
        for r in iv.return_sites():
            if "stmt" in r and r["stmt"].rv.op == "agg":
                names = [render(strip_ref(iv.expr(o))) for o in r["stmt"].rv.ops]
                ctx.ob("R18.2", names == order, f"{ib.name}/tuple-order", f"{impl}::channel_keys returns {names} (documented order {order})",
                       where=f"{ib.file}:{r['line']}", sample=names)
    # stub re-derivation (if the helper was inlined or removed, R18.3 decides where setup takes its keys from)
    if not p.has_fn(f"{STUB}::channel_keys_with_channel_value"):
        return
    sb = p.fn(f"{STUB}::channel_keys_with_channel_value")
    sv = fnview(ctx, sb, policy=False)
    for bi, c in sb.calls():
        if c.callee and c.callee.name == "lightning::sign::InMemorySigner::new":
            for i, pname in enumerate(pn):
                e = render(peel(sv.expr(c.args[i])))
                if pname in keys:
                    ctx.ob("R18.2", e == f"self.keys.{pname}", f"{sb.name}/role/{pname}",
                           f"stub re-derivation passes `{e}` as {pname}", where=f"{sb.file}:{c.line}", sample=f"{pname} <- self.keys.{pname}")
                elif pname == "channel_keys_id":
                    ctx.ob("R18.2", "channel_keys_id(self.keys)" in e, f"{sb.name}/role/channel_keys_id", f"keys id `{e[:80]}`", where=f"{sb.file}:{c.line}")
                elif pname == "channel_value_satoshis":
                    ctx.ob("R18.2", e == "channel_value_sat", f"{sb.name}/role/value", f"value `{e}`", where=f"{sb.file}:{c.line}")


def r183(ctx):
    ctx.rule("R18.3", "creation and restart derive from the initial channel id; setup re-derives through the stub only")
    p = ctx.prog
    target = lambda n: n == f"{MKM}::get_channel_keys_with_id"
    R.who_may_call(ctx, "R18.3", target, {f"{NODE}::find_or_create_channel": "creation", f"{NODE}::new_from_persistence": "restart"},
                   "get_channel_keys_with_id", floor=2, exclude=R.is_test_util)
    cb = p.fn(f"{NODE}::find_or_create_channel")
    cv = fnview(ctx, cb)
    for bi, ln, c in R.call_blocks(cv, target):
        e = render(peel(cv.expr(c.args[1])))
        ctx.ob("R18.3", e == "channel_id", f"{cb.name}/id", f"creation derives keys from `{e}`", where=f"{cb.file}:{ln}", sample="keys <- f(channel_id)")
    for bb, bi, si, s in R.constructions(p, STUB):
        if bb is cb:
            vals = dict(zip(s.rv.a[3], s.rv.ops))
            ctx.ob("R18.3", render(peel(cv.expr(vals["id0"]))) == "channel_id" and
                   R.mentions_call(cv.expr(vals["keys"]), "get_channel_keys_with_id"), f"{cb.name}/stub-literal",
                   "created stub does not carry the id its keys were derived from", where=f"{cb.file}:{s.line}", sample="id0 == derivation id")
    rb = p.fn(f"{NODE}::new_from_persistence")
    rv = fnview(ctx, rb)
    nrv = rv.named()
    derive_ids = set()
    for bi, ln, c in R.call_blocks(rv, target):
        e = strip_ref(nrv.expr(c.args[1]))
        name = render(e)
        derive_ids.add(name)
        # the id must be the key under which the entry was stored: an element of get_node_channels' result
        inner = e[2] if e[0] == "let" else e
        ok = R.mentions_call(inner, "get_node_channels") and not any(
            x[0] == "field" and x[3] == "id" and x[2].endswith("ChannelEntry") for x in subexprs(inner))
        ctx.ob("R18.3", ok, f"{rb.name}/id-is-initial",
               f"restart derives channel keys from `{name}` = `{render(inner)[:140]}`: not the initial channel id under which "
               f"the entry is stored (a permanent id yields different keys after restart)", where=f"{rb.file}:{ln}",
               sample="keys <- f(channel_id0) where (channel_id0, entry) in persister.get_node_channels()")
    # ... and the persister hands back the id it stored the entry under (the suffix of the storage key), not an id taken
    # from the entry's contents (the permanent id is stored *inside* the entry)
    if "vls_persist" in {bb.d.krate for bb in p.bodies.values()}:
        ng = 0
        for g in [bb for bb in p.bodies.values() if bb.d.krate == "vls_persist" and bb.name.endswith("::get_node_channels") and "KVVPersister" in bb.name]:
            gv = fnview(ctx, g, policy=False)
            for bi, c in g.calls():
                nm = c.callee.name if c.callee else ""
                if nm.endswith("Vec::<T, A>::push") and len(c.args) > 1:
                    e = gv.expr(c.args[1])
                    first = e[1][0] if e[0] == "tuple" and e[1] else e
                    id_part = render(first)
                    from_key = first[0] == "call" and first[1].endswith("ChannelId::new") and "extract_key_suffix(" in id_part
                    uses_entry_id = any(x[0] == "field" and x[3] == "id" and x[2].endswith("ChannelEntry") for x in subexprs(first))
                    ng += 1
                    ctx.ob("R18.3", from_key and not uses_entry_id, f"{g.name}/returns-store-key",
                           f"get_node_channels returns `{id_part[:140]}` as a channel's initial id: it must be the id the entry is stored "
                           f"under (the key suffix); an id read from the entry is the permanent id and yields different keys after a restart",
                           where=f"{g.file}:{c.line}", sample="(ChannelId::new(extract_key_suffix(prefix, key)), entry)")
        ctx.floor("R18.3", "pairs pushed by KVVPersister::get_node_channels", ng, 1)
    n = 0
    for adt in (STUB, CH):
        for bb, bi, si, s in R.constructions(p, adt):
            if bb is rb:
                n += 1
                vals = dict(zip(s.rv.a[3], s.rv.ops))
                idn = render(strip_ref(nrv.expr(vals["id0"])))
                ctx.ob("R18.3", idn in derive_ids, f"{rb.name}/{adt.rsplit('::', 1)[-1]}-id0",
                       f"restored {adt.rsplit('::', 1)[-1]} has id0 `{idn}` but its keys were derived from {sorted(derive_ids)}",
                       where=f"{rb.file}:{s.line}", sample="id0 == derivation id")
                ctx.ob("R18.3", R.mentions_call(rv.expr(vals["keys"]), "get_channel_keys_with_id"),
                       f"{rb.name}/{adt.rsplit('::', 1)[-1]}-keys", "restored object uses keys from elsewhere", where=f"{rb.file}:{s.line}")
    ctx.floor("R18.3", "restored stub/channel literals", n, 2)
    # setup: keys only from the stub
    sb = p.fn(f"{NODE}::setup_channel")
    sv = fnview(ctx, sb)
    for bb, bi, si, s in R.constructions(p, CH):
        if bb is sb:
            vals = dict(zip(s.rv.a[3], s.rv.ops))
            e = sv.expr(vals["keys"])
            from_stub = R.mentions_call(e, "channel_keys_with_channel_value") or any(
                x[0] == "field" and x[2].endswith("channel::ChannelStub") and x[3] == "keys" for x in subexprs(e))
            rederived = R.mentions_call(e, "get_channel_keys_with_id") or R.mentions_call(e, "get_channel_keys_with_keys_id")
            ctx.ob("R18.3", from_stub and not rederived, f"{sb.name}/keys-from-stub",
                   f"setup_channel takes the ready channel's keys from `{render(e)[:160]}`, not from the stub's own keys: the keys "
                   f"handed out before setup and the keys used after setup can differ", where=f"{sb.file}:{s.line}",
                   sample="keys <- stub.channel_keys_with_channel_value(value)")
            ctx.ob("R18.3", render(peel(sv.expr(vals["id0"]))) == "channel_id0", f"{sb.name}/id0", "setup changes id0", where=f"{sb.file}:{s.line}")
    R.who_may_call(ctx, "R18.3", lambda n: n == f"{MKM}::get_channel_keys_with_keys_id",
                   {f"{MKM}::get_channel_keys_with_id": "by channel id", f"{MKM}::derive_channel_keys": "LDK SignerProvider re-derivation by keys_id"},
                   "get_channel_keys_with_keys_id", floor=2, exclude=R.is_test_util)


def r184(ctx):
    ctx.rule("R18.4", "LDK per-commitment calls receive INITIAL_COMMITMENT_NUMBER - n")
    p = ctx.prog
    n = 0
    INIT = (1 << 48) - 1
    for b in p.bodies.values():
        if b.d.krate != "lightning_signer" or not b.file.endswith("channel.rs") or R.is_test_util(R.owner_name(p, b)):
            continue
        fv = None
        for bi, c in b.calls():
            nm = c.callee.name if c.callee else ""
            idx = None
            if nm.endswith("ChannelSigner>::get_per_commitment_point") or nm.endswith("ChannelSigner>::release_commitment_secret"):
                idx = 1
            elif nm.endswith("CounterpartyCommitmentSecrets::provide_secret") or nm.endswith("CounterpartyCommitmentSecrets::get_secret"):
                idx = 1
            if idx is None:
                continue
            fv = fv or fnview(ctx, b, policy=False)
            e = fv.expr(c.args[idx])
            lin = atoms.linear(e)
            items = list(lin[0].items())
            ok = lin[1] == INIT and len(items) == 1 and items[0][1] == -1
            n += 1
            ctx.ob("R18.4", ok, f"{R.owner_name(p, b)}/{nm.rsplit('::', 1)[-1]}/index",
                   f"`{R.owner_name(p, b)}` calls {nm.rsplit('::', 1)[-1]} with `{render(e)[:80]}` (expected INITIAL_COMMITMENT_NUMBER - n)",
                   where=f"{b.file}:{c.line}", sample=render(e)[:60])
    ctx.floor("R18.4", "per-commitment index conversions", n, 8)


def r185(ctx):
    ctx.rule("R18.5", "re-derivation for sweeps uses the channel's keys id as given: MyKeysManager::derive_channel_keys hands its "
                      "keys_id parameter unchanged to get_channel_keys_with_keys_id (the keys a descriptor names are the keys the "
                      "channel was created with)")
    p = ctx.prog
    b = p.fn(f"{MKM}::derive_channel_keys")
    ctx.touch(b)
    fv = fnview(ctx, b)
    sites = R.call_blocks(fv, lambda n: n == f"{MKM}::get_channel_keys_with_keys_id")
    ctx.floor("R18.5", "get_channel_keys_with_keys_id call in derive_channel_keys", len(sites), 1)
    for bi, ln, c in sites:
        e = peel(fv.expr(c.args[1]))
        ok = e[0] == "param" and e[1] == b.local_name(3)
        ctx.ob("R18.5", ok, f"{b.name}/keys-id-unchanged",
               f"derive_channel_keys derives from `{render(e)[:100]}`, not from the keys id it was given unchanged: for key styles whose "
               "id is not already in that form the sweep path gets other keys than the channel has", where=f"{b.file}:{ln}",
               sample="get_channel_keys_with_keys_id(keys_id, ..)")


def r186(ctx):
    """restart derives the channel's keys from the id the persister hands back, which it parses from the storage key
    (R18.3); so every write of the entry must be keyed by id0 too.  Same obligations as C11 R11.5."""
    from rules import C11 as _c11
    from engine import report as _report
    _c11.r115(_report.renamed(ctx, {"R11.5": "R18.6"}))

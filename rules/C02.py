"""C02 — no holder commitment is both signed for broadcast and revoked."""
from engine import rulelib as R
from engine.rulelib import fnview
from engine.cfg import render, strip_ref
from engine import atoms

CRATES = None
LS = "lightning_signer::"
CH = LS + "channel::Channel"
ES = LS + "policy::validator::EnforcementState"
VAL = LS + "policy::validator::Validator"
SV = f"<{LS}policy::simple_validator::SimpleValidator as {VAL}>"

SIGN_HOLDER = lambda n: n.endswith("EcdsaChannelSigner>::sign_holder_commitment") or \
    n == "lightning::sign::ecdsa::EcdsaChannelSigner::sign_holder_commitment"
SIGN_CLOSING = lambda n: n.endswith("EcdsaChannelSigner>::sign_closing_transaction") or \
    n == "lightning::sign::ecdsa::EcdsaChannelSigner::sign_closing_transaction"

HOLDER_SIGNERS = {
    f"{CH}::sign_holder_commitment_tx_phase2": "force close of the current commitment",
    f"{CH}::sign_holder_commitment_tx_for_recovery": "recovery: current commitment by construction",
    f"{CH}::sign_holder_commitment_tx_phase2_redundant": "LDK redundant signing, guarded by validate_holder_commitment_tx",
}
CLOSERS = {
    f"{CH}::sign_mutual_close_tx_phase2": "cooperative close (semantic)",
    f"{CH}::sign_mutual_close_tx": "cooperative close (raw)",
}
DYN = {
    "<vls_protocol_client::dyn_signer::DynSigner as lightning_signer::lightning::sign::ecdsa::EcdsaChannelSigner>::sign_holder_commitment":
        "node-side adaptor forwarding to the remote signer",
    "<vls_protocol_client::dyn_signer::DynSigner as lightning_signer::lightning::sign::ecdsa::EcdsaChannelSigner>::sign_closing_transaction":
        "node-side adaptor forwarding to the remote signer",
}

CLAIM = {
    "text": "Decides on all MIR paths: (R2.1) the three functions that can reach LDK's sign_holder_commitment sign "
            "only a number n that is next_holder_commit_num-1 by construction or for which the scenario "
            "n+2 <= next_holder_commit_num (n revoked) is refused before the signature (guards found through "
            "callee look-through); no other function in any crate reaches the LDK call; (R2.2) every function "
            "releasing a holder/closing signature writes channel_closed=true and passes Ok(persist) before its Ok "
            "return, and channel_closed is never written false; (R2.3) the counter advance in "
            "revoke_previous_holder_commitment is unreachable when channel_closed; (R2.4) SimpleValidator::"
            "validate_holder_commitment_tx refuses revoked numbers and a new state on a closed channel; (R2.5) the other "
            "half of the disjointness argument (signed: n = next-1; disclosed: n+2 <= next): only the four named functions "
            "reach LDK's secret release and it is unreachable when n+2 > next_holder_commit_num, whatever else is staged "
            "(same obligations as C01 R1.1/R1.2). (R2.6/R2.7) restart clause: every acknowledged change of the channel's enforcement state is persisted before the success return and every persisted field is restored into the same slot, the restored EnforcementState installed unmodified (same obligations as C11 R11.1 for the channel class and C11 R11.2). Does not "
            "decide secret-derivation arithmetic.",
    "note": "non-permissive policy; rustc MIR; LDK semantics by name; single live object per typed path",
    "technique": "static analysis: MIR who-may-call + guard-scenario entailment with callee look-through + must-pass-through",
}


def run(ctx):
    ctx.explanation = CLAIM["text"]
    ctx.not_decided = "values of secrets/signatures; restart clause delegated to C11"
    ctx.assumptions += ["policy is non-permissive (DESIGN §3.1)", "LDK sign_* semantics trusted by name"]
    r21(ctx)
    r22(ctx)
    r23(ctx)
    r24(ctx)
    r25(ctx)
    r_restart(ctx)


def r21(ctx):
    ctx.rule("R2.1", "sign ⇒ not revoked: sign_holder_commitment reachable only for n = next-1 (construction) or "
                     "with the scenario n+2 <= next_holder_commit_num refused")
    allowed = dict(HOLDER_SIGNERS)
    allowed.update(DYN)
    R.who_may_call(ctx, "R2.1", SIGN_HOLDER, allowed, "holder commitment signature", floor=3,
                   exclude=R.is_test_util)
    for fn in HOLDER_SIGNERS:
        b = ctx.prog.fn(fn)
        fv = fnview(ctx, b)
        sinks = [(bi, ln) for bi, ln, c in R.call_blocks(fv, SIGN_HOLDER)]
        mk = R.call_blocks(fv, lambda n: n == f"{CH}::make_holder_commitment_tx")
        ctx.floor("R2.1", f"make_holder_commitment_tx in {fn}", len(mk), 1)
        for bi, ln, c in mk:
            e = strip_ref(fv.expr(c.args[1]))
            lin = atoms.linear(e)
            syms = list(lin[0].items())
            by_construction = (len(syms) == 1 and syms[0][1] == 1 and lin[1] == -1 and
                               syms[0][0][1] == "EnforcementState.next_holder_commit_num")
            if by_construction:
                ctx.ob("R2.1", True, f"{fn}/number/by-construction", "", where=f"{b.file}:{ln}",
                       sample=f"signs number {render(e)} (= current commitment)")
                continue
            if e[0] != "param":
                ctx.ob("R2.1", False, f"{fn}/number/unrecognised",
                       f"`{fn}` signs commitment number `{render(e)}` which is neither next-1 nor a guarded parameter",
                       where=f"{b.file}:{ln}")
                continue
            R.scenario_refused(
                ctx, "R2.1", b, [f"{e[1]} + 2 <= EnforcementState.next_holder_commit_num"], sinks,
                key=f"{fn}/sign/not-revoked",
                what=f"`{fn}` can sign holder commitment n although n + 2 <= next_holder_commit_num "
                     f"(its revocation secret was already disclosed)")
        # the signed object is the recomposed transaction
        for bi, ln, c in R.call_blocks(fv, SIGN_HOLDER):
            tx = fv.expr(c.args[1])
            ctx.ob("R2.1", R.mentions_call(tx, "make_holder_commitment_tx"), f"{fn}/sign/recomposed",
                   f"`{fn}` signs `{render(tx)[:160]}` which is not built by make_holder_commitment_tx",
                   where=f"{b.file}:{ln}", sample="signed tx <- make_holder_commitment_tx")
    # get_current_holder_commitment_info: Ok only for n + 1 == next
    b = ctx.prog.fn(f"{VAL}::get_current_holder_commitment_info")
    fv = fnview(ctx, b)
    R.scenario_refused(ctx, "R2.1", b, ["commitment_number + 1 != EnforcementState.next_holder_commit_num"],
                       R.success_blocks(fv), key=f"{b.name}/only-current",
                       what="get_current_holder_commitment_info succeeds for a number other than next-1", depth=0)
    for im, d in ctx.prog.impl_of.get(b.d.id, []):
        ctx.ob("R2.1", d.id == b.d.id or "null_validator" in d.name or "OnchainValidator" in d.name,
               f"{d.name}/overrides/get_current_holder_commitment_info",
               f"`{d.name}` overrides get_current_holder_commitment_info (guard bypass)", where=d.loc)


def r22(ctx):
    ctx.rule("R2.2", "every function that releases a holder or closing signature writes channel_closed = true "
                     "and passes Ok(Channel::persist) before its Ok return; channel_closed is never reset")
    allowed = dict(CLOSERS)
    allowed.update(DYN)
    R.who_may_call(ctx, "R2.2", SIGN_CLOSING, allowed, "closing signature", floor=2, exclude=R.is_test_util)
    fns = list(HOLDER_SIGNERS) + list(CLOSERS)
    ws = R.who_may_write(ctx, "R2.2", "EnforcementState", "channel_closed",
                         {f: "sets closed after signing" for f in fns}, floor=0, borrows_allowed={})
    for b, bi, idx, s in ws:
        v = s.rv.ops[0].const["s"] if hasattr(s, "rv") and s.rv.op == "use" and s.rv.ops[0].const else None
        ctx.ob("R2.2", v == "true", f"{R.owner_name(ctx.prog, b)}/channel_closed/value",
               f"channel_closed is assigned `{v}` (must only ever become true)", where=f"{b.file}:{s.line}",
               sample="channel_closed = true")
    closed_flag_rule(ctx, "R2.2", fns)


def closed_flag_rule(ctx, rid, fns):
    """each listed signing function writes channel_closed = true on every Ok path, persists afterwards, and the flag is
    set before the persist call (so the stored state has it)"""
    ws = R.field_writes(ctx.prog, "EnforcementState", "channel_closed")
    for fn in fns:
        b = ctx.prog.fn(fn)
        fv = fnview(ctx, b)
        wblocks = {bi for (bb, bi, idx, s) in ws if bb is b}
        for sb, ln in R.success_blocks(fv):
            ok = sb not in fv.reach(0, cut_nodes=wblocks)
            ctx.ob(rid, ok and bool(wblocks), f"{fn}/ok-needs/closed-flag",
                   f"`{fn}` can return a signature without setting channel_closed", where=f"{b.file}:{ln}",
                   sample="Ok return dominated by channel_closed = true")
        R.must_pass_guard(ctx, rid, b, R.success_blocks(fv), lambda n: n == f"{CH}::persist",
                          "Channel::persist", "Ok(signature) return", depth=0)
        # the flag is set before persisting (so the persisted state has it)
        pblocks = [bi for bi, ln, c in R.call_blocks(fv, lambda n: n == f"{CH}::persist")]
        for pb in pblocks:
            ok = pb not in fv.reach(0, cut_nodes=wblocks)
            ctx.ob(rid, ok, f"{fn}/persist-after-flag",
                   f"`{fn}` persists before channel_closed is set (the stored state would not be closed: after a restart the "
                   f"channel is open again)", where=f"{b.file}:{fv.b.term(pb).line}", sample="persist dominated by channel_closed = true")


def r23(ctx):
    ctx.rule("R2.3", "revoke ⇒ not closed: the counter advance in revoke_previous_holder_commitment is "
                     "unreachable when EnforcementState.channel_closed")
    b = ctx.prog.fn(f"{CH}::revoke_previous_holder_commitment")
    fv = fnview(ctx, b)
    # the advance = the checked Validator::set_next_holder_commit_num call (advance_holder_commitment_state is transparent)
    adv = [(bi, ln) for bi, ln, c in R.call_blocks(fv, lambda n: n == f"{VAL}::set_next_holder_commit_num")]
    ctx.floor("R2.3", "advance call", len(adv), 1)
    R.scenario_refused(ctx, "R2.3", b, ["EnforcementState.channel_closed"], adv,
                       key=f"{b.name}/advance/not-closed",
                       what="revoke_previous_holder_commitment advances (and discloses a new revocation secret) "
                            "although a holder/closing signature was already released (channel_closed): history "
                            "validate n+1, sign n, revoke n yields commitment n both signed and revoked")
    # the advance is what gets stored: Channel::persist in this function runs only after the advance (a record written
    # before it still has the old counter: after a restart the revoked commitment is signable again)
    advb = {bi for bi, _ in adv}
    for bi, ln, c in R.call_blocks(fv, lambda n: n == f"{CH}::persist"):
        ctx.ob("R2.3", bi not in fv.reach(0, cut_nodes=advb), f"{b.name}/persist-after-advance",
               "revoke_previous_holder_commitment can persist the channel before the counter advance and the secret release: the "
               "stored state does not know the revocation, and a restarted signer signs the revoked commitment",
               where=f"{b.file}:{ln}", sample="persist dominated by the counter advance")
    # also the take() of the stored info happens only when not closed (no state change on refusal)
    # activate_initial_commitment: advancing 0 -> 1 discloses nothing (no predecessor) : recorded
    ctx.sample("R2.3", "activate_initial_commitment", "channel.rs", "initial activation discloses no secret (n=0 has no predecessor)")


def r24(ctx):
    ctx.rule("R2.4", "SimpleValidator::validate_holder_commitment_tx refuses (a) commit_num + 2 <= next "
                     "(revoked) and (b) commit_num == next on a closed channel")
    b = ctx.prog.fn(f"{SV}::validate_holder_commitment_tx")
    fv = fnview(ctx, b)
    succ = R.success_blocks(fv)
    R.scenario_refused(ctx, "R2.4", b, ["commit_num + 2 <= EnforcementState.next_holder_commit_num"], succ,
                       key=f"{b.name}/refuse-revoked",
                       what="validate_holder_commitment_tx accepts a revoked commitment number "
                            "(policy-commitment-holder-not-revoked)")
    R.scenario_refused(ctx, "R2.4", b, ["commit_num == EnforcementState.next_holder_commit_num",
                                        "EnforcementState.channel_closed"], succ,
                       key=f"{b.name}/refuse-new-when-closed",
                       what="validate_holder_commitment_tx accepts a new holder commitment after the channel was closed")


def r25(ctx):
    """C02 rests on two disjoint windows: a holder signature is released for n = next_holder_commit_num - 1 only (R2.1),
    a revocation secret for n + 2 <= next_holder_commit_num only.  The second bound is C01 R1.1/R1.2; it is evaluated here
    too because relaxing it (e.g. by one while a successor is staged) makes the current, signable commitment revocable."""
    from rules import C01 as _c01
    _c01.r11(ctx, rid="R2.5")
    _c01.r12(ctx, rid="R2.5")


def r_restart(ctx):
    """the restart clause of the statement ("with a signer restart allowed between any two requests"): the channel's
    enforcement state the rules above reason about is, at every acknowledged request, the state a restarted signer has.
    Same obligations as C11 R11.1 (persist-before-acknowledge, channel class) and C11 R11.2 (persist / restore field
    agreement, restored EnforcementState installed unmodified), evaluated here because this property depends on them."""
    from rules import C11 as _c11
    from engine import report as _report
    v = _report.renamed(ctx, {"R11.1": "R2.6", "R11.2": "R2.7"})
    _c11.r111(v, classes={"channel"})
    _c11.r112(v)

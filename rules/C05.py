"""C05 — accepted commitments satisfy every mandatory policy bound."""
from engine import rulelib as R
from engine import atoms
from engine.rulelib import fnview
from engine.cfg import render, strip_ref, peel, subexprs

CRATES = ["lightning_signer"]
OPTIONAL_CRATES = ["vls_persist"]
LS = "lightning_signer::"
SVT = LS + "policy::simple_validator::SimpleValidator"
VAL = LS + "policy::validator::Validator"
SV = f"<{SVT} as {VAL}>"
OVT = LS + "policy::onchain_validator::OnchainValidator"
OV = f"<{OVT} as {VAL}>"
CH = LS + "channel::Channel"

CLAIM = {
    "text": "Decides presence, position and canonical meaning of each mandatory bound's guard on all MIR paths (scenario "
            "refusal over canonical linear atoms; per-element bounds via 'no loop iteration can complete in the "
            "scenario'): (R5.1) SimpleValidator::validate_commitment_tx refuses to-output dust, too many HTLCs, each "
            "offered/received HTLC below its dust limit or with an expiry outside validate_expiry's ranges, in-flight "
            "sum above the limit (one accumulator fed by both loops with checked_add), fee rate outside [min,max] with "
            "fee = channel value - sum of outputs by checked_sub, and on commitment 0 any HTLC or (outbound) more than "
            "push/1000 to the counterparty; validate_setup_channel refuses unsafe commitment types and both contest "
            "delays outside [min_delay,max_delay]; validate_channel_value refuses channel_value > max; (R5.2) both "
            "validate_*_commitment_tx pass Ok(validate_commitment_tx), Node::setup_channel inserts the ready channel "
            "only after Ok(validate_setup_channel); (R5.3) OnchainValidator calls ensure_funding_buried_and_unspent "
            "before delegating (holder side for next_holder_commit_num <= n), which refuses commit_num > 0 with "
            "funding_depth < min_funding_depth or closing_depth > 0, and every other method delegates to `inner` with "
            "its own arguments in order; (R5.4) the policy filter defaults to Error and policy_error returns Err "
            "unless a rule says Warn; (R5.5) no quantity compared with a SimplePolicy bound in policy/ was narrowed by a "
            "truncating integer cast on the way (callee return values included). (R5.6) the bounds are evaluated on the whole supplied content: nothing drops or alters an HTLC, a balance or the feerate between the request and the validated CommitmentInfo2. Does not decide arithmetic behaviour at u64 extremes beyond the presence of "
            "checked operations.",
    "note": "non-permissive policy; estimate_feerate_per_kw / expected_commitment_tx_weight / htlc_*_tx_weight trusted "
            "by name; one live object per typed path",
    "technique": "static analysis: guard-scenario entailment (linear atoms, loops, callee look-through) + must-pass-through "
                 "+ delegation agreement",
}


def const(ctx, name):
    for k, (v, ty) in ctx.prog.consts.items():
        if ctx.prog.defs[k].name == name:
            return v
    raise R.Broken(f"anchor missing: const {name}")


CLAIM["text"] += (" (R5.7) restart clause, where the build has a persistence layer: every persisted field of channel entry, node "
                  "state, tracker and monitors is serialised and restored into the same slot (same obligations as C11 R11.2).")

def run(ctx):
    ctx.explanation = CLAIM["text"]
    ctx.not_decided = "inequalities at u64 overflow extremes beyond presence of checked arithmetic; weight formulas"
    r51(ctx)
    r52(ctx)
    r53(ctx)
    r54(ctx)
    r55(ctx)
    r_content(ctx)
    r_restore(ctx)


def r51(ctx):
    ctx.rule("R5.1", "each mandatory bound is a refusal scenario of the named SimpleValidator method")
    p = ctx.prog
    dust = const(ctx, LS + "util::transaction_utils::MIN_CHAN_DUST_LIMIT_SATOSHIS")
    b = p.fn(f"{SVT}::validate_commitment_tx")
    N = lambda scen, key, what, **kw: R.named_scenario_refused(ctx, "R5.1", b, scen, f"{b.name}/{key}", what, **kw)
    for side in ("to_broadcaster_value_sat", "to_countersigner_value_sat"):
        N([f"CommitmentInfo2.{side} > 0", f"CommitmentInfo2.{side} < {dust}"], f"dust/{side}",
          f"a commitment whose {side} is non-zero but below the dust limit ({dust}) is accepted")
    N(["len(info.offered_htlcs) + len(info.received_htlcs) > SimplePolicy.max_htlcs"], "htlc-count",
      "a commitment with more HTLCs than policy.max_htlcs is accepted")
    N(["htlc_value_sat > SimplePolicy.max_htlc_value_sat"], "inflight",
      "a commitment whose in-flight HTLC value exceeds policy.max_htlc_value_sat is accepted")
    N(["commit_num == 0", "len(info.offered_htlcs) + len(info.received_htlcs) > 0"], "initial-no-htlcs",
      "the initial commitment is accepted with HTLCs")
    N(["commit_num == 0", "ChannelSetup.is_outbound", "counterparty_value_sat > `(setup.push_value_msat / 1000)`"],
      "initial-funding-value", "an initial commitment giving the fundee more than push_value is accepted")
    # per-element bounds
    for lst, lim in (("offered_htlcs", "offered_htlc_dust_limit"), ("received_htlcs", "received_htlc_dust_limit")):
        R.element_scenario_refused(ctx, "R5.1", b, lambda s, l=lst: l in s and "info" in s,
                                   [f"HTLCInfo2.value_sat < {lim}"], f"{b.name}/htlc-dust/{lst}",
                                   f"an HTLC in {lst} below its dust/trim limit does not cause a refusal")
        R.iteration_must_pass(ctx, "R5.1", b, lambda s, l=lst: l in s and "info" in s,
                              lambda n: n == f"{SVT}::validate_expiry", "validate_expiry",
                              f"{b.name}/htlc-expiry/{lst}", f"an HTLC in {lst} is accepted without a successful expiry check")
    # dust limits: definitions
    fv = fnview(ctx, b).named()
    for nm, wfn in (("offered_htlc_dust_limit", "htlc_timeout_tx_weight"), ("received_htlc_dust_limit", "htlc_success_tx_weight")):
        e = _named_local(fv, nm)
        r = render(e[2]) if e and e[0] == "let" else (render(e) if e else "?")
        # multi-definition (if zero-fee {354} else {330 + feerate*weight/1000}): collect both definitions
        defs = _all_defs(fv, nm)
        txt = " | ".join(defs)
        import re as _re
        # MIN_DUST + (feerate * weight(..) / 1000), either factor order
        shape = _re.compile(r"^\(MIN_DUST_LIMIT_SATOSHIS \+ \(\((?:[\w\.]*feerate_per_kw \* [\w:]*" + wfn + r"\(.*\)|[\w:]*" + wfn +
                            r"\(.*\) \* [\w\.]*feerate_per_kw)\) / 1000\)\)$")
        ok = any(shape.match(d) for d in defs) and any(d == "MIN_CHAN_DUST_LIMIT_SATOSHIS" for d in defs)
        ctx.ob("R5.1", ok, f"{b.name}/dust-limit-formula/{nm}", f"{nm} is computed as {txt[:300]}",
               where=f"{b.file}:{b.line}", sample=txt[:200])
    # accumulator: both loops add the element's value with checked_add
    accs = []
    for bi in fv.live_blocks():
        for s in b.stmts(bi):
            if s.kind == "a" and s.place.is_local() and b.local_name(s.place.local) == "htlc_value_sat" and s.rv.ops:
                accs.append(render(fv0(ctx, b).expr(s.rv.ops[0])))
    adds = [a for a in accs if "value_sat" in a and "+" in a]
    ctx.ob("R5.1", len(adds) >= 2, f"{b.name}/inflight-accumulates-both", f"htlc_value_sat updates: {accs}",
           where=f"{b.file}:{b.line}", sample=adds)
    # fee: checked validate_fee(channel_value, sum_outputs, weight)
    fvp = fnview(ctx, b)
    R.must_pass_guard(ctx, "R5.1", b, R.success_blocks(fvp), lambda n: n == f"{SVT}::validate_fee", "validate_fee",
                      "Ok return of validate_commitment_tx", depth=0)
    for bi, ln, c in R.call_blocks(fvp, lambda n: n == f"{SVT}::validate_fee"):
        a_in = render(peel(fvp.expr(c.args[2])))
        a_out = render(peel(fvp.expr(c.args[3])))
        lin = atoms.linear(fvp.expr(c.args[3]))
        parts = sorted(str(k[0]) for k in lin[0])
        # outputs = to_broadcaster + to_countersigner + in-flight HTLC value, each with coefficient +1
        ok = a_in.endswith("setup.channel_value_sat") and lin[1] == 0 and len(lin[0]) == 3 and all(v == 1 for v in lin[0].values()) \
            and any(x.endswith("to_broadcaster_value_sat") for x in parts) and any(x.endswith("to_countersigner_value_sat") for x in parts)
        ctx.ob("R5.1", ok, f"{b.name}/fee-operands", f"validate_fee(inputs=`{a_in[:80]}`, outputs=`{a_out[:160]}`)",
               where=f"{b.file}:{ln}", sample={"inputs": a_in[:60], "outputs": a_out[:120]})
        e_out = fvp.expr(c.args[3])
        ctx.ob("R5.1", any(x[0] == "var" and x[1] == "htlc_value_sat" for x in subexprs(e_out)) or "htlc_value_sat" in a_out,
               f"{b.name}/fee-includes-htlcs", f"the fee computation ignores HTLC value: outputs=`{a_out[:160]}`",
               where=f"{b.file}:{ln}")
    # the weight the fee rate is computed from grows with every HTLC output: expected_commitment_tx_weight(anchors, n) is
    # base + n * per-HTLC weight, with n the whole HTLC count (no cap), and the caller passes offered + received
    wf = p.fn(LS + "util::transaction_utils::expected_commitment_tx_weight")
    ctx.touch(wf)
    wv = fnview(ctx, wf, policy=False)
    ret = wv.local_expr(0)
    lin = atoms.linear(ret)
    npar = wf.local_name(2)
    coeff = {str(k[0]): v for k, v in lin[0].items()}
    ok = coeff.get(npar, 0) >= 100 and lin[1] == 0 and len(coeff) == 2 and all(v in (1, coeff.get(npar)) for v in coeff.values())
    ctx.ob("R5.1", ok, f"{wf.name}/linear-in-htlc-count",
           f"expected_commitment_tx_weight is `{render(ret)[:160]}`: not base + count * per-HTLC weight over the whole HTLC count; an "
           "under-estimated weight over-states the fee rate, a commitment below the minimum fee rate is accepted",
           where=f"{wf.file}:{wf.line}", sample=f"base + {coeff.get(npar)} * {npar}")
    for bi, ln, c in R.call_blocks(fvp, lambda n: n == wf.name):
        ln_ = atoms.linear(fvp.expr(c.args[1]))
        parts = sorted(str(k[0]) for k in ln_[0])
        okc = ln_[1] == 0 and len(parts) == 2 and all(v == 1 for v in ln_[0].values()) and \
            any("offered_htlcs" in x and x.startswith("len(") for x in parts) and any("received_htlcs" in x and x.startswith("len(") for x in parts)
        ctx.ob("R5.1", okc, f"{b.name}/weight-counts-all-htlcs", f"the commitment weight is estimated for `{render(fvp.expr(c.args[1]))[:100]}` HTLCs "
               "(expected offered + received)", where=f"{b.file}:{ln}", sample="len(offered_htlcs) + len(received_htlcs)")
    # validate_fee
    vf = p.fn(f"{SVT}::validate_fee")
    R.named_scenario_refused(ctx, "R5.1", vf, ["feerate_perkw < SimplePolicy.min_feerate_per_kw"], f"{vf.name}/below-min",
                             "a fee rate below policy.min_feerate_per_kw is accepted")
    R.named_scenario_refused(ctx, "R5.1", vf, ["feerate_perkw > SimplePolicy.max_feerate_per_kw"], f"{vf.name}/above-max",
                             "a fee rate above policy.max_feerate_per_kw is accepted")
    vfn = fnview(ctx, vf).named()
    fee = _named_local(vfn, "fee")
    fr = render(fee[2]) if fee and fee[0] == "let" else "?"
    ctx.ob("R5.1", fr.replace(" ", "") in ("(sum_inputs-sum_outputs)?", "(sum_inputs-sum_outputs)"), f"{vf.name}/fee-is-difference",
           f"fee is computed as `{fr}` (expected checked sum_inputs - sum_outputs)", where=f"{vf.file}:{vf.line}", sample=fr)
    fre = _named_local(vfn, "feerate_perkw")
    frr = render(fre[2]) if fre and fre[0] == "let" else "?"
    ctx.ob("R5.1", "estimate_feerate_per_kw(fee" in frr and "weight" in frr, f"{vf.name}/feerate-formula",
           f"feerate is computed as `{frr}`", where=f"{vf.file}:{vf.line}", sample=frr[:100])
    # validate_expiry
    ve = p.fn(f"{SVT}::validate_expiry")
    maxcltv = const(ctx, LS + "policy::MAX_CLTV_EXPIRY")
    R.named_scenario_refused(ctx, "R5.1", ve, [f"expiry >= {maxcltv}"], f"{ve.name}/absolute-max", "an expiry >= MAX_CLTV_EXPIRY is accepted")
    R.named_scenario_refused(ctx, "R5.1", ve, ["SimplePolicy.use_chain_state", "expiry < current_height + SimplePolicy.min_delay"],
                             f"{ve.name}/too-early", "with chain state, an HTLC expiring before height + min_delay is accepted")
    R.named_scenario_refused(ctx, "R5.1", ve, ["SimplePolicy.use_chain_state", "expiry > current_height + SimplePolicy.max_delay"],
                             f"{ve.name}/too-late", "with chain state, an HTLC expiring after height + max_delay is accepted")
    # validate_delay
    vd = p.fn(f"{SVT}::validate_delay")
    R.named_scenario_refused(ctx, "R5.1", vd, ["delay < SimplePolicy.min_delay"], f"{vd.name}/too-small", "a contest delay below min_delay is accepted")
    R.named_scenario_refused(ctx, "R5.1", vd, ["delay > SimplePolicy.max_delay"], f"{vd.name}/too-large", "a contest delay above max_delay is accepted")
    # validate_setup_channel
    vs = p.fn(f"{SV}::validate_setup_channel")
    vsv = fnview(ctx, vs)
    delays = R.call_blocks(vsv, lambda n: n == f"{SVT}::validate_delay")
    got = sorted(render(peel(vsv.expr(c.args[2]))).rsplit(".", 1)[-1] for _, _, c in delays)
    ctx.ob("R5.1", got == ["counterparty_selected_contest_delay", "holder_selected_contest_delay"], f"{vs.name}/both-delays",
           f"validate_setup_channel validates delays {got} (expected both contest delays)", where=f"{vs.file}:{vs.line}", sample=got)
    R.must_pass_guard(ctx, "R5.1", vs, R.success_blocks(vsv), lambda n: n == f"{SVT}::validate_delay", "validate_delay",
                      "Ok return of validate_setup_channel", depth=0)
    de = set()
    for bi, ln, c in delays:
        es = vsv.result_edges(bi, c, "ok")
        ctx.ob("R5.1", bool(es), f"{vs.name}/delay-checked/{render(peel(vsv.expr(c.args[2]))).rsplit('.', 1)[-1]}",
               "result of validate_delay ignored", where=f"{vs.file}:{ln}")
        for sb, sl in R.success_blocks(vsv):
            ctx.ob("R5.1", vsv.must_pass(sb, es), f"{vs.name}/delay-required/{render(peel(vsv.expr(c.args[2]))).rsplit('.', 1)[-1]}",
                   "validate_setup_channel can succeed without this contest-delay check", where=f"{vs.file}:{ln}")
    # safe type: success must pass the true edge of SAFE_COMMITMENT_TYPE.contains(&setup.commitment_type)
    ce = set()
    nct = 0
    for bi, c in vs.calls():
        nm = c.callee.name if c.callee else ""
        if nm.endswith("::contains") and len(c.args) == 2:
            r0 = render(vsv.expr(c.args[0])) + "|" + render(vsv.expr(c.args[1]))
            if "commitment_type" in r0:
                nct += 1
                ce |= vsv.result_edges(bi, c, "ok")
    ok = nct >= 1 and bool(ce) and all(vsv.must_pass(sb, ce) for sb, _ in R.success_blocks(vsv))
    ctx.ob("R5.1", ok, f"{vs.name}/safe-type", "a channel with a commitment type outside SAFE_COMMITMENT_TYPE can be set up",
           where=f"{vs.file}:{vs.line}", sample="Ok dominated by SAFE_COMMITMENT_TYPE.contains(type)")
    # validate_channel_value
    vc = p.fn(f"{SV}::validate_channel_value")
    R.named_scenario_refused(ctx, "R5.1", vc, ["ChannelSetup.channel_value_sat > SimplePolicy.max_channel_size_sat"],
                             f"{vc.name}/max-size", "a channel above policy.max_channel_size_sat is accepted")


def fv0(ctx, b):
    return fnview(ctx, b).named()


def _named_local(fv, name):
    b = fv.b
    for l in range(len(b.local_tys)):
        if b.local_name(l) == name:
            return fv.local_expr(l)
    return None


def _all_defs(fv, name):
    b = fv.b
    out = []
    live = fv.live_blocks()
    for l0 in range(len(b.local_tys)):
        if b.local_name(l0) != name:
            continue
        # follow plain moves (`let x = helper(..)` after inlining: x = move tmp, tmp defined once per arm)
        l, seen = l0, set()
        while l not in seen:
            seen.add(l)
            ds = [d for d in fv.defs.get(l, []) if d[0] in live]
            if len(ds) == 1 and ds[0][1] != "T" and ds[0][2].kind == "a" and ds[0][2].rv.op == "use" and \
               ds[0][2].rv.ops[0].place is not None and ds[0][2].rv.ops[0].place.is_local() and \
               len([d for d in fv.defs.get(ds[0][2].rv.ops[0].place.local, []) if d[0] in live]) > 1:
                l = ds[0][2].rv.ops[0].place.local
                continue
            break
        for (bi, idx, obj) in fv.defs.get(l, []):
            if bi not in live:
                continue
            if idx == "T":
                out.append(render(fv._call_expr(obj, 0)))
            elif obj.kind == "a" and obj.rv.ops:
                v = fv.restricted({bi} | set())
                out.append(render(fv.expr(obj.rv.ops[0])) if obj.rv.op == "use" else render(_rv_expr(fv, obj)))
    return out


def _rv_expr(fv, s):
    # expression of an arbitrary assignment's right-hand side
    from engine.cfg import BINOPS
    rv = s.rv
    if rv.op == "bin" and rv.a in BINOPS:
        return (BINOPS[rv.a], fv.expr(rv.ops[0]), fv.expr(rv.ops[1]))
    if rv.ops:
        return fv.expr(rv.ops[0])
    return ("opaque", repr(rv))


def r52(ctx):
    ctx.rule("R5.2", "the common bounds are on every acceptance path: validate_*_commitment_tx pass Ok(validate_commitment_tx); "
                     "setup_channel installs the channel only after Ok(validate_setup_channel)")
    p = ctx.prog
    for m in ("validate_counterparty_commitment_tx", "validate_holder_commitment_tx"):
        b = p.fn(f"{SV}::{m}")
        fv = fnview(ctx, b)
        R.must_pass_guard(ctx, "R5.2", b, R.success_blocks(fv), lambda n: n == f"{SVT}::validate_commitment_tx",
                          "validate_commitment_tx", f"Ok return of {m}", depth=0)
        for bi, ln, c in R.call_blocks(fv, lambda n: n == f"{SVT}::validate_commitment_tx"):
            got = [render(peel(fv.expr(a))) for a in c.args[1:]]
            want = [b.local_name(i) for i in range(2, b.argc + 1)]
            ctx.ob("R5.2", got == want, f"{b.name}/common-args", f"{m} calls validate_commitment_tx with {got} (parameters {want})",
                   where=f"{b.file}:{ln}", sample=got)
    # Node::setup_channel
    sb = p.fn(LS + "node::Node::setup_channel")
    sv = fnview(ctx, sb)
    ins = []
    for bi, c in sb.calls():
        nm = c.callee.name if c.callee else ""
        if nm.endswith("::insert") and "BTreeMap" in nm:
            ins.append((bi, c.line))
    ctx.floor("R5.2", "channel-map insert in setup_channel", len(ins), 1)
    R.must_pass_guard(ctx, "R5.2", sb, ins, lambda n: n == f"{VAL}::validate_setup_channel", "Validator::validate_setup_channel",
                      "insertion of the ready channel", depth=0)
    R.must_pass_guard(ctx, "R5.2", sb, [(x, l) for x, l in R.success_blocks(sv)
                                        if not _is_existing_channel_return(sv, x)],
                      lambda n: n == f"{VAL}::validate_setup_channel", "Validator::validate_setup_channel",
                      "Ok(new channel) return", depth=0)
    # holder entry points reach the validator (C01 R1.6 covers the store); counterparty entry points: C03 R3.2
    # "no counterparty commitment is signed for a channel above the maximum size": both counterparty signing entry points
    # reach the LDK signing call and every Ok return only after Ok(validate_channel_value), which refuses value > max
    CHN = LS + "channel::Channel"
    is_sign = lambda n: n.endswith("::sign_counterparty_commitment")
    for fn in ("sign_counterparty_commitment_tx", "sign_counterparty_commitment_tx_phase2"):
        eb = p.fn(f"{CHN}::{fn}")
        ev = fnview(ctx, eb)
        sinks = [(bi, ln) for bi, ln, c in R.call_blocks_deep(ctx, ev, is_sign)] + R.success_blocks(ev)
        ctx.floor("R5.2", f"signing call / Ok returns in {fn}", len(sinks), 2)
        R.must_pass_guard(ctx, "R5.2", eb, sinks, lambda n: n == f"{VAL}::validate_channel_value", "Validator::validate_channel_value",
                          "counterparty signature / Ok return", depth=0)
    vb = p.fn(f"{SV}::validate_channel_value")
    R.named_scenario_refused(ctx, "R5.2", vb, ["ChannelSetup.channel_value_sat > SimplePolicy.max_channel_size_sat"],
                             f"{vb.name}/max-size", "validate_channel_value accepts a channel above max_channel_size_sat")


def _is_existing_channel_return(fv, blk):
    # `return Ok(c.clone())` for an already-ready channel with identical setup (no new state)
    for r in fv.return_sites():
        if r["block"] == blk and "stmt" in r:
            e = render(fv.expr(r["stmt"].rv.ops[0])) if r["stmt"].rv.ops else ""
            return "as Ready" in e or "Ready" in e
    return False


def r53(ctx):
    ctx.rule("R5.3", "OnchainValidator: funding buried and unspent before any commitment beyond the initial one; all "
                     "other methods delegate to inner with their own arguments")
    p = ctx.prog
    eb = p.fn(f"{OVT}::ensure_funding_buried_and_unspent")
    R.named_scenario_refused(ctx, "R5.3", eb, ["commit_num > 0", "ChainState.funding_depth < min_funding_depth"],
                             f"{eb.name}/unburied", "a commitment beyond the initial one is accepted while funding is not buried")
    R.named_scenario_refused(ctx, "R5.3", eb, ["commit_num > 0", "ChainState.closing_depth > 0"],
                             f"{eb.name}/closed-onchain", "a commitment beyond the initial one is accepted after a close was seen on chain")
    # the depths the guard reads are 1 for an event in the tip block: ChainMonitorBase::as_chain_state computes every depth
    # as height + 1 - event_height (0 only when the event was not seen), and closing_depth covers both kinds of close
    ab = p.fn(LS + "monitor::ChainMonitorBase::as_chain_state")
    av = fnview(ctx, ab, policy=False)
    nlit = 0
    for bb, bi, si, st in R.constructions(p, LS + "policy::validator::ChainState"):
        if bb is not ab:
            continue
        nlit += 1
        vals = dict(zip(st.rv.a[3], st.rv.ops))
        for fld, srcs in (("funding_depth", ["funding_height"]), ("funding_double_spent_depth", ["funding_double_spent_height"]),
                          ("closing_depth", ["mutual_closing_height", "unilateral_closing_height"])):
            e = av.expr(vals[fld])
            got = sorted({x[3] for x in subexprs(e) if x[0] == "field" and x[2].endswith("monitor::State") and x[3].endswith("_height")})
            ctx.ob("R5.3", got == sorted(srcs), f"{ab.name}/{fld}/source", f"{fld} is derived from {got} (expected {srcs})",
                   where=f"{ab.file}:{st.line}", sample=f"{fld} <- {srcs}")
            df = _depth_form(ctx, ab, av, e, None, 0)
            okf = df is not None and render(df[0]).endswith(".height") and \
                sorted({x[3] for x in subexprs(df[1]) if x[0] == "field" and x[3].endswith("_height")}) == sorted(srcs)
            ctx.ob("R5.3", okf, f"{ab.name}/{fld}/formula",
                   f"{fld} is computed as `{render(e)[:160]}`, which is not one of the accepted forms of height + 1 - event height "
                   f"(0 when unseen) over {srcs}: an event in the tip block would have "
                   f"depth 0 and the on-chain guard (`closing_depth > 0`, `funding_depth < min`) misses it for one block",
                   where=f"{ab.file}:{st.line}", sample="height + 1 - h")
    ctx.floor("R5.3", "ChainState literal in as_chain_state", nlit, 1)
    guard = lambda n: n == f"{OVT}::ensure_funding_buried_and_unspent"
    cb = p.fn(f"{OV}::validate_counterparty_commitment_tx")
    cv = fnview(ctx, cb)
    R.must_pass_guard(ctx, "R5.3", cb, R.success_blocks(cv), guard, "ensure_funding_buried_and_unspent",
                      "Ok of OnchainValidator::validate_counterparty_commitment_tx", depth=0)
    hb = p.fn(f"{OV}::validate_holder_commitment_tx")
    hv = fnview(ctx, hb)
    # a NEW holder commitment (next_holder_commit_num <= commit_num) must pass the guard
    ge = R.guard_edges(ctx, hv, guard, 0)
    assum = [atoms.parse_atom("EnforcementState.next_holder_commit_num <= commit_num")]
    cut = atoms.scenario_cut(hv, assum)
    live = hv.reach(0, cut_edges=cut | ge)
    bad = [s for s in R.success_blocks(hv) if s[0] in live]
    ctx.ob("R5.3", bool(ge) and bool(cut) and not bad, f"{hb.name}/new-commitment-needs-burial-check",
           "OnchainValidator::validate_holder_commitment_tx can accept a new holder commitment "
           "(next_holder_commit_num <= commit_num) without ensure_funding_buried_and_unspent",
           where=f"{hb.file}:{hb.line}", detail={"edges_cut": len(cut)},
           sample="scenario next_holder_commit_num <= commit_num: Ok dominated by ensure_funding_buried_and_unspent")
    for b in (cb, hb):
        v = fnview(ctx, b)
        for bi, ln, c in R.call_blocks(v, guard):
            got = [render(peel(v.expr(a))) for a in c.args[1:]]
            ctx.ob("R5.3", got == ["commit_num", "cstate"], f"{b.name}/burial-args",
                   f"ensure_funding_buried_and_unspent called with {got}", where=f"{b.file}:{ln}", sample=got)
    # delegation agreement
    n = 0
    for im in p.impls:
        if im["trait"] is None or im["trait"].name != VAL or im["self"] != OVT:
            continue
        for it in im["items"]:
            if it["kind"] != "AssocFn" or it["d"].id not in p.bodies:
                continue
            b = p.bodies[it["d"].id]
            m = it["name"]
            if m in ("policy", "is_ready", "enforce_balance", "minimum_initial_balance"):
                continue
            v = fnview(ctx, b)
            calls = [(bi, c) for bi, c in b.calls() if c.decl is not None and c.decl.name == f"{VAL}::{m}"]
            n += 1
            ok = len(calls) == 1
            if ok:
                c = calls[0][1]
                recv = render(peel(v.expr(c.args[0])))
                got = [render(peel(v.expr(a))) for a in c.args[1:]]
                want = [b.local_name(i) for i in range(2, b.argc + 1)]
                ok = got == want and ".inner" in recv
                # the delegate's result is the function's result
                tail = any(r.get("call") is c for r in v.return_sites()) or bool(v.result_edges(calls[0][0], c, "ok"))
                ok = ok and tail
            ctx.ob("R5.3", ok, f"{b.name}/delegates", f"OnchainValidator::{m} does not simply delegate to inner.{m} with its own arguments",
                   where=f"{b.file}:{b.line}", sample=f"inner.{m}(same args)")
    ctx.floor("R5.3", "delegating OnchainValidator methods", n, 15)


def r54(ctx, rid="R5.4"):
    ctx.rule(rid, "policy filter: unmatched tags are errors; policy_error returns Err unless the filter says Warn")
    p = ctx.prog
    fb = p.fn(LS + "policy::filter::PolicyFilter::filter")
    fv = fnview(ctx, fb)
    # first matching rule decides, default Error.  Accepted spellings: a `for` loop over the rules that returns the matched
    # rule's action, or Iterator::find / find_map / position over the rules (all "first match") with the action mapped out and
    # Error as the default.
    ls = R.loops_over(fv, lambda s: "rules" in s)
    finds = [(bi, c) for bi, c in fb.calls() if c.callee and c.callee.name.rsplit("::", 1)[-1] in ("find", "find_map", "position")
             and "rules" in render(fv.expr(c.args[0]))]
    ctx.ob(rid, len(ls) == 1 or len(finds) == 1, f"{fb.name}/loop",
           "PolicyFilter::filter no longer walks its rules in order up to the first match (a `for` loop with an early return, or "
           "find / find_map / position): a later or broader rule can override an earlier, more specific one",
           where=f"{fb.file}:{fb.line}")
    # what is returned on a match is the matched rule's own action (a value read from a FilterRule's `action` field)
    from engine.cfg import subexprs as _sub
    def _from_action(e):
        return any(x[0] == "field" and x[3] == "action" for x in _sub(e))
    acts = []
    for r in fv.return_sites():
        e = None
        if "stmt" in r and r["stmt"].rv.ops:
            e = fv.expr(r["stmt"].rv.ops[0])
        elif "call" in r:
            e = fv._call_expr(r["call"], 0)
        if e is not None and (_from_action(e) or any(_from_action(fv.expr(a)) for a in (r["call"].args if "call" in r else []))):
            acts.append(r)
    in_closure = False
    for cb_ in p.closures_of(fb):
        cv_ = fnview(ctx, cb_)
        for r in cv_.return_sites():
            if "stmt" in r and r["stmt"].rv.ops and _from_action(cv_.expr(r["stmt"].rv.ops[0])):
                in_closure = True
    ctx.ob(rid, bool(acts) or in_closure, f"{fb.name}/returns-matched-action",
           "PolicyFilter::filter does not return the matched rule's own action: an Error rule that pins a tag to enforcement is "
           "ignored (or a Warn rule is), so a policy the operator kept mandatory is only logged",
           where=f"{fb.file}:{fb.line}", sample="return rule.action on the first match")
    for h, c, be, ee in ls:
        after_exit = set()
        for (u, v) in ee:
            after_exit |= fv.reach(v)
        rets = [r for r in fv.return_sites() if r["block"] in after_exit]
        vals = set()
        for r in rets:
            if "stmt" in r and r["stmt"].rv.ops:
                vals.add(render(fv.expr(r["stmt"].rv.ops[0])))
            else:
                vals.add(r["how"])
        ctx.ob(rid, any("Error" in v for v in vals), f"{fb.name}/default-error",
               f"PolicyFilter::filter falls through to {sorted(vals)} for an unmatched tag (expected FilterResult::Error)",
               where=f"{fb.file}:{fb.line}", sample=sorted(vals))
    if not ls:
        txt = " ".join(render(fv.expr(a)) for bi, c in fb.calls() for a in c.args) + " ".join(r["how"] for r in fv.return_sites())
        ctx.ob(rid, "Error" in txt, f"{fb.name}/default-error",
               "PolicyFilter::filter has no FilterResult::Error default for an unmatched tag", where=f"{fb.file}:{fb.line}")
    # make_policy_error_with_filter: Ok only when filter(..) != Error
    mb = p.fn(LS + "policy::make_policy_error_with_filter")
    mv = fnview(ctx, mb)
    sites = R.comparison_sites(mv, lambda a, c: "filter(" in a and "Error" in c)
    ctx.ob(rid, len(sites) == 1, f"{mb.name}/comparison", "make_policy_error_with_filter no longer compares the filter result with Error",
           where=f"{mb.file}:{mb.line}")
    for bi, c, is_ne, r0, r1 in sites:
        equal_edges = mv.result_edges(bi, c, "err" if is_ne else "ok")   # filter == Error
        after = set()
        for (u, v) in equal_edges:
            after |= mv.reach(v)
        oks = [r for r in mv.return_sites() if r["block"] in after and r["kind"] == "ok"]
        # Ok must not be returned on the filter==Error edge (unless also reachable otherwise: check exclusive)
        other = mv.result_edges(bi, c, "ok" if is_ne else "err")
        live_if_error = mv.reach(0, cut_edges=other)
        bad = [r for r in mv.return_sites() if r["kind"] == "ok" and R.site_block(r) in live_if_error]
        ctx.ob(rid, not bad, f"{mb.name}/error-means-err", "policy errors can be downgraded although the filter says Error",
               where=f"{mb.file}:{c.line}", sample="filter == Error  =>  Err(policy_error)")
    # the default filter has no rules
    db = p.fn(f"<{LS}policy::filter::PolicyFilter as std::default::Default>::default")
    dv = fnview(ctx, db)
    txt = " ".join(render(dv.expr(s.rv.ops[0])) if s.rv.ops else repr(s.rv) for bi in dv.live_blocks() for s in db.stmts(bi) if s.kind == "a")
    calls = [c.callee.name for bi, c in db.calls() if c.callee]
    ctx.ob(rid, all("Vec" in n and "new" in n or "vec" in n.lower() for n in calls) and "FilterRule" not in txt,
           f"{db.name}/empty", f"PolicyFilter::default is not empty: calls {calls}", where=f"{db.file}:{db.line}", sample=calls)


def r55(ctx):
    ctx.rule("R5.5", "policy bounds are compared on untruncated values: no value-narrowing integer cast (x as u32 with x: u64) "
                     "in the derivation of a quantity compared with a SimplePolicy field (callee return values included)")
    p = ctx.prog
    n = 0
    for b in sorted(p.bodies.values(), key=lambda x: x.name):
        if b.d.krate != "lightning_signer" or not b.file or "/policy/" not in "/" + b.file:
            continue
        on = R.owner_name(p, b)
        if R.is_test_util(on) or "validate_beneficial_value" in on or "validate_onchain_tx" in on:
            continue    # on-chain spends: C08 R8.5
        n += R.bound_comparisons_untruncated(ctx, "R5.5", b, lambda s: "SimplePolicy." in s or "policy." in s, b.name)
    ctx.floor("R5.5", "integer comparisons with a policy bound", n, 10)


# ------------------------------------------------------------------ depth idioms
def _plus_one(e):
    """H + 1 -> H"""
    e = strip_ref(e)
    if e[0] == "ovf":
        e = e[1]
    if e[0] == "+" and strip_ref(e[2]) == ("int", 1):
        return strip_ref(e[1])
    if e[0] == "+" and strip_ref(e[1]) == ("int", 1):
        return strip_ref(e[2])
    return None


def _depth_form(ctx, body, fv, e, env, depth):
    """canonical form of a depth computation: returns (H, source option expression) when `e` is one of the accepted
    idioms of `source.map(|h| H + 1 - h).unwrap_or(0)`:
      A  Option::unwrap_or(Option::map(src, |h| (H + 1) - h), 0)
      B  (H + 1) -sat Option::unwrap_or(src, H + 1)                      (plain `-` accepted too)
      C  a call of a function of this crate whose returned expression has form A or B over its own parameters"""
    p = ctx.prog
    e = strip_ref(e)
    if depth > 3:
        return None
    if e[0] == "call" and e[1].endswith("Option::<T>::unwrap_or") and len(e[2]) == 2 and strip_ref(e[2][1]) == ("int", 0):
        m = strip_ref(e[2][0])
        if m[0] == "call" and m[1].endswith("Option::<T>::map") and len(m[2]) == 2 and m[2][1][0] == "closure":
            src, clo = m[2][0], m[2][1]
            cds = [d for d in p.by_name.get(clo[1], []) if d.id in p.bodies]
            if len(cds) != 1:
                return None
            cb = p.bodies[cds[0].id]
            cv = fnview(ctx, cb, policy=False)
            cenv = R.closure_env(ctx, body, cds[0])
            r = strip_ref(R.subst_captures(cv.local_expr(0), cenv))
            if r[0] == "ovf":
                r = r[1]
            if r[0] in ("-", "sat-"):
                H = _plus_one(r[1])
                h = strip_ref(r[2])
                if H is not None and h[0] == "param":
                    if env:
                        H = R.subst_captures(H, env)
                    return H, src
        return None
    if e[0] in ("-", "sat-"):
        H = _plus_one(e[1])
        u = strip_ref(e[2])
        if H is not None and u[0] == "call" and u[1].endswith("Option::<T>::unwrap_or") and len(u[2]) == 2 \
           and _plus_one(u[2][1]) == H:
            return H, u[2][0]
        return None
    if e[0] == "call" and len([d for d in p.by_name.get(e[1], []) if d.id in p.bodies]) == 1:
        cal = p.bodies[[d for d in p.by_name.get(e[1], []) if d.id in p.bodies][0].id]
        if cal.d.krate != body.d.krate or R.is_test_util(cal.name):
            return None
        cv = fnview(ctx, cal, policy=False)
        inner = _depth_form(ctx, cal, cv, cv.local_expr(0), None, depth + 1)
        if inner is None:
            return None
        # substitute the callee's parameters by the actual arguments
        sub = {}
        for i, a in enumerate(e[2]):
            nm = cal.local_name(i + 1)
            if nm:
                sub[nm] = strip_ref(a)

        def subst(x):
            if isinstance(x, tuple):
                if x and x[0] == "param" and x[1] in sub:
                    return sub[x[1]]
                return tuple(subst(y) for y in x)
            return x
        return subst(inner[0]), subst(inner[1])
    return None


def r_content(ctx):
    """the HTLC bounds of C05 (dust, count, in-flight value, expiry) are evaluated on the HTLC lists of the CommitmentInfo2; an HTLC dropped while that value is built escapes all of them"""
    from rules import C04 as _c04
    ctx.rule("R5.6", "the commitment content that is validated and recorded is the content the caller supplied: the info "
                    "builders forward balances, both HTLC lists and the feerate unmodified and CommitmentInfo2::new only sorts "
                    "(same obligations as the first part of C04 R4.3)")
    _c04.content_passthrough(ctx, rid="R5.6")


def r_restore(ctx):
    from rules import C11 as _c11
    _c11.shared_restore(ctx, "R5.7", "the contest delays, commitment type and channel value that validate_setup_channel accepted, and the monitors' chain state the on-chain validator consults, are what a restarted signer enforces with.")

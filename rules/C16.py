"""C16 — the key-version-value stores never roll back and agree with each other."""
from engine import rulelib as R
from engine import atoms
from engine.rulelib import fnview
from engine.cfg import render, strip_ref, peel, subexprs

CRATES = ["vls_persist", "lightning_signer"]
VP = "vls_persist::kvv::"
BACKENDS = {
    "memory": f"<{VP}memory::MemoryKVVStore as {VP}KVVStore>",
    "redb": f"<{VP}redb::RedbKVVStore as {VP}KVVStore>",
    "cloud": f"<{VP}cloud::CloudKVVStore<L> as {VP}KVVStore>",
}

CLAIM = {
    "text": "Decides structural conditions necessary for monotone versions and backend agreement: (R16.1) in each of the "
            "three put_with_version implementations the store write (map insert / table insert / commit-log insert) is "
            "unreachable when version < existing and when version == existing, success is unreachable when version < "
            "existing or when the version is equal and the stored value differs, and all three compare the same "
            "quantities (sibling agreement); put derives version = existing + 1 (else 0) and delete is put of an empty "
            "value in all three; (R16.2) batches are all-or-nothing: the in-memory put_batch performs no insert on any "
            "path that can still fail and refuses stale/conflicting elements in its validation loop; the on-disk "
            "put_batch commits only when no mismatch was found, aborts otherwise, marks a mismatch for every stale or "
            "conflicting element, compares each element's version directly with the pre-batch version cache, and "
            "updates the version cache only after commit; validation reads must not be reachable from a write of the "
            "same structure inside the batch (the disk store's table read is: known finding); (R16.3) the cloud-staged store "
            "reads its own writes (get / get_version consult the commit log before the local store), prepare reports "
            "the commit log, commit applies exactly the log through local.put_batch and nothing else writes the local "
            "store inside a transaction; (R16.4) the on-disk store rebuilds its version cache from every table entry "
            "at open (no entry, tombstones included, is skipped) and get_version answers from that cache; (R16.5) the "
            "second batch entry point put_batch_unlogged (trait default, cloud override, persister wrapper) hands the "
            "caller's whole batch, element for element, to one put_batch and writes no key on its own. Does not "
            "decide agreement over arbitrary request sequences nor reopen equality of contents. (R16.6) reopen clause, necessary part: the on-disk store commits every write transaction with immediate durability (same obligation as C11 R11.6), so what a put acknowledged is what a reopen after a crash finds.",
    "note": "redb transaction semantics (commit/abort) trusted by name; MemoryKVVStore BTreeMap semantics",
    "technique": "static analysis: sibling agreement of guard scenarios across implementations + failure atomicity + loop must-pass",
}


def run(ctx):
    ctx.explanation = CLAIM["text"]
    ctx.not_decided = "backend agreement over arbitrary request sequences; reopen equality of stored contents"
    r161(ctx)
    r162(ctx)
    r163(ctx)
    r164(ctx)
    r165(ctx)
    r166(ctx)


def _next_version_shape(fv, operand, e):
    """accepted spellings of `existing version + 1, else 0`: x.map(f).unwrap_or(0), x.map_or(0, f), and a match /
    if-let with the two arms (the +1 of the closure / arm is checked by the caller or here)"""
    e = strip_ref(e)
    if e[0] == "call" and e[1].endswith("Option::<T>::unwrap_or") and len(e[2]) == 2 and strip_ref(e[2][1]) == ("int", 0):
        m = strip_ref(e[2][0])
        return m[0] == "call" and m[1].endswith("Option::<T>::map") and m[2][1][0] == "closure"
    if e[0] == "call" and e[1].endswith("Option::<T>::map_or") and len(e[2]) == 3:
        return strip_ref(e[2][1]) == ("int", 0) and e[2][2][0] == "closure"
    root, defs, sw = R.conditional_defs(fv, operand)
    if len(defs) == 2 and len(sw) == 1 and sw[0][1][0] == "discr":
        vals = [ops[0] if ops else None for _, ops in defs]
        zero = [v for v in vals if v is not None and strip_ref(v) == ("int", 0)]
        plus = [v for v in vals if v is not None and atoms.linear(v)[1] == 1 and len(atoms.linear(v)[0]) == 1]
        return len(zero) == 1 and len(plus) == 1
    return False


def _store_writes(fv, b, backend):
    out = []
    nv = fv.named()
    for bi, c in b.calls():
        nm = c.callee.name if c.callee else ""
        if not nm.endswith("::insert") or not c.args:
            continue
        recv = render(strip_ref(nv.expr(c.args[0])))
        if backend == "memory" and ("data" in recv):
            out.append((bi, c.line, c))
        elif backend == "redb" and "Table" in nm:
            out.append((bi, c.line, c))
        elif backend == "cloud" and "commit_log" in recv:
            out.append((bi, c.line, c))
    return out


def _existing_symbol(fv, with_block=False):
    """the quantity `version` is compared with: the other symbol of the first `version <op> X` branch
    (and the block of that comparison: the stored version exists from there on)"""
    b = fv.b
    for bi in sorted(fv.live_blocks()):
        if b.term(bi).kind != "switch":
            continue
        for tg, a in atoms.edge_atoms(fv, bi):
            if a is None or a[0] not in ("le", "eq", "ne") or len(a[1]) != 2:
                continue
            syms = [s for s, c in a[1]]
            names = [s[0] for s in syms]
            if "version" in names or any(n.endswith(".version") or n == "version" for n in names):
                other = [s for s in syms if not (s[0] == "version" or s[0].endswith(".version"))]
                if other:
                    return (other[0], bi) if with_block else other[0]
    return (None, None) if with_block else None


def _scen(fv, op, other):
    """atom `version op other` over program symbols"""
    l = ("specsym", "version")
    r = ("specsym", other[0])
    return atoms.cmp_atom(op, l, r)


def r161(ctx):
    ctx.rule("R16.1", "put_with_version: no write and no success for stale versions; same version needs same value; siblings agree")
    p = ctx.prog
    summaries = {}
    for be, pref in BACKENDS.items():
        b = p.fn(f"{pref}::put_with_version")
        fv = fnview(ctx, b, policy=False)
        nv = fv.named()
        W = _store_writes(fv, b, be)
        ctx.ob("R16.1", len(W) >= 1, f"{be}/put_with_version/write-site", f"{be}: store write not found", where=f"{b.file}:{b.line}")
        X, xb = _existing_symbol(nv, with_block=True)
        ctx.ob("R16.1", X is not None, f"{be}/put_with_version/version-compared", f"{be}: version is not compared with the stored version",
               where=f"{b.file}:{b.line}", sample=f"version compared with `{X[0] if X else None}`")
        if X is None or not W:
            continue
        sinks = [(bi, ln) for bi, ln, c in W]
        succ = R.success_blocks(fv)
        res = {}
        for op, nm in (("<", "stale"), ("==", "same-version")):
            assum = [_scen(nv, op, X)]
            cut = atoms.scenario_cut(nv, assum)
            # the scenario speaks about an existing entry: only paths through the comparison matter
            live = fv.reach(xb, cut_edges=cut)
            badw = [s for s in sinks if s[0] in live]
            res[nm] = (bool(cut), not badw)
            ctx.ob("R16.1", bool(cut) and not badw, f"{be}/put_with_version/{nm}/no-write",
                   f"{be} put_with_version can write the store when version {op} stored version "
                   f"({'rollback' if op == '<' else 'overwrite at the same version'})", where=f"{b.file}:{badw[0][1] if badw else b.line}",
                   sample=f"version {op} {X[0]}: write unreachable")
            if op == "<":
                bads = [s for s in succ if s[0] in live]
                ctx.ob("R16.1", not bads, f"{be}/put_with_version/stale/refused", f"{be} put_with_version returns Ok for a stale version",
                       where=f"{b.file}:{b.line}", sample="version < stored: Ok unreachable")
        # equal version + different value => error
        sites = R.eq_sites(fv, lambda a, c: ("value" in a or a == "vv" or a.endswith(".1") or "val" in a) and
                           ("existing" in c or "val" in c or "value(" in c))
        ctx.ob("R16.1", len(sites) >= 1, f"{be}/put_with_version/value-comparison", f"{be}: stored value is not compared at equal version",
               where=f"{b.file}:{b.line}", sample=f"{len(sites)} comparison(s)")
        for bi, line, eqe, dife, r0, r1 in sites:
            bad = [s for s in succ if any(s[0] in fv.reach(v, cut_edges=eqe) for (_, v) in dife)]
            ctx.ob("R16.1", bool(dife) and not bad, f"{be}/put_with_version/same-version/conflict-refused",
                   f"{be} put_with_version accepts different content at the current version", where=f"{b.file}:{line}",
                   sample=f"{r0[:40]} != {r1[:40]} -> Err")
        # what is written
        for bi, ln, c in W:
            a = [render(strip_ref(nv.expr(x))) for x in c.args[1:]]
            full = " ".join(render(strip_ref(fv.expr(x))) for x in c.args[1:])     # through any intermediate `let`
            ok = "key" in a[0] and ("version" in " ".join(a) or "vv" in " ".join(a) or "version" in full)
            ctx.ob("R16.1", ok, f"{be}/put_with_version/write-operands", f"{be} writes {a}", where=f"{b.file}:{ln}", sample=[x[:40] for x in a])
        summaries[be] = res
        # put: version = existing + 1 or 0 ; delete = put(key, empty)
        pb = p.fn(f"{pref}::put")
        pv = fnview(ctx, pb, policy=False).named()
        calls = [(bi, c) for bi, c in pb.calls() if c.callee and c.callee.name.endswith("::put_with_version")]
        ctx.ob("R16.1", len(calls) == 1, f"{be}/put/delegates", f"{be} put calls put_with_version {len(calls)} times", where=f"{pb.file}:{pb.line}")
        for bi, c in calls:
            e_ = pv.expr(c.args[2])
            ve = render(e_[2]) if e_[0] == "let" else render(e_)
            ok = _next_version_shape(pv, c.args[2], e_[2] if e_[0] == "let" else e_)
            # closure adds one
            add1 = False
            for cb in p.closures_of(pb):
                cvv = fnview(ctx, cb, policy=False)
                for r in cvv.return_sites():
                    ex = None
                    if "stmt" in r and r["stmt"].rv.ops:
                        ex = cvv.expr(r["stmt"].rv.ops[0])
                    elif "call" in r:
                        ex = cvv._call_expr(r["call"], 0)
                    if ex is not None:
                        lin = atoms.linear(ex)
                        if lin[1] == 1 and len(lin[0]) == 1:
                            add1 = True
            ctx.ob("R16.1", ok and (add1 or not list(p.closures_of(pb))), f"{be}/put/next-version", f"{be} put computes version `{ve[:120]}` (closure +1: {add1})",
                   where=f"{pb.file}:{c.line}", sample="existing.map(|v| v + 1).unwrap_or(0)")
        db = p.fn(f"{pref}::delete")
        dv = fnview(ctx, db, policy=False)
        dc = [(bi, c) for bi, c in db.calls() if c.callee and c.callee.name.endswith("::put")]
        ok = len(dc) == 1 and "Vec::<T>::new()" in render(dv.expr(dc[0][1].args[2]))
        ctx.ob("R16.1", ok, f"{be}/delete/is-empty-put", f"{be} delete is not put(key, empty)", where=f"{db.file}:{db.line}", sample="delete = put(key, vec![])")
        # ... on every path: a delete is always recorded as a new version (all backends alike), never skipped
        dvp = fnview(ctx, db)
        R.must_pass_guard(ctx, "R16.1", db, R.success_blocks(dvp), lambda n: n.endswith("::put") and "KVVStore" in n,
                          "put(key, empty)", "Ok return of delete", depth=0)
    ctx.ob("R16.1", len(set(map(str, summaries.values()))) == 1 and len(summaries) == 3, "siblings/put_with_version",
           f"the three backends do not enforce the same version rules: {summaries}", where="vls-persist/src/kvv", sample=summaries)


def _batch_compare_sources(ctx, b, store_field, owner):
    """in a put_batch: every comparison of an element's version is against the version the store held *before the
    batch*: the other operand is directly the result of `<map>.get(element key)` on the store's own map (field
    `store_field` of `owner`), not a value staged earlier in the same batch or any other combination"""
    fv = fnview(ctx, b, policy=False)
    n = 0
    for bi in sorted(fv.live_blocks()):
        for s_ in b.stmts(bi):
            if s_.kind != "a" or s_.rv.op != "bin" or s_.rv.a not in ("Lt", "Le", "Gt", "Ge", "Eq", "Ne"):
                continue
            l, r = fv.expr(s_.rv.ops[0]), fv.expr(s_.rv.ops[1])
            for elem, other in ((l, r), (r, l)):
                re_ = render(elem)
                if "Iterator>::next(" not in re_ or not (re_.endswith(".1.0") or re_.endswith(".1).0") or "().0" in re_ or re_.endswith(".0")):
                    continue
                if "Iterator>::next(" in render(other) and "::get(" not in render(other):
                    continue
                if "::get(" not in render(other) and "version" not in render(other).lower():
                    continue
                n += 1
                o = strip_ref(other)
                while o[0] in ("payload", "let") or (o[0] == "field" and o[2] == "()"):
                    o = strip_ref(o[1] if o[0] != "let" else o[2])
                direct = o[0] == "call" and (o[1].endswith("BTreeMap::<K, V, A>::get") or o[1].endswith("::get")) and \
                    any(x[0] == "field" and x[2].endswith(owner) and x[3] == store_field for x in subexprs(o[2][0]))
                ctx.ob("R16.2", direct, f"{b.name}/compares-with-stored-version",
                       f"`{b.name}` compares an element's version with `{render(other)[:160]}`: not directly the version the store "
                       f"held before the batch (`self.{store_field}.get(key)`); the backends then disagree on batches that repeat a key",
                       where=f"{b.file}:{s_.line}", sample=f"version vs self.{store_field}.get(key)")
    return n


def r162(ctx):
    ctx.rule("R16.2", "put_batch is all-or-nothing in the memory and disk stores")
    p = ctx.prog
    nb = _batch_compare_sources(ctx, p.fn(f"{BACKENDS['redb']}::put_batch"), "versions", "redb::RedbKVVStore")
    ctx.floor("R16.2", "version comparisons in the disk put_batch", nb, 2)
    # validation reads see the store as it was before the batch: no read of a structure is reachable from a write of
    # the same structure inside the batch (the memory store validates everything first, then writes)
    nread = 0
    for be in ("memory", "redb"):
        bb = p.fn(f"{BACKENDS[be]}::put_batch")
        bv = fnview(ctx, bb, policy=False)

        def structure(c):
            nm = c.callee.name if c.callee else ""
            if "redb::Table" in nm:
                return "table"
            if "BTreeMap" in nm and c.args:
                f_ = [x[3] for x in subexprs(bv.expr(c.args[0])) if x[0] == "field" and ("KVVStore" in x[2])]
                return f_[0] if f_ else None
            return None
        reads = [(bi, c, structure(c)) for bi, c in bb.calls() if c.callee and c.callee.name.endswith("::get") and structure(c)]
        writes = [(bi, c, structure(c)) for bi, c in bb.calls() if c.callee and c.callee.name.endswith("::insert") and structure(c)]
        for rbi, rc, st in reads:
            nread += 1
            late = [wc.line for wbi, wc, st2 in writes if st2 == st and any(rbi in bv.reach(t) for t in bb.term(wbi).targets[:1])]
            ctx.ob("R16.2", not late, f"{bb.name}/validation-reads-prebatch/{st}",
                   f"`{bb.name}` reads `{st}` (line {rc.line}) to validate an element after an earlier element of the same batch may "
                   f"already have been written to it (line {late[0] if late else 0}): the check then runs against staged data, while "
                   f"the in-memory store validates against the pre-batch state - the backends disagree on batches that repeat a key",
                   where=f"{bb.file}:{rc.line}", sample=f"{st}: read not reachable from a write in the batch")
    ctx.floor("R16.2", "store reads in put_batch validation", nread, 2)
    # the version the cache will hold for a key is the version of the *last* table write of that key in the batch:
    # every table insert is followed by a plain map insert (last write wins) of (key, element version) into the staging
    # map; an entry().or_insert() would keep the first
    rb_ = p.fn(f"{BACKENDS['redb']}::put_batch")
    rv_ = fnview(ctx, rb_, policy=False)
    tins = [(bi, c) for bi, c in rb_.calls() if c.callee and "redb::Table" in c.callee.name and c.callee.name.endswith("::insert")]
    loops_ = R.loops_over(rv_, lambda x: "kvvs" in x)
    hdr_ = {h for h, _, _, _ in loops_}
    stage = []
    odd = []
    for bi, c in rb_.calls():
        nm = c.callee.name if c.callee else ""
        if "BTreeMap" not in nm and "btree_map" not in nm:
            continue
        recv = rv_.expr(c.args[0]) if c.args else ("k", "?")
        on_cache = any(x[0] == "field" and x[3] == "versions" for x in subexprs(recv))
        if nm.endswith("BTreeMap::<K, V, A>::insert") and not on_cache and len(c.args) >= 3:
            val = render(rv_.expr(c.args[2]))
            stage.append((bi, c.line, val))
        elif ("Entry" in nm or nm.endswith("::entry")) and not on_cache:
            odd.append((c.line, nm.rsplit("::", 2)[-2] + "::" + nm.rsplit("::", 1)[-1]))
    ctx.ob("R16.2", not odd, f"{rb_.name}/staging-last-write-wins",
           f"the disk put_batch stages versions through {odd[:2]}: for a key that occurs twice the cache keeps the first version while "
           f"the table keeps the last, so a later write below the stored version is accepted", where=f"{rb_.file}:{odd[0][0] if odd else rb_.line}",
           sample="staged_versions.insert(key, version)")
    for tbi, tc in tins:
        sb_ = {x[0] for x in stage}
        nxt = rb_.term(tbi).targets[:1]
        missing = any(any(h in rv_.reach(t, cut_nodes=sb_) for h in hdr_) for t in nxt) if hdr_ else not stage
        ctx.ob("R16.2", bool(stage) and not missing and all(v.endswith(".1.0") or "().0" in v or v.endswith(".0") for _, _, v in stage),
               f"{rb_.name}/table-write-staged",
               "a table write of the disk put_batch is not followed by staging (key, that element's version) for the version cache",
               where=f"{rb_.file}:{tc.line}", sample="table.insert => staged_versions.insert(key, version)")
    # memory
    b = p.fn(f"{BACKENDS['memory']}::put_batch")
    fv = fnview(ctx, b, policy=False)
    nv = fv.named()
    W = _store_writes(fv, b, "memory")
    ctx.floor("R16.2", "memory put_batch insert site", len(W), 1)
    errs = [r for r in fv.return_sites() if r["kind"] == "err"]
    ctx.floor("R16.2", "memory put_batch error exits", len(errs), 2)
    for bi, ln, c in W:
        bad = [r for r in errs if fv.reaches(bi, r["block"])]
        ctx.ob("R16.2", not bad, "memory/put_batch/no-insert-before-error",
               "memory put_batch can insert an element and still fail afterwards (partial batch applied)", where=f"{b.file}:{ln}",
               sample="insert loop unreachable to any Err exit")
        # inserts are dominated by the exhaustion of the validation loop
    loops = R.loops_over(fv, lambda s: "kvvs" in s)
    ctx.ob("R16.2", len(loops) == 2, "memory/put_batch/two-loops", f"memory put_batch has {len(loops)} loops over the batch (validate, apply)",
           where=f"{b.file}:{b.line}")
    X = _existing_symbol(nv)
    if X is not None and loops:
        vloop = loops[0]
        for op, nm in (("<", "stale"),):
            sym_version = None
            cut = set()
            # version symbol in the batch is the element's version: find the first le atom and use both symbols
            for bi2 in sorted(fv.live_blocks()):
                if b.term(bi2).kind != "switch":
                    continue
                for tg, a in atoms.edge_atoms(nv, bi2):
                    if a is not None and a[0] == "le" and len(a[1]) == 2:
                        # scenario: this comparison says "stale"
                        pass
        # structural: every error exit is inside the first loop; the second loop has no error exit
        h1, c1, be1, ee1 = loops[0]
        h2, c2, be2, ee2 = loops[1] if len(loops) > 1 else loops[0]
        first_body = set()
        for (u, v) in be1:
            first_body |= fv.reach(v, cut_nodes={h1})
        ctx.ob("R16.2", all(r["block"] in first_body for r in errs), "memory/put_batch/errors-in-validation",
               "memory put_batch has an error exit outside its validation loop", where=f"{b.file}:{b.line}", sample="all Err exits inside loop 1")
        for bi, ln, c in W:
            ctx.ob("R16.2", fv.must_pass(bi, ee1) and bool(ee1), "memory/put_batch/apply-after-validate-all",
                   "memory put_batch applies an element before all elements were validated", where=f"{b.file}:{ln}",
                   sample="insert dominated by exhaustion of the validation loop")
        # validation compares versions and values
        cmpn = 0
        for bi2 in first_body:
            if b.term(bi2).kind == "switch":
                for tg, a in atoms.edge_atoms(nv, bi2):
                    if a is not None and a[0] in ("le",) and len(a[1]) == 2:
                        cmpn += 1
        vsites = R.eq_sites(fv, lambda a, c: True)
        ctx.ob("R16.2", cmpn >= 1 and len(vsites) >= 1, "memory/put_batch/validation-checks",
               f"memory put_batch validation: {cmpn} version order tests, {len(vsites)} equality tests", where=f"{b.file}:{b.line}",
               sample={"order_tests": cmpn, "equality_tests": len(vsites)})
    # redb
    rb = p.fn(f"{BACKENDS['redb']}::put_batch")
    rv = fnview(ctx, rb, policy=False)
    rn = rv.named()
    commits = [(bi, c.line) for bi, c in rb.calls() if c.callee and c.callee.name.endswith("WriteTransaction::commit")]
    aborts = [(bi, c.line) for bi, c in rb.calls() if c.callee and c.callee.name.endswith("WriteTransaction::abort")]
    ctx.ob("R16.2", len(commits) == 1 and len(aborts) == 1, "redb/put_batch/commit-abort", f"redb put_batch: {len(commits)} commit, {len(aborts)} abort",
           where=f"{rb.file}:{rb.line}")
    R.named_scenario_refused(ctx, "R16.2", rb, ["found_version_mismatch"], "redb/put_batch/no-commit-on-mismatch",
                             "redb put_batch commits although a version mismatch was found", sinks=commits, policy=False)
    R.named_scenario_refused(ctx, "R16.2", rb, ["found_version_mismatch"], "redb/put_batch/mismatch-refused",
                             "redb put_batch returns Ok although a version mismatch was found", policy=False)
    R.named_scenario_refused(ctx, "R16.2", rb, ["!found_version_mismatch"], "redb/put_batch/no-abort-without-mismatch",
                             "redb put_batch aborts a clean batch", sinks=aborts, policy=False)
    # flag set for stale and for conflicting elements
    flags = []
    for l in range(len(rb.local_tys)):
        if rb.local_name(l) == "found_version_mismatch":
            for (bi, idx, obj) in rv.defs.get(l, []):
                if idx != "T" and obj.kind == "a" and obj.rv.ops and obj.rv.ops[0].const and obj.rv.ops[0].const["s"] == "true":
                    flags.append(bi)
    ctx.ob("R16.2", len(flags) >= 2, "redb/put_batch/flag-sites", f"found_version_mismatch is set at {len(flags)} sites (stale, conflicting)",
           where=f"{rb.file}:{rb.line}")
    X, xb = _existing_symbol(rn, with_block=True)
    loops = R.loops_over(rv, lambda s: "kvvs" in s)
    if X is not None and loops:
        h, c, be, ee = loops[0]
        # symbol for the element's version
        ver = None
        for tg, a in atoms.edge_atoms(rn, xb):
            if a is not None and a[0] == "le" and len(a[1]) == 2:
                ver = [s for s, cc in a[1] if s != X]
        if ver:
            assum = [atoms.cmp_atom("<", ("specsym", ver[0][0]), ("specsym", X[0]))]
            cut = atoms.scenario_cut(rn, assum)
            poss = R.iteration_possible(rv, h, be, cut | set())
            # iteration may complete, but only through a flag-setting block
            poss2 = False
            r = rv.reach(xb, cut_edges=cut, cut_nodes=set(flags) | {h})
            if any(h in rv.succ[x] for x in r):
                poss2 = True
            ctx.ob("R16.2", bool(cut) and not poss2, "redb/put_batch/stale-sets-flag",
                   "redb put_batch can pass over a stale element without flagging the batch", where=f"{rb.file}:{c.line}",
                   sample="stale element: iteration completes only through found_version_mismatch = true")
        vs = R.eq_sites(rv, lambda a, c_: "existing" in a and "vv" in c_ or "value(" in a and c_ == "vv")
        for bi2, line, eqe, dife, r0, r1 in vs:
            poss3 = False
            for (u, v) in dife:
                r = rv.reach(v, cut_nodes=set(flags) | {h})
                if any(h in rv.succ[x] for x in r):
                    poss3 = True
            ctx.ob("R16.2", not poss3, "redb/put_batch/conflict-sets-flag",
                   "redb put_batch can pass over an element with different content at the current version without flagging the batch",
                   where=f"{rb.file}:{line}", sample="conflict: iteration completes only through the flag")
    # version cache only after commit
    cache = [(bi, c.line) for bi, c in rb.calls() if c.callee and c.callee.name.endswith("::insert") and c.args and
             render(strip_ref(rn.expr(c.args[0]))) == "versions"]
    ctx.floor("R16.2", "redb put_batch cache update", len(cache), 1)
    cb_ = {bi for bi, _ in commits}
    for bi, ln in cache:
        ok = bi not in rv.reach(0, cut_nodes=cb_)
        ctx.ob("R16.2", ok, "redb/put_batch/cache-after-commit", "redb put_batch updates the version cache before/without committing",
               where=f"{rb.file}:{ln}", sample="versions.insert dominated by tx.commit()")


def r163(ctx):
    ctx.rule("R16.3", "cloud-staged store: read-your-writes, prepare reports the log, commit applies exactly the log")
    p = ctx.prog
    pref = BACKENDS["cloud"]
    ct = f"{VP}cloud::CloudKVVStore::<L>"
    for m, helper, localm in (("get", "do_get", "get"), ("get_version", "do_get_version", "get_version")):
        b = p.fn(f"{pref}::{m}")
        fv = fnview(ctx, b, policy=False).named()
        calls = [(bi, c) for bi, c in b.calls() if c.callee and c.callee.name == f"{ct}::{helper}"]
        inlined = not calls and not any(d.id in p.bodies for d in p.by_name.get(f"{ct}::{helper}", []))
        if inlined:
            hb = b      # the helper was inlined by hand: the log-first obligation below is asked of the method itself
        else:
            ok = len(calls) == 1 and "commit_log" in render(fv.expr(calls[0][1].args[1])) and render(strip_ref(fv.expr(calls[0][1].args[2]))) == "key"
            ctx.ob("R16.3", ok, f"cloud/{m}/uses-log", f"cloud {m} does not consult the commit log through {helper}", where=f"{b.file}:{b.line}",
                   sample=f"{helper}(commit_log, key)")
            hb = p.fn(f"{ct}::{helper}")
        hv = fnview(ctx, hb, policy=False)
        lg = [(bi, c) for bi, c in hb.calls() if c.callee and c.callee.name.endswith("BTreeMap::<K, V, A>::get")]
        loc = [(bi, c) for bi, c in hb.calls() if c.decl is not None and c.decl.name == f"{VP}KVVStore::{localm}"]
        ok = len(lg) == 1 and len(loc) == 1
        if ok:
            miss = hv.result_edges(lg[0][0], lg[0][1], "err")
            ok = hv.must_pass(loc[0][0], miss) and bool(miss) and "commit_log" in render(hv.expr(lg[0][1].args[0]))
        ctx.ob("R16.3", ok, f"cloud/{helper}/log-first", f"{helper} consults the local store other than on a commit-log miss",
               where=f"{hb.file}:{hb.line}", sample="commit_log.get(key) else local")
    # prepare
    b = p.fn(f"{pref}::prepare")
    fv = fnview(ctx, b, policy=False).named()
    muts = None
    for l in range(len(b.local_tys)):
        if b.local_name(l) == "mutations":
            e = fv.local_expr(l)
            muts = e[2] if e[0] == "let" else e
    ok = muts is not None and "commit_log" in render(muts) and "collect" in render(muts)
    ctx.ob("R16.3", ok, "cloud/prepare/reports-log", f"prepare builds mutations from `{render(muts)[:120] if muts else None}`", where=f"{b.file}:{b.line}",
           sample="mutations <- commit_log.iter().map(..).collect()")
    # the "effectively empty" shortcut (report nothing, drop the log) is taken only when the log holds exactly one record -
    # the last-writer stamp; with any other record in the log, prepare must report it (commit applies the whole log)
    from engine import atoms as _atoms
    empties = [(bi, c) for bi, c in b.calls() if c.callee and c.callee.name.endswith("Mutations::new")]
    if empties:
        one_edges = set()
        for sb in sorted(fv.live_blocks()):
            if b.term(sb).kind != "switch":
                continue
            for tg, at in _atoms.edge_atoms(fv, sb):
                if at is None:
                    continue
                for nm in ("mutations", "commit_log"):
                    try:
                        want = _atoms.parse_atom(f"len({nm}) == 1")
                        if _atoms.entails(at, want):
                            one_edges.add((sb, tg))
                    except Exception:
                        pass
        for bi, c in empties:
            ctx.ob("R16.3", bool(one_edges) and fv.must_pass(bi, one_edges), "cloud/prepare/empty-only-for-single-record",
                   "prepare can report an empty mutation set although the commit log holds more than the last-writer record "
                   "(the shortcut is not guarded by `exactly one entry`): commit then changes the local store by mutations that were "
                   "never reported", where=f"{b.file}:{c.line}", sample="Mutations::new() only under len(log) == 1")
    fr = [c for bi, c in b.calls() if c.callee and c.callee.name.endswith("Mutations::from_vec")]
    ctx.ob("R16.3", len(fr) == 1 and render(strip_ref(fv.expr(fr[0].args[0]))) == "mutations", "cloud/prepare/returns-mutations",
           "prepare does not return the collected mutations", where=f"{b.file}:{b.line}")
    # commit
    b = p.fn(f"{pref}::commit")
    fv = fnview(ctx, b, policy=False)
    nv = fv.named()
    pb = [(bi, c) for bi, c in b.calls() if c.decl is not None and c.decl.name == f"{VP}KVVStore::put_batch"]
    ctx.ob("R16.3", len(pb) == 1, "cloud/commit/put_batch", f"commit calls local.put_batch {len(pb)} times", where=f"{b.file}:{b.line}")
    for bi, c in pb:
        recv = render(peel(fv.expr(c.args[0])))
        arg = render(strip_ref(nv.expr(c.args[1])))
        chain = render(strip_ref(fv.expr(c.args[1])))
        is_chain = "collect" in chain and ("commit_log" in chain or "take(" in chain)
        ctx.ob("R16.3", recv.endswith(".local") and (arg == "kvvs" or is_chain), "cloud/commit/applies-kvvs",
               f"commit calls {recv}.put_batch({arg})", where=f"{b.file}:{c.line}", sample="self.local.put_batch(kvvs)")
        R.must_pass_guard(ctx, "R16.3", b, R.success_blocks(fv), lambda n: n == f"{VP}KVVStore::put_batch", "local.put_batch",
                          "Ok return of commit", depth=0)
    loops = R.loops_over(fv, lambda s: "commit_log" in s)
    # the batch is the whole log: a `for` loop pushing every entry, or an iterator chain that maps and collects without
    # dropping anything (no filter / filter_map / skip / take / step_by ...)
    chains = []
    for bi, c in pb:
        ch = render(strip_ref(fv.expr(c.args[1])))
        if "collect" in ch and ("commit_log" in ch or "take(" in ch):
            chains.append(ch)
    DROPPING = ("::filter(", "::filter_map(", "::skip(", "::take(", "::step_by(", "::skip_while(", "::take_while(", "::flat_map(",
                "::dedup", "::retain(")
    if not loops:
        dropped = [d for ch in chains for d in DROPPING if d in ch.replace("Option::<T>::take(", "")]
        ctx.ob("R16.3", bool(chains) and not dropped, "cloud/commit/every-entry-applied",
               f"commit can skip a commit-log entry (the batch handed to the local store is built with {dropped or 'something other than the whole log'}): "
               "what prepare reported to the cloud and what the local store holds differ, e.g. a delete (empty value) is never applied locally",
               where=f"{b.file}:{b.line}", sample="batch <- commit_log.into_iter().map(..).collect()")
    ctx.ob("R16.3", len(loops) == 1 or bool(chains), "cloud/commit/iterates-log", "commit does not iterate the commit log", where=f"{b.file}:{b.line}")
    pushes = [(bi, c) for bi, c in b.calls() if c.callee and c.callee.name.endswith("::push") and
              render(strip_ref(nv.expr(c.args[0]))) == "kvvs"]
    for h, c, be, ee in loops:
        pe = {bi for bi, _ in pushes}
        poss = False
        for (u, v) in be:
            r = fv.reach(v, cut_nodes=pe | {h})
            if any(h in fv.succ[x] for x in r):
                poss = True
        ctx.ob("R16.3", bool(pushes) and not poss, "cloud/commit/every-entry-applied", "commit can skip a commit-log entry",
               where=f"{b.file}:{c.line}", sample="each log entry is pushed into the batch")
    # the log is taken (transaction ends)
    tk = [c for bi, c in b.calls() if c.callee and c.callee.name.endswith("Option::<T>::take")]
    ctx.ob("R16.3", len(tk) >= 1, "cloud/commit/takes-log", "commit no longer takes the commit log", where=f"{b.file}:{b.line}")
    # nothing else writes the local store while a transaction can be open
    writers = {}
    for m in ("put", "put_with_version", "put_batch", "delete", "enter", "prepare", "get", "get_version"):
        mb = p.fn(f"{pref}::{m}")
        lw = [c.decl.name.rsplit("::", 1)[-1] for bi, c in mb.calls() if c.decl is not None and
              c.decl.name in (f"{VP}KVVStore::put", f"{VP}KVVStore::put_with_version", f"{VP}KVVStore::put_batch", f"{VP}KVVStore::delete")
              and ".local" in render(peel(fnview(ctx, mb, policy=False).expr(c.args[0])))]
        writers[m] = lw
        ctx.ob("R16.3", not lw, f"cloud/{m}/no-direct-local-write", f"cloud {m} writes the local store directly ({lw}) bypassing the commit log",
               where=f"{mb.file}:{mb.line}", sample="no local.put* outside commit")


def r164(ctx):
    ctx.rule("R16.4", "on-disk store: version cache rebuilt from every table entry at open; get_version answers from the cache")
    p = ctx.prog
    nb = [b for b in p.bodies.values() if b.name == f"{VP}redb::RedbKVVStore::new_store"]
    if not nb:
        raise R.Broken("anchor missing: RedbKVVStore::new_store")
    b = nb[0]
    fv = fnview(ctx, b, policy=False)
    nv = fv.named()
    loops = [l for l in R.loops_over(fv, lambda s: "Table" in s or "table" in s or "iter" in s)]
    ins = [(bi, c) for bi, c in b.calls() if c.callee and c.callee.name.endswith("::insert") and c.args and
           render(strip_ref(nv.expr(c.args[0]))) == "versions"]
    ctx.ob("R16.4", len(ins) == 1, "redb/new_store/cache-insert", f"{len(ins)} version-cache inserts in new_store", where=f"{b.file}:{b.line}")
    tl = []
    for h, c, be, ee in loops:
        body = set()
        for (u, v) in be:
            body |= fv.reach(v, cut_nodes={h})
        if any(bi in body for bi, _ in ins):
            tl.append((h, c, be, ee))
    ctx.ob("R16.4", len(tl) == 1, "redb/new_store/table-loop", "loop over the table that fills the version cache not found", where=f"{b.file}:{b.line}")
    for h, c, be, ee in tl:
        pe = {bi for bi, _ in ins}
        poss = False
        for (u, v) in be:
            r = fv.reach(v, cut_nodes=pe | {h})
            if any(h in fv.succ[x] for x in r):
                poss = True
        ctx.ob("R16.4", not poss, "redb/new_store/every-entry-cached",
               "new_store can skip a table entry when rebuilding the version cache: after a reopen the forgotten key's "
               "version restarts, so a stale or conflicting write is accepted", where=f"{b.file}:{c.line}",
               sample="every iteration over the table inserts into versions")
        for bi, ic in ins:
            a = [render(nv.expr(x)) for x in ic.args[1:]]
            ok = "key" in a[0] and "version" in a[1]
            ctx.ob("R16.4", ok, "redb/new_store/cache-operands", f"versions.insert({a})", where=f"{b.file}:{ic.line}", sample=a)
    gb = p.fn(f"{BACKENDS['redb']}::get_version")
    gv = fnview(ctx, gb, policy=False)
    ok = any("versions" in render(gv.expr(c.args[0])) for bi, c in gb.calls() if c.callee and c.callee.name.endswith("Mutex::<T>::lock"))
    ctx.ob("R16.4", ok, "redb/get_version/from-cache", "get_version does not read the version cache", where=f"{gb.file}:{gb.line}")
    # decode/encode agree: 8-byte big-endian version prefix
    eb = p.fn(f"{VP}redb::RedbKVVStore::encode_vv")
    db = p.fn(f"{VP}redb::RedbKVVStore::decode_vv")
    e_ok = any(c.callee and c.callee.name.endswith("::to_be_bytes") for bi, c in eb.calls())
    d_ok = any(c.callee and c.callee.name.endswith("::from_be_bytes") for bi, c in db.calls())
    ctx.ob("R16.4", e_ok and d_ok, "redb/vv-codec", "version prefix encoding and decoding disagree (be bytes)", where=f"{eb.file}:{eb.line}",
           sample="to_be_bytes / from_be_bytes")


# ------------------------------------------------------------------ R16.5
UNLOGGED = [f"{VP}KVVStore::put_batch_unlogged", f"{BACKENDS['cloud']}::put_batch_unlogged",
            f"<{VP}KVVPersister<S, F> as lightning_signer::persist::Persist>::put_batch_unlogged"]
ELEMENTWISE = ("into_iter", "map", "collect", "from_vec", "into_vec", "iter", "cloned")
SINGLE_KEY = ("KVVStore::put", "KVVStore::put_with_version", "KVVStore::delete")


def _whole_batch(e, param):
    """the expression is the batch parameter itself, or an element-for-element conversion of it"""
    e = peel(e)
    seen_param = False
    for x in subexprs(e):
        if x[0] == "param":
            if x[1] != param:
                return False
            seen_param = True
        elif x[0] == "call":
            if x[1].rsplit("::", 1)[-1] not in ELEMENTWISE:
                return False
        elif x[0] in ("var",):
            return False
    return seen_param


def r165(ctx, rid="R16.5", fns=None):
    ctx.rule(rid, "put_batch_unlogged hands the caller's whole batch to one atomic put_batch")
    p = ctx.prog
    n = 0
    for fn in (fns or UNLOGGED):
        b = p.fn(fn)
        ctx.touch(b)
        fv = fnview(ctx, b)
        n += 1
        batch = b.d.params[1] if b.d.params and len(b.d.params) > 1 else None
        fwd = R.call_blocks(fv, lambda nm: nm.endswith("KVVStore::put_batch") or nm.endswith("KVVStore::put_batch_unlogged"))
        where = f"{b.file}:{fwd[0][1]}" if fwd else f"{b.file}"
        ctx.ob(rid, len(fwd) == 1, f"{fn}/one-forward", f"`{fn}` makes {len(fwd)} put_batch calls (expected exactly one: "
               "the batch is applied by one atomic call)", where=where, sample="one put_batch call")
        for bi, ln, c in fwd:
            a = fv.expr(c.args[1])
            ctx.ob(rid, batch is not None and _whole_batch(a, batch), f"{fn}/whole-batch",
                   f"`{fn}` hands `{render(a)[:140]}` to put_batch, not the caller's batch `{batch}` element for element "
                   "(records dropped or rebuilt before the store's version/content comparison)", where=f"{b.file}:{ln}",
                   sample=render(a)[:100])
        # success only through the forward call
        cut = {bi for bi, _, _ in fwd}
        live = fv.reach(0, cut_nodes=cut)
        esc = [(sb, ln) for sb, ln in R.success_blocks(fv) if sb in live and sb not in cut]
        ctx.ob(rid, not esc, f"{fn}/success-through-put_batch", f"`{fn}` can return success without put_batch "
               f"(line {esc[0][1] if esc else ''})", where=where, sample="all success exits pass put_batch")
        # no single-key writes (a loop of put_with_version is not atomic)
        single = [(ln, c) for bi, ln, c in R.call_blocks_deep(ctx, fv, lambda nm: any(nm.endswith(s) for s in SINGLE_KEY))]
        ctx.ob(rid, not single, f"{fn}/no-single-key-write", f"`{fn}` writes keys one at a time "
               f"({single[0][1].callee.name if single and single[0][1].callee else ''} line {single[0][0] if single else ''}): a refused element "
               "leaves the earlier ones written", where=where, sample="no put/put_with_version/delete")
    ctx.floor(rid, "put_batch_unlogged implementations", n, len(fns or UNLOGGED))


def r166(ctx):
    """`the on-disk backend returns the same contents after being reopened`: necessary part (C11 R11.6)"""
    from rules import C11 as _c11
    _c11.r116(ctx, rid="R16.6")

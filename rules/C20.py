"""C20 — concurrent requests neither deadlock nor break per-channel atomicity (lock order)."""
from engine import rulelib as R
from engine import locks
from engine.rulelib import fnview

CRATES = ["lightning_signer", "vls_protocol_signer", "vls_persist"]
LS = "lightning_signer::"
CH = LS + "channel::Channel"

CLAIM = {
    "text": "Decides the deadlock-freedom clause structurally: (R20.1) builds the lock-order graph over lock "
            "classes (protected type of every MutexGuard/RwLock guard local in vls-core, vls-protocol-signer, "
            "vls-persist) with a forward may-held analysis per MIR body and transitive acquisition summaries through "
            "resolved callees, class-hierarchy analysis for trait objects and closures bound at call sites; every "
            "edge that lies on a cycle is reported with the function that holds the first lock and the call path to "
            "the second acquisition; the cycles present on the pinned tree are listed as known findings edge by "
            "edge, any new edge on a cycle is a violation; (R20.2) per-channel check-then-act atomicity: in both "
            "counterparty signing entry points validate_payments, the counter advance and apply_payments happen "
            "under one uninterrupted hold of the NodeState guard (no drop/re-lock in between), and &mut Channel is "
            "only obtainable through the ChannelSlot guard (who-may-call of the slot lock); (R20.3) no function releases a "
            "core lock and re-acquires the same class for writing without another guard held across the gap "
            "(check and act under one hold) - the check may also sit in a callee that locks and releases the class itself "
            "and whose result is branched on; (R20.4) a function that inserts a slot into the shared channel map and "
            "afterwards writes that channel's snapshot to the store keeps the map guard until the write is done; (R20.5) "
            "one snapshot per reply: no struct or tuple is assembled from values read under two different holds of "
            "the chain tracker or of the node state (own acquisitions, or callees that lock and release the class "
            "themselves), e.g. a heartbeat whose tip and height come from two acquisitions; (R20.6) one request, one "
            "critical section per node-wide structure: no function takes the node state, the chain tracker or the "
            "channel map for writing inside a loop (releasing and re-taking it between the items of one request "
            "lets another request observe a half-applied batch). Does not decide "
            "linearizability of outcomes (schedule-dependent values).",
    "note": "CHA over-approximates dynamic dispatch; lock identity is abstracted to the protected type (two "
            "ChannelSlot mutexes are one class); try_lock is treated as lock",
    "technique": "static analysis: lock-order graph (may-held dataflow + call-graph acquisition summaries) and cycle detection",
}

CORE_CLASSES = {
    "NodeState", "BTreeMap<ChannelId, Arc<Mutex<ChannelSlot>>>", "ChannelSlot", "ChainTracker<ChainMonitor>",
    "State", "Arc<dyn ValidatorFactory>", "Option<BlockDecodeState>", "HashMap<PublicKey, Arc<Node>>",
}
SCOPE_CRATES = {"lightning_signer", "vls_protocol_signer", "vls_persist"}
MIN_EDGES = 12


def run(ctx):
    ctx.explanation = CLAIM["text"]
    ctx.not_decided = "linearizability of replies and final states (schedule-dependent values)"
    ctx.assumptions += ["lock identity abstracted to protected type", "CHA for dyn calls"]
    r201(ctx)
    r202(ctx)
    r203(ctx)
    r204(ctx)
    r205(ctx)
    r206(ctx)


def r201(ctx):
    ctx.rule("R20.1", "lock-order graph is acyclic; each edge on a cycle is one violation keyed by the edge")
    la = locks.LockAnalysis(ctx.prog, scope=lambda b: b.d.krate in SCOPE_CRATES and not b.d.is_bin,
                            skip=R.is_test_util)
    E_all = la.edges()
    # classes in scope: the locks of the signer core named by the property (node state, channel map, channel slot,
    # chain tracker) plus the other vls-core locks reachable under them.  Wrapper-composition locks (approver
    # chains, CloudKVVStore over an inner store) are excluded: abstracting lock identity to the protected type
    # cannot separate the outer instance from the inner one, so their self-loops are artefacts of CHA.
    E = {e: w for e, w in E_all.items() if e[0] in CORE_CLASSES and e[1] in CORE_CLASSES}
    ctx.extra["edges_outside_core_classes"] = sorted(f"{h} -> {c}" for (h, c) in E_all if (h, c) not in E)
    nodes = {x for e in E for x in e}
    ctx.floor("R20.1", "lock-order edges found", len(E), MIN_EDGES)
    comps = locks.sccs(sorted(nodes), set(E))
    incycle = set()
    for comp in comps:
        cs = set(comp)
        for (h, c) in E:
            if h in cs and c in cs:
                incycle.add((h, c))
    ctx.extra["lock_classes"] = sorted(nodes)
    ctx.extra["lock_edges"] = sorted(f"{h} -> {c}" for h, c in E)
    ctx.extra["cycles"] = comps
    n_inst = 0
    for (h, c), ws in sorted(E.items()):
        bad = (h, c) in incycle
        for w in ws:
            holder = _owner(w["fn"])
            if holder in NOT_SHARED:
                ctx.sample("R20.1", f"edge/{h}->{c}/holder={holder}", w["holder"], NOT_SHARED[holder])
                continue
            n_inst += 1
            ctx.ob("R20.1", not bad, f"edge/{h}->{c}/holder={holder}",
                   f"lock-order inversion: {w['holder']} and then acquires {c} via "
                   + " => ".join(w["path"][:6]) + f"; the edge {h} -> {c} lies on a cycle of the lock-order graph "
                   f"({[cmp for cmp in comps if h in cmp]})",
                   where=w["holder"].rsplit(" at ", 1)[-1],
                   detail={"holder": w["holder"], "acquisition_path": w["path"]},
                   sample={"edge": f"{h} -> {c}", "holder": w["holder"]})
    ctx.floor("R20.1", "edge witnesses", n_inst, 30)


NOT_SHARED = {
    "lightning_signer::node::Node::new_from_persistence":
        "runs on a freshly built Arc<Node> that no other thread can reach yet",
}


def _owner(name):
    import re
    return re.sub(r"(::\{closure#\d+\})+$", "", name)


def r202(ctx):
    ctx.rule("R20.2", "check-then-act atomicity: validate_payments, counter advance and apply_payments under one "
                      "uninterrupted hold of the NodeState guard; channel access only through the slot guard")
    NS = LS + "node::NodeState"
    for fn in (f"{CH}::sign_counterparty_commitment_tx", f"{CH}::sign_counterparty_commitment_tx_phase2",
               f"{CH}::revoke_previous_holder_commitment"):
        b = ctx.prog.fn(fn)
        fv = fnview(ctx, b)
        la = locks.LockAnalysis(ctx.prog, scope=lambda x: False)
        f = la.facts(b)
        held = la.held_at_blocks(b)
        guards = f["guards"]
        ns_locals = {l for l, c in guards.items() if c == "NodeState"}
        ctx.ob("R20.2", len([s for s in f["acq_sites"] if s[2] == "NodeState" and s[3] is None]) == 1,
               f"{fn}/single-nodestate-acquisition",
               f"`{fn}` acquires the NodeState lock more than once (check and act under different holds)",
               where=f"{b.file}:{b.line}", sample="one NodeState acquisition")
        steps = []
        for bi, c in b.calls():
            nm = c.callee.name if c.callee else ""
            if nm in (f"{NS}::validate_payments", f"{NS}::apply_payments") or \
               nm.endswith("Validator::set_next_counterparty_commit_num") or \
               nm.endswith("Validator::set_next_holder_commit_num"):
                steps.append((bi, c, nm))
        ctx.floor("R20.2", f"payment check/act steps in {fn}", len(steps), 2)
        for bi, c, nm in steps:
            ok = bool(held[bi] & ns_locals)
            ctx.ob("R20.2", ok, f"{fn}/holds-nodestate/{nm.rsplit('::', 1)[-1]}",
                   f"`{fn}` calls {nm} without holding the NodeState guard", where=f"{b.file}:{c.line}",
                   sample="NodeState guard held")
        # no drop of the guard between first and last step: every block on a path between steps holds it
        if steps:
            first, last = steps[0][0], steps[-1][0]
            between = fv.reach(first) & {x for x in range(fv.n) if last in fv.reach(x)}
            dropped = [x for x in between if x != first and not (held[x] & ns_locals) and x not in (last,)]
            ctx.ob("R20.2", not dropped, f"{fn}/uninterrupted-hold",
                   f"`{fn}` releases the NodeState guard between the payment check and the state advance",
                   where=f"{b.file}:{b.term(dropped[0]).line if dropped else b.line}", sample="guard held on all blocks between check and act")
    # &mut Channel only via the slot guard: every ChannelSlot acquisition is a Mutex lock (counted)
    la = locks.LockAnalysis(ctx.prog, scope=lambda x: False)
    sites = []
    for b in ctx.prog.bodies.values():
        if b.d.krate not in SCOPE_CRATES or R.is_test_util(R.owner_name(ctx.prog, b)):
            continue
        for bi, c, cls, src in la.facts(b)["acq_sites"]:
            if cls == "ChannelSlot" and src is None:
                sites.append((b, c))
    ctx.floor("R20.2", "ChannelSlot lock sites", len(sites), 5)
    ctx.sample("R20.2", "slot-lock-sites", "vls-core", sorted({R.owner_name(ctx.prog, b) for b, c in sites})[:30])


LOGGING_ONLY = {"lightning_signer::node::NodeState::summary"}   # updates last_summary only (trace_node_state!)
SERIALIZED = {}   # (function, class) -> reason, for re-acquisitions that are serialized by other means (none today)


def r203(ctx):
    ctx.rule("R20.3", "check-then-act atomicity: no function releases a lock of class K and later re-acquires K for "
                      "writing (DerefMut through the new guard) unless some other guard is held continuously across "
                      "the gap (which serializes the two critical sections)")
    from engine.cfg import FnView
    p = ctx.prog
    la = locks.LockAnalysis(p, scope=lambda x: False)
    n_fn = n_multi = 0
    for b in p.bodies.values():
        if b.d.krate not in SCOPE_CRATES or b.d.is_bin:
            continue
        on = R.owner_name(p, b)
        if R.is_test_util(on) or on in NOT_SHARED:
            continue
        f = la.facts(b)
        acq = [(bi, c, cls) for bi, c, cls, src in f["acq_sites"] if src is None and cls in CORE_CLASSES]
        if not acq:
            continue
        n_fn += 1
        by = {}
        for bi, c, cls in acq:
            by.setdefault(cls, []).append((bi, c))
        multi = {k: v for k, v in by.items() if len(v) > 1}
        fv = fnview(ctx, b)
        held = la.held_at_blocks(b)
        guards = f["guards"]
        # writes through a guard: DerefMut::deref_mut(&mut guard)
        mutref = {}
        for bi in range(fv.n):
            if b.cleanup[bi]:
                continue
            for s_ in b.stmts(bi):
                if s_.kind == "a" and s_.rv.op == "ref" and s_.rv.a and s_.place.is_local() and \
                   s_.rv.place.is_local() and s_.rv.place.local in guards:
                    mutref[s_.place.local] = s_.rv.place.local
        writes = {}     # guard local -> [block]
        for bi, c in b.calls():
            nm = c.callee.name if c.callee else ""
            if "ops::DerefMut>::deref_mut" in nm and c.args and c.args[0].place is not None and \
               c.args[0].place.local in mutref and c.dest.is_local():
                # what is done with the &mut T: logging bookkeeping (NodeState::summary) is not an "act"
                tgt = {c.dest.local}
                for bj in range(fv.n):
                    if b.cleanup[bj]:
                        continue
                    for s_ in b.stmts(bj):
                        if s_.kind == "a" and s_.place.is_local() and s_.rv.op in ("ref", "use") and \
                           (s_.rv.place or (s_.rv.ops and s_.rv.ops[0].place)) is not None:
                            pl = s_.rv.place if s_.rv.op == "ref" else s_.rv.ops[0].place
                            if pl.local in tgt and (all(x == "*" for x in pl.proj) or (s_.rv.op == "ref" and s_.rv.a)):
                                tgt.add(s_.place.local)     # reborrow, or `&mut (*guard).field`
                acts = []
                for bj in range(fv.n):
                    if b.cleanup[bj]:
                        continue
                    for s_ in b.stmts(bj):
                        if s_.place.local in tgt and s_.place.proj and s_.place.proj[0] == "*":
                            acts.append("field write")
                    t_ = b.term(bj)
                    if t_.kind == "call" and t_.call is not c:
                        if any(a.place is not None and a.place.local in tgt for a in t_.call.args):
                            acts.append(t_.call.callee.name if t_.call.callee else "?")
                if any(a not in LOGGING_ONLY for a in acts):
                    writes.setdefault(mutref[c.args[0].place.local], []).append(bi)
        for cls, sites in multi.items():
            n_multi += 1
            for (b1, c1) in sites:
                for (b2, c2) in sites:
                    if b1 == b2 or not fv.reaches(c1.target if c1.target is not None else b1, b2):
                        continue
                    g2 = c2.dest.local
                    if not writes.get(g2):
                        continue      # second section only reads
                    g1 = c1.dest.local
                    if g1 == g2:
                        continue
                    # is the first guard still held when the second is taken?  then it is a nested lock, not a gap
                    if g1 in held[b2]:
                        continue
                    # some other guard held continuously from the first acquisition to the second
                    between = fv.reach(b1) & {x for x in range(fv.n) if b2 in fv.reach(x)}
                    spanning = None
                    for g, gcls in guards.items():
                        if g in (g1, g2):
                            continue
                        if all(g in held[x] for x in between if x != b1) and g in held[b2]:
                            spanning = gcls
                    key = f"{on}/reacquires/{cls}"
                    if spanning:
                        ctx.ob("R20.3", True, key, "", where=f"{b.file}:{c2.line}",
                               sample=f"re-acquisition of {cls} at line {c2.line} is serialized by the {spanning} guard "
                                      f"held across the gap")
                        continue
                    ok = (on, cls) in SERIALIZED
                    ctx.ob("R20.3", ok, key,
                           f"`{on}` locks {cls} (line {c1.line}), releases it, and locks it again for writing (line "
                           f"{c2.line}) with no other guard held across the gap: a decision taken under the first hold "
                           f"can be stale when the write happens (two concurrent requests can both pass the check)",
                           where=f"{b.file}:{c2.line}", sample=SERIALIZED.get((on, cls)))
        # (b) the check happens inside a callee: a call whose callee locks K by itself (K not held here), whose result
        # is branched on, followed by an acquisition of K for writing with no guard spanning the two
        for cls, sites2 in by.items():
            for (b2, c2) in sites2:
                g2 = c2.dest.local
                if not writes.get(g2):
                    continue
                for b1, c1 in b.calls():
                    if c1 is c2 or c1.callee is None or c1.callee.id not in p.bodies or c1.callee.krate != b.d.krate:
                        continue
                    if not fv.reaches(c1.target if c1.target is not None else b1, b2):
                        continue
                    cal = p.bodies[c1.callee.id]
                    if R.is_test_util(cal.name) or cls not in la.acquires(cal):
                        continue
                    if any(guards.get(g) == cls for g in held[b1]):
                        continue        # K is held across the call: nested, not a gap
                    tested = fv.result_edges(b1, c1, "ok") or fv.result_edges(b1, c1, "err") or \
                        any(R.payload_bool_edges(fv, b1, c1))
                    if not tested:
                        continue
                    between = fv.reach(b1) & {x for x in range(fv.n) if b2 in fv.reach(x)}
                    spanning = None
                    for g, gcls in guards.items():
                        if g == g2:
                            continue
                        if all(g in held[x] for x in between if x != b1) and g in held[b2] and g in held[b1]:
                            spanning = gcls
                    key = f"{on}/check-in-callee/{cls}/{cal.name.rsplit('::', 1)[-1]}"
                    if spanning:
                        ctx.ob("R20.3", True, key, "", where=f"{b.file}:{c2.line}", sample=f"serialized by the {spanning} guard")
                        continue
                    ctx.ob("R20.3", (on, cls, cal.name) in SERIALIZED, key,
                           f"`{on}` branches on the result of `{cal.name}` (line {c1.line}), which locks {cls} and releases it before "
                           f"returning, and then locks {cls} itself for writing (line {c2.line}) with no guard held across the gap: "
                           f"the decision can be stale when the write happens (two concurrent requests can both pass the check)",
                           where=f"{b.file}:{c2.line}", sample=SERIALIZED.get((on, cls, cal.name)))
    ctx.floor("R20.3", "functions acquiring core locks", n_fn, 30)
    ctx.extra["functions_reacquiring_a_class"] = n_multi


def r204(ctx):
    ctx.rule("R20.4", "publish-then-persist under one hold: a function that inserts a slot into the shared channel map and "
                      "afterwards writes that channel's snapshot to the store keeps the map guard until the write is done "
                      "(otherwise a concurrent request on the new slot persists newer state that the stale snapshot then "
                      "overwrites)")
    p = ctx.prog
    la = locks.LockAnalysis(p, scope=lambda x: False)
    MAP = "BTreeMap<ChannelId, Arc<Mutex<ChannelSlot>>>"
    is_store = lambda n: n.endswith("persist::Persist::update_channel") or n.endswith("persist::Persist::new_channel") \
        or n.endswith("persist::Persist>::update_channel") or n.endswith("persist::Persist>::new_channel")
    n = 0
    for b in sorted(p.bodies.values(), key=lambda x: x.name):
        if b.d.krate != "lightning_signer" or b.d.is_bin:
            continue
        on = R.owner_name(p, b)
        if R.is_test_util(on) or on in NOT_SHARED:
            continue
        f = la.facts(b)
        guards = [l for l, cls in f["guards"].items() if cls == MAP]
        if not guards:
            continue
        fv = fnview(ctx, b)
        # &mut borrows of the guard and the DerefMut results obtained from them
        refs = {}
        for bi in range(fv.n):
            if b.cleanup[bi]:
                continue
            for s_ in b.stmts(bi):
                if s_.kind == "a" and s_.rv.op == "ref" and s_.rv.a and s_.place.is_local() and s_.rv.place.is_local() \
                   and s_.rv.place.local in guards:
                    refs[s_.place.local] = s_.rv.place.local
        derefs = {}
        for bi, c in b.calls():
            nm = c.callee.name if c.callee else ""
            if "ops::DerefMut>::deref_mut" in nm and c.args and c.args[0].place is not None and c.args[0].place.local in refs \
               and c.dest.is_local():
                derefs[c.dest.local] = refs[c.args[0].place.local]
        inserts = []
        for bi, c in b.calls():
            nm = c.callee.name if c.callee else ""
            if nm.endswith("BTreeMap::<K, V, A>::insert") and c.args and c.args[0].place is not None:
                l0 = c.args[0].place.local
                # the receiver is (a reborrow of) the deref_mut result
                src = l0
                for _ in range(4):
                    if src in derefs:
                        break
                    sd = fv.single_def(src)
                    if sd is None or sd[1] == "T" or sd[2].kind != "a" or sd[2].rv.place is None and not sd[2].rv.ops:
                        break
                    pl = sd[2].rv.place if sd[2].rv.place is not None else sd[2].rv.ops[0].place
                    if pl is None:
                        break
                    src = pl.local
                if src in derefs:
                    inserts.append((bi, c, derefs[src]))
        stores = [(bi, c) for bi, c in b.calls() if is_store(c.callee.name if c.callee else "") or is_store(c.decl.name if c.decl else "")]
        if not inserts or not stores:
            continue
        n += 1
        for ibi, ic, g in inserts:
            rel = set()
            # the guard may be moved into a temporary first (`drop(channels)` is `_t = move _g; mem::drop(move _t)`)
            alias = {g}
            for bi in range(fv.n):
                if b.cleanup[bi]:
                    continue
                for s_ in b.stmts(bi):
                    if s_.kind == "a" and s_.rv.op == "use" and s_.place.is_local() and s_.rv.ops[0].kind == "m" \
                       and s_.rv.ops[0].place is not None and s_.rv.ops[0].place.is_local() and s_.rv.ops[0].place.local in alias:
                        alias.add(s_.place.local)
            for bi in range(fv.n):
                if b.cleanup[bi]:
                    continue
                t = b.term(bi)
                if t.kind == "drop" and t.place.is_local() and t.place.local in alias:
                    rel.add(bi)
                elif t.kind == "call" and any(a.kind == "m" and a.place is not None and a.place.is_local() and a.place.local in alias
                                              for a in t.call.args):
                    rel.add(bi)
            after_ins = set()
            for t in b.term(ibi).targets[:1]:
                after_ins = fv.reach(t)
            for sbi, sc in stores:
                if sbi not in after_ins:
                    continue
                # is there a path insert -> release -> store ?
                bad = None
                for r_ in rel:
                    if r_ in after_ins and any(sbi in fv.reach(t) for t in b.term(r_).targets[:1]):
                        bad = r_
                        break
                ctx.ob("R20.4", bad is None, f"{on}/publish-then-persist/{(sc.decl.name if sc.decl else sc.callee.name).rsplit('::', 1)[-1]}",
                       f"`{on}` inserts the channel slot into the shared map (line {ic.line}), releases the map guard (line "
                       f"{b.term(bad).line if bad is not None else 0}) and only then writes the channel snapshot (line {sc.line}): a "
                       f"concurrent request on the new slot can persist newer state that this stale snapshot overwrites",
                       where=f"{b.file}:{sc.line}", sample="map guard held from insert to the store write")
    ctx.floor("R20.4", "functions that publish a slot and persist it", n, 2)


# ------------------------------------------------------------------ R20.5
SNAPSHOT_CLASSES = {"ChainTracker<ChainMonitor>", "NodeState"}


def _slice_sites(fv, start_locals):
    """blocks of the calls whose results the given locals (transitively, by data flow inside the function) depend on"""
    seen, work, sites = set(), list(start_locals), set()
    while work:
        l = work.pop()
        if l in seen:
            continue
        seen.add(l)
        for (bi, idx, obj) in fv.defs.get(l, []):
            if idx == "T":
                sites.add(bi)
                for a in obj.args:
                    if a.place is not None:
                        work.append(a.place.local)
            elif obj.kind == "a":
                rv = obj.rv
                for o in (rv.ops or []):
                    if o.place is not None:
                        work.append(o.place.local)
                if rv.place is not None:
                    work.append(rv.place.local)
    return sites


def r205(ctx):
    ctx.rule("R20.5", "one snapshot per reply: the values assembled into one struct/tuple are not read under two "
                      "different holds of the chain tracker / node state (a concurrent update between the two reads "
                      "gives a reply that matches no sequential order)")
    p = ctx.prog
    la = locks.LockAnalysis(p, scope=lambda x: False)
    n_fn = n_agg = 0
    anchor = False
    for b in p.bodies.values():
        if b.d.krate not in SCOPE_CRATES or b.d.is_bin:
            continue
        on = R.owner_name(p, b)
        if R.is_test_util(on) or on in NOT_SHARED:
            continue
        f = la.facts(b)
        secs = {}     # block -> {class}: a critical section of the class starts (and for callees: ends) at this call
        for bi, c, cls, src in f["acq_sites"]:
            if src is None and cls in SNAPSHOT_CLASSES:
                secs.setdefault(bi, set()).add(cls)
        held = la.held_at_blocks(b)
        for bi, c in b.calls():
            if bi in secs or c.callee is None or c.callee.id not in p.bodies or not c.dest.is_local():
                continue
            cal = p.bodies[c.callee.id]
            if R.is_test_util(cal.name) or c.dest.local in f["guards"] or "Arc<" in b.ty(c.dest.local):
                continue        # a handle (Arc<Node>, a guard) is not a value read from the protected state
            for k in la.acquires(cal):
                if k in SNAPSHOT_CLASSES and not (held and any(f["guards"].get(g) == k for g in held[bi])):
                    secs.setdefault(bi, set()).add(k)
        if not secs:
            continue
        n_fn += 1
        fv = fnview(ctx, b)
        for bi in sorted(fv.live_blocks()):
            for st in b.stmts(bi):
                if not (st.kind == "a" and st.rv.op == "agg" and len(st.rv.ops) >= 2) or "fmt::" in b.ty(st.place.local):
                    continue
                n_agg += 1
                per = {}
                for o in st.rv.ops:
                    if o.place is None:
                        continue
                    for s_ in _slice_sites(fv, [o.place.local]):
                        for k in secs.get(s_, ()):
                            per.setdefault(k, set()).add(s_)
                what = st.rv.a[1].name.rsplit("::", 1)[-1] if isinstance(st.rv.a, tuple) else str(st.rv.a)
                if on.endswith("Node::get_heartbeat") and what == "Heartbeat" and per.get("ChainTracker<ChainMonitor>"):
                    anchor = True
                for k, ss in per.items():
                    lines = sorted(b.term(x).call.line for x in ss)
                    ctx.ob("R20.5", len(ss) < 2, f"{on}/torn-snapshot/{what}/{k}",
                           f"`{on}` assembles {what} from values read under {len(ss)} different holds of {k} (lines {lines}): "
                           f"an update of the {k} between them yields a reply that corresponds to no sequential order",
                           where=f"{b.file}:{st.line}", sample=f"{what}: one hold of {k} (line {lines[0]})")
    ctx.floor("R20.5", "functions reading the tracker / node state", n_fn, 20)
    if not anchor:
        raise R.Broken("C20/R20.5: anchor missing: Node::get_heartbeat no longer builds a Heartbeat from the chain tracker")
    ctx.extra["aggregates_examined"] = n_agg


# ------------------------------------------------------------------ R20.6
BATCH_CLASSES = {"NodeState", "ChainTracker<ChainMonitor>", "BTreeMap<ChannelId, Arc<Mutex<ChannelSlot>>>"}


def r206(ctx):
    ctx.rule("R20.6", "a batch is applied in one critical section: no acquisition of a node-wide lock (node state, chain tracker, "
                      "channel map) for writing sits inside a loop of the function that processes the request")
    p = ctx.prog
    la = locks.LockAnalysis(p, scope=lambda x: False)
    n_fn = n_acq = 0
    for b in p.bodies.values():
        if b.d.krate not in SCOPE_CRATES or b.d.is_bin:
            continue
        on = R.owner_name(p, b)
        if R.is_test_util(on) or on in NOT_SHARED:
            continue
        f = la.facts(b)
        acq = [(bi, c, cls) for bi, c, cls, src in f["acq_sites"] if src is None and cls in BATCH_CLASSES]
        if not acq:
            continue
        n_fn += 1
        fv = fnview(ctx, b)
        guards = f["guards"]
        mutref = {}
        for bi in range(fv.n):
            if b.cleanup[bi]:
                continue
            for s_ in b.stmts(bi):
                if s_.kind == "a" and s_.rv.op == "ref" and s_.rv.a and s_.place.is_local() and \
                   s_.rv.place.is_local() and s_.rv.place.local in guards:
                    mutref[s_.place.local] = s_.rv.place.local
        written = set()
        for bi, c in b.calls():
            nm = c.callee.name if c.callee else ""
            if "ops::DerefMut>::deref_mut" in nm and c.args and c.args[0].place is not None and c.args[0].place.local in mutref:
                written.add(mutref[c.args[0].place.local])
        for bi, c, cls in acq:
            n_acq += 1
            t = c.target if c.target is not None else bi
            in_loop = bi in fv.reach(t)
            g = c.dest.local
            ctx.ob("R20.6", not (in_loop and g in written), f"{on}/lock-per-item/{cls}",
                   f"`{on}` takes the {cls} lock for writing inside a loop (line {c.line}): the lock is released and re-taken between "
                   "the items of one request, so a concurrent request can observe (and answer from) a half-applied batch",
                   where=f"{b.file}:{c.line}", sample=f"{cls} acquired once, outside any loop")
    ctx.floor("R20.6", "functions acquiring a node-wide lock", n_fn, 20)
    ctx.extra["node_wide_acquisitions"] = n_acq

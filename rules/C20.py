"""C20 — concurrent requests neither deadlock nor break per-channel atomicity (lock order)."""
from engine import rulelib as R
from engine import locks
from engine.rulelib import fnview

CRATES = ["lightning_signer", "vls_protocol_signer", "vls_persist"]
LS = "lightning_signer::"
CH = LS + "channel::Channel"

CLAIM = {
    "text": "Decides the deadlock-freedom clause structurally: (R20.1) builds the lock-order graph over lock "
            "classes (protected type of every MutexGuard/RwLock guard local in vls-core, vls-protocol-signer, "
            "vls-persist) with a forward may-held analysis per MIR body and transitive acquisition summaries through "
            "resolved callees, class-hierarchy analysis for trait objects and closures bound at call sites; every "
            "edge that lies on a cycle is reported with the function that holds the first lock and the call path to "
            "the second acquisition; the cycles present on the pinned tree are listed as known findings edge by "
            "edge, any new edge on a cycle is a violation; (R20.2) per-channel check-then-act atomicity: in both "
            "counterparty signing entry points validate_payments, the counter advance and apply_payments happen "
            "under one uninterrupted hold of the NodeState guard (no drop/re-lock in between), and &mut Channel is "
            "only obtainable through the ChannelSlot guard (who-may-call of the slot lock). Does not decide "
            "linearizability of outcomes (schedule-dependent values).",
    "note": "CHA over-approximates dynamic dispatch; lock identity is abstracted to the protected type (two "
            "ChannelSlot mutexes are one class); try_lock is treated as lock",
    "technique": "static analysis: lock-order graph (may-held dataflow + call-graph acquisition summaries) and cycle detection",
}

CORE_CLASSES = {
    "NodeState", "BTreeMap<ChannelId, Arc<Mutex<ChannelSlot>>>", "ChannelSlot", "ChainTracker<ChainMonitor>",
    "State", "Arc<dyn ValidatorFactory>", "Option<BlockDecodeState>", "HashMap<PublicKey, Arc<Node>>",
}
SCOPE_CRATES = {"lightning_signer", "vls_protocol_signer", "vls_persist"}
MIN_EDGES = 12


def run(ctx):
    ctx.explanation = CLAIM["text"]
    ctx.not_decided = "linearizability of replies and final states (schedule-dependent values)"
    ctx.assumptions += ["lock identity abstracted to protected type", "CHA for dyn calls"]
    r201(ctx)
    r202(ctx)


def r201(ctx):
    ctx.rule("R20.1", "lock-order graph is acyclic; each edge on a cycle is one violation keyed by the edge")
    la = locks.LockAnalysis(ctx.prog, scope=lambda b: b.d.krate in SCOPE_CRATES and not b.d.is_bin,
                            skip=R.is_test_util)
    E_all = la.edges()
    # classes in scope: the locks of the signer core named by the property (node state, channel map, channel slot,
    # chain tracker) plus the other vls-core locks reachable under them.  Wrapper-composition locks (approver
    # chains, CloudKVVStore over an inner store) are excluded: abstracting lock identity to the protected type
    # cannot separate the outer instance from the inner one, so their self-loops are artefacts of CHA.
    E = {e: w for e, w in E_all.items() if e[0] in CORE_CLASSES and e[1] in CORE_CLASSES}
    ctx.extra["edges_outside_core_classes"] = sorted(f"{h} -> {c}" for (h, c) in E_all if (h, c) not in E)
    nodes = {x for e in E for x in e}
    ctx.floor("R20.1", "lock-order edges found", len(E), MIN_EDGES)
    comps = locks.sccs(sorted(nodes), set(E))
    incycle = set()
    for comp in comps:
        cs = set(comp)
        for (h, c) in E:
            if h in cs and c in cs:
                incycle.add((h, c))
    ctx.extra["lock_classes"] = sorted(nodes)
    ctx.extra["lock_edges"] = sorted(f"{h} -> {c}" for h, c in E)
    ctx.extra["cycles"] = comps
    n_inst = 0
    for (h, c), ws in sorted(E.items()):
        bad = (h, c) in incycle
        for w in ws:
            holder = _owner(w["fn"])
            if holder in NOT_SHARED:
                ctx.sample("R20.1", f"edge/{h}->{c}/holder={holder}", w["holder"], NOT_SHARED[holder])
                continue
            n_inst += 1
            ctx.ob("R20.1", not bad, f"edge/{h}->{c}/holder={holder}",
                   f"lock-order inversion: {w['holder']} and then acquires {c} via "
                   + " => ".join(w["path"][:6]) + f"; the edge {h} -> {c} lies on a cycle of the lock-order graph "
                   f"({[cmp for cmp in comps if h in cmp]})",
                   where=w["holder"].rsplit(" at ", 1)[-1],
                   detail={"holder": w["holder"], "acquisition_path": w["path"]},
                   sample={"edge": f"{h} -> {c}", "holder": w["holder"]})
    ctx.floor("R20.1", "edge witnesses", n_inst, 30)


NOT_SHARED = {
    "lightning_signer::node::Node::new_from_persistence":
        "runs on a freshly built Arc<Node> that no other thread can reach yet",
}


def _owner(name):
    import re
    return re.sub(r"(::\{closure#\d+\})+$", "", name)


def r202(ctx):
    ctx.rule("R20.2", "check-then-act atomicity: validate_payments, counter advance and apply_payments under one "
                      "uninterrupted hold of the NodeState guard; channel access only through the slot guard")
    NS = LS + "node::NodeState"
    for fn in (f"{CH}::sign_counterparty_commitment_tx", f"{CH}::sign_counterparty_commitment_tx_phase2",
               f"{CH}::revoke_previous_holder_commitment"):
        b = ctx.prog.fn(fn)
        fv = fnview(ctx, b)
        la = locks.LockAnalysis(ctx.prog, scope=lambda x: False)
        f = la.facts(b)
        held = la.held_at_blocks(b)
        guards = f["guards"]
        ns_locals = {l for l, c in guards.items() if c == "NodeState"}
        ctx.ob("R20.2", len([s for s in f["acq_sites"] if s[2] == "NodeState" and s[3] is None]) == 1,
               f"{fn}/single-nodestate-acquisition",
               f"`{fn}` acquires the NodeState lock more than once (check and act under different holds)",
               where=f"{b.file}:{b.line}", sample="one NodeState acquisition")
        steps = []
        for bi, c in b.calls():
            nm = c.callee.name if c.callee else ""
            if nm in (f"{NS}::validate_payments", f"{NS}::apply_payments") or \
               nm.endswith("Validator::set_next_counterparty_commit_num") or \
               nm == f"{CH}::advance_holder_commitment_state":
                steps.append((bi, c, nm))
        ctx.floor("R20.2", f"payment check/act steps in {fn}", len(steps), 2)
        for bi, c, nm in steps:
            ok = bool(held[bi] & ns_locals)
            ctx.ob("R20.2", ok, f"{fn}/holds-nodestate/{nm.rsplit('::', 1)[-1]}",
                   f"`{fn}` calls {nm} without holding the NodeState guard", where=f"{b.file}:{c.line}",
                   sample="NodeState guard held")
        # no drop of the guard between first and last step: every block on a path between steps holds it
        if steps:
            first, last = steps[0][0], steps[-1][0]
            between = fv.reach(first) & {x for x in range(fv.n) if last in fv.reach(x)}
            dropped = [x for x in between if x != first and not (held[x] & ns_locals) and x not in (last,)]
            ctx.ob("R20.2", not dropped, f"{fn}/uninterrupted-hold",
                   f"`{fn}` releases the NodeState guard between the payment check and the state advance",
                   where=f"{b.file}:{b.term(dropped[0]).line if dropped else b.line}", sample="guard held on all blocks between check and act")
    # &mut Channel only via the slot guard: every ChannelSlot acquisition is a Mutex lock (counted)
    la = locks.LockAnalysis(ctx.prog, scope=lambda x: False)
    sites = []
    for b in ctx.prog.bodies.values():
        if b.d.krate not in SCOPE_CRATES or R.is_test_util(R.owner_name(ctx.prog, b)):
            continue
        for bi, c, cls, src in la.facts(b)["acq_sites"]:
            if cls == "ChannelSlot" and src is None:
                sites.append((b, c))
    ctx.floor("R20.2", "ChannelSlot lock sites", len(sites), 5)
    ctx.sample("R20.2", "slot-lock-sites", "vls-core", sorted({R.owner_name(ctx.prog, b) for b, c in sites})[:30])

"""C04 — commitment signatures bind to the BOLT-3 transaction of the validated content."""
from engine import rulelib as R
from engine import atoms
from engine.rulelib import fnview
from engine.cfg import render, strip_ref, peel, subexprs

CRATES = ["lightning_signer", "vls_persist", "vls_protocol_signer"]
LS = "lightning_signer::"
CH = LS + "channel::Channel"
VAL = LS + "policy::validator::Validator"
SIGN_CP = lambda n: n.endswith("::sign_counterparty_commitment")

CLAIM = {
    "text": "Decides what object is signed and where its inputs come from: (R4.1) in both entry points the LDK signing "
            "call (inside catch_panic!, traced through the closure's captured variables) receives the transaction built "
            "by make_counterparty_commitment_tx, never the caller's transaction, and (raw path) the channel's own "
            "funding_key, make_funding_redeemscript(own funding pubkey, counterparty funding pubkey) and "
            "setup.channel_value_sat; (R4.2) on the raw path the signature is unreachable when the recomposed "
            "transaction differs from the supplied one as a whole (the compared operands are the full built "
            "transaction and *tx, not a digest of them) or when outputs and witscripts differ in number; (R4.3) the "
            "values validated (build_*_commitment_info) and the values signed/recomposed (make_*_commitment_tx) trace "
            "slot by slot to the same parameters, on the counterparty and on the holder side, and the info builders "
            "forward their parameters unmodified (re-ordering apart) into same-named CommitmentInfo2 fields; (R4.4) argument roles: "
            "the builders pass each value to the LDK CommitmentTransaction constructor parameter of the matching role "
            "(counterparty tx: broadcaster = counterparty; holder tx: broadcaster = holder), with "
            "INITIAL_COMMITMENT_NUMBER - n, and make_channel_parameters / htlcs_info2_to_oic fill same-named fields "
            "(offered = true only for the offered list); (R4.5) both entry points use the same builder, and the protocol handler converts wire HTLCs to the validated content by truncating division (amount_msat / 1000) identically on both sides; (R4.6) the script decoder does not refuse the extreme delays the built-in policies allow; (R4.7) estimate_feerate_per_kw rounds up by linear form; (R4.9) `the channel's own funding or HTLC key` across restarts: the signer object a restored channel signs with is derived from the same initial channel id, through the same derivation entry point and argument roles, as the one it was created and set up with (same obligations as C18 R18.2/R18.3); (R4.8) the signature handed back is labelled with the sighash type it was made under: wherever the protocol layer takes the raw signature out of a core TypedSignature it also takes its type (a reply that hard-codes SIGHASH_ALL for an anchor channel's SINGLE|ANYONECANPAY signature does not verify against the BOLT-3 transaction). Does not "
            "decide that decoder, recomposer and LDK agree on every byte string, nor equality of the two signatures.",
    "note": "LDK CommitmentTransaction / BuiltCommitmentTransaction semantics by name; parameter names of external "
            "functions read from crate metadata",
    "technique": "static analysis: provenance slices through closures + argument-role agreement + comparison-site refusal",
}


def run(ctx):
    ctx.explanation = CLAIM["text"]
    ctx.not_decided = "byte-level agreement of decoder / recomposer / LDK; equality of raw- and semantic-entry signatures"
    r41(ctx)
    r42(ctx)
    r43(ctx)
    r44(ctx)
    r45(ctx)
    r46(ctx)
    r47(ctx)
    r48(ctx)
    r49(ctx)


def _sign_sites(ctx, b):
    out = []
    # no_std builds: catch_panic! expands to the bare expression, the call sits in the function itself
    bv = None
    for bi, c in b.calls():
        if SIGN_CP(c.callee.name if c.callee else "") or SIGN_CP(c.decl.name if c.decl else ""):
            bv = bv or fnview(ctx, b)
            out.append((b, c, [bv.expr(a) for a in c.args]))
    for cb, bi, c in R.find_call_in_closures(ctx, b, SIGN_CP):
        env = R.closure_env(ctx, b, cb.d)
        cv = fnview(ctx, cb)
        out.append((cb, c, [R.subst_captures(cv.expr(a), env) for a in c.args]))
    return out


def r41(ctx):
    ctx.rule("R4.1", "the signed object is the recomposed transaction; key, script and value are the channel's own")
    p = ctx.prog
    b1 = p.fn(f"{CH}::sign_counterparty_commitment_tx")
    s1 = _sign_sites(ctx, b1)
    ctx.floor("R4.1", "signing call (raw entry)", len(s1), 1)
    for cb, c, a in s1:
        tx = a[0]
        ok = R.mentions_call(tx, "make_counterparty_commitment_tx") and "built_transaction" in render(tx)
        direct_tx = [x for x in subexprs(tx) if x[0] == "param" and x[1] == "tx"]
        # the caller's tx may only enter through decode_commitment_tx (-> validated info values)
        leak = [x for x in direct_tx if not _only_under(tx, x, ("decode_commitment_tx",))]
        ctx.ob("R4.1", ok and not leak, f"{b1.name}/signs-recomposed",
               f"raw entry signs `{render(tx)[:160]}`: not the transaction rebuilt by make_counterparty_commitment_tx",
               where=f"{cb.file}:{c.line}", sample="signed <- make_counterparty_commitment_tx(..).trust().built_transaction()")
        ctx.ob("R4.1", render(peel(a[1])) == "self.keys.funding_key", f"{b1.name}/funding-key",
               f"signs with `{render(a[1])[:80]}`", where=f"{cb.file}:{c.line}", sample="self.keys.funding_key")
        rs = render(a[2])
        ok = "make_funding_redeemscript(" in rs and "pubkeys(self.keys).funding_pubkey" in rs and \
            "self.setup.counterparty_points.funding_pubkey" in rs
        ctx.ob("R4.1", ok, f"{b1.name}/redeemscript", f"funding redeemscript `{rs[:200]}`", where=f"{cb.file}:{c.line}",
               sample="make_funding_redeemscript(own, counterparty)")
        ctx.ob("R4.1", render(peel(a[3])) == "self.setup.channel_value_sat", f"{b1.name}/value",
               f"signs for value `{render(a[3])[:80]}`", where=f"{cb.file}:{c.line}", sample="setup.channel_value_sat")
    if "vls_persist" in {bb.d.krate for bb in p.bodies.values()}:
        ctx.floor("R4.1", "ChannelEntry literal in KVVPersister::update_channel", _restored_value(ctx), 1)
    b2 = p.fn(f"{CH}::sign_counterparty_commitment_tx_phase2")
    s2 = _sign_sites(ctx, b2)
    ctx.floor("R4.1", "signing call (semantic entry)", len(s2), 1)
    for cb, c, a in s2:
        ctx.ob("R4.1", render(peel(a[0])) == "self.keys", f"{b2.name}/signer", f"signer is `{render(a[0])[:60]}`", where=f"{cb.file}:{c.line}")
        ok = render(peel(a[1])).startswith(f"{CH}::make_counterparty_commitment_tx(self,")
        ctx.ob("R4.1", ok, f"{b2.name}/signs-recomposed", f"semantic entry signs `{render(a[1])[:160]}`", where=f"{cb.file}:{c.line}",
               sample="signed <- make_counterparty_commitment_tx(..)")


def _restored_value(ctx):
    """after a restart the LDK signer of a ready channel is rebuilt with the channel's own value: the stored entry's
    channel_value_satoshis is written from setup.channel_value_sat and is what new_from_persistence hands to the keys
    manager (the semantic entry signs through that signer: a wrong value gives a signature over a different funding amount)"""
    p = ctx.prog
    n = 0
    for b in p.bodies.values():
        if b.d.krate == "vls_persist" and b.name.endswith("Persist>::update_channel") and "KVVPersister" in b.name:
            bv = fnview(ctx, b)
            for bb, bi, si, st in R.constructions(p, "vls_persist::model::ChannelEntry"):
                if bb is not b:
                    continue
                n += 1
                vals = dict(zip(st.rv.a[3], st.rv.ops))
                e = bv.expr(vals["channel_value_satoshis"])
                ok = any(x[0] == "field" and x[3] == "channel_value_sat" and x[2].endswith("ChannelSetup") for x in subexprs(e))
                ctx.ob("R4.1", ok, f"{b.name}/stores-channel-value",
                       f"update_channel stores `{render(e)[:80]}` as the channel value: the signer rebuilt after a restart signs the "
                       f"counterparty commitment (semantic entry) over a different funding amount", where=f"{b.file}:{st.line}",
                       sample="entry.channel_value_satoshis <- channel.setup.channel_value_sat")
    if p.has_fn(LS + "node::Node::new_from_persistence") and n:
        nb = p.fn(LS + "node::Node::new_from_persistence")
        nv = fnview(ctx, nb)
        for bi, ln, c in R.call_blocks(nv, lambda x: x.endswith("MyKeysManager::get_channel_keys_with_id")):
            e = nv.expr(c.args[2])
            ok = any(x[0] == "field" and x[3] in ("channel_value_satoshis", "channel_value_sat") for x in subexprs(e))
            ctx.ob("R4.1", ok, f"{nb.name}/restored-channel-value", f"the restored signer is built for value `{render(e)[:80]}`",
                   where=f"{nb.file}:{ln}", sample="value <- channel_entry.channel_value_satoshis")
    return n


def _only_under(root, target, call_frags):
    """every occurrence of `target` inside `root` sits under a call whose name contains one of call_frags"""
    def walk(e, under):
        if e is target:
            return under
        if not isinstance(e, tuple):
            return True
        u = under or (e and e[0] == "call" and any(f in e[1] for f in call_frags))
        for x in e[1:]:
            if isinstance(x, tuple):
                if x and isinstance(x[0], str):
                    if not walk(x, u):
                        return False
                else:
                    for y in x:
                        if isinstance(y, tuple):
                            if y and isinstance(y[0], str):
                                if not walk(y, u):
                                    return False
                            elif len(y) == 2 and isinstance(y[1], tuple):
                                if not walk(y[1], u):
                                    return False
        return True
    return walk(root, False)


def r42(ctx):
    ctx.rule("R4.2", "raw entry: byte-for-byte comparison of the recomposed transaction with the supplied one dominates the "
                     "signature; output/witscript count")
    p = ctx.prog
    b = p.fn(f"{CH}::sign_counterparty_commitment_tx")
    fv = fnview(ctx, b)
    sinks = [(bi, ln) for bi, ln, c in R.call_blocks_deep(ctx, fv, SIGN_CP)]
    ctx.floor("R4.2", "signature site", len(sinks), 1)

    def whole_tx(a, c):
        return a.endswith("built_transaction(lightning::ln::chan_utils::CommitmentTransaction::trust("
                          f"{CH}::make_counterparty_commitment_tx(" + a.split("make_counterparty_commitment_tx(", 1)[-1]) \
            if False else (".transaction" in a and a.rstrip(")").endswith(".transaction") or a.endswith(".transaction")) and c == "tx"
    sites = R.mismatch_refused(ctx, "R4.2", b, whole_tx, f"{b.name}/byte-for-byte",
                               "recomposed commitment transaction vs supplied transaction (whole transactions, not txids)",
                               sinks=sinks)
    # holder side: same clause
    hb = p.fn(f"{CH}::make_validated_recomposed_holder_commitment_tx") if p.has_fn(f"{CH}::make_validated_recomposed_holder_commitment_tx") else None
    if hb is not None:
        R.mismatch_refused(ctx, "R4.2", hb, whole_tx, f"{hb.name}/byte-for-byte",
                           "recomposed holder commitment transaction vs supplied transaction")
        R.named_scenario_refused(ctx, "R4.2", hb, ["len(tx.output) != len(output_witscripts)"], f"{hb.name}/witscript-count",
                                 "holder commitment accepted with a witscript list of a different length than the outputs")
    R.named_scenario_refused(ctx, "R4.2", b, ["len(tx.output) != len(output_witscripts)"], f"{b.name}/witscript-count",
                             "counterparty commitment signed with a witscript list of a different length than the outputs",
                             sinks=sinks)


def _passthrough(ctx, b, callee, want, key, rid="R4.3"):
    """the info builder hands its parameters, unmodified, to `callee` in the stated roles"""
    fv = fnview(ctx, b, policy=False)
    sites = [(bi, c) for bi, c in b.calls() if c.callee and c.callee.name == callee]
    ctx.ob(rid, len(sites) == 1, f"{b.name}/{key}/single-call", f"{len(sites)} calls of {callee}", where=f"{b.file}:{b.line}")
    for bi, c in sites:
        got = []
        for a in c.args:
            e = fv.expr(a)
            got.append(e[1] if e[0] in ("param", "k") else render(e)[:60])
        ctx.ob(rid, got == want, f"{b.name}/{key}/roles",
               f"`{b.name}` passes {got} to {callee.rsplit('::', 2)[-2]}::new (expected {want}): the content that is validated and "
               f"recorded is not the content the caller supplied", where=f"{b.file}:{c.line}", sample=got)
    # none of the forwarded parameters is modified on the way (retain / truncate / push ... need a &mut borrow);
    # re-ordering is harmless because CommitmentInfo2::new sorts the lists anyway
    for l in range(1, b.argc + 1):
        nm = b.local_name(l)
        if nm in want:
            bad = sorted(_mutators(fv, nm) - SORT_ONLY) if (fv._mut_borrowed(l) or fv._mut_partial(l)) else []
            if (fv._mut_borrowed(l) or fv._mut_partial(l)) and not _mutators(fv, nm):
                bad = ["<direct write>"]
            ctx.ob(rid, not bad, f"{b.name}/{key}/unmodified/{nm}",
                   f"`{b.name}` modifies its parameter `{nm}` ({bad}) before building the validated content: what is validated and "
                   f"recorded differs from what the caller supplied (and may sign)", where=f"{b.file}:{b.line}", sample=f"{nm} forwarded unmodified")


SORT_ONLY = {"<std::vec::Vec<T, A> as std::ops::DerefMut>::deref_mut", "std::slice::<impl [T]>::sort",
             "std::slice::<impl [T]>::sort_unstable"}


def _mutators(fv, pname):
    """names of the callees that receive a reference to parameter `pname` (directly or through deref_mut)"""
    out = set()
    for bi, c in fv.b.calls():
        for a in c.args:
            e = fv.expr(a)
            if c.callee and any(x[0] == "ref" and x[1][0] == "param" and x[1][1] == pname for x in subexprs(e)):
                out.add(c.callee.name)
    return out


def content_passthrough(ctx, rid="R4.3"):
    """the commitment content that the validator sees, that is recorded in the enforcement state and that every later
    check reads (HTLC lists, balances, feerate) is exactly what the caller supplied: the two info builders forward their
    parameters unmodified and CommitmentInfo2::new only sorts the lists.  Shared by C04 (what is signed), C05 (bounds are
    checked on every HTLC), C06 (in-flight sums) and C07 (no HTLC pending)."""
    p = ctx.prog
    NEW = LS + "tx::tx::CommitmentInfo2::new"
    _passthrough(ctx, p.fn(f"{CH}::build_counterparty_commitment_info"), NEW,
                 ["true", "to_holder_value_sat", "to_counterparty_value_sat", "offered_htlcs", "received_htlcs", "feerate_per_kw"], "info", rid=rid)
    _passthrough(ctx, p.fn(f"{CH}::build_holder_commitment_info"), NEW,
                 ["false", "to_counterparty_value_sat", "to_holder_value_sat", "offered_htlcs", "received_htlcs", "feerate_per_kw"], "info", rid=rid)
    # CommitmentInfo2::new: fields from the same-named parameters; the lists are only sorted
    nb = p.fn(NEW)
    nv = fnview(ctx, nb, policy=False)
    for bb, bi, si, st in R.constructions(p, LS + "tx::tx::CommitmentInfo2"):
        if bb is not nb:
            continue
        for fname, op in zip(st.rv.a[3], st.rv.ops):
            e = peel(nv.expr(op))
            ctx.ob(rid, e[0] == "param" and e[1] == fname, f"{nb.name}/field/{fname}", f"CommitmentInfo2.{fname} <- `{render(e)[:60]}`",
                   where=f"{nb.file}:{st.line}", sample=f"{fname} <- {fname}")
    mut_calls = set()
    for l in range(1, nb.argc + 1):
        mut_calls |= _mutators(nv, nb.local_name(l))
    allowed = SORT_ONLY
    ctx.ob(rid, mut_calls <= allowed, f"{nb.name}/only-sorts", f"CommitmentInfo2::new applies {sorted(mut_calls - allowed)} to its lists",
           where=f"{nb.file}:{nb.line}", sample=sorted(mut_calls))


def r43(ctx):
    ctx.rule("R4.3", "validated values and signed values trace to the same parameters slot by slot")
    content_passthrough(ctx, "R4.3")
    p = ctx.prog
    # semantic counterparty entry
    b = p.fn(f"{CH}::sign_counterparty_commitment_tx_phase2")
    fv = fnview(ctx, b)
    info = R.call_blocks(fv, lambda n: n == f"{CH}::build_counterparty_commitment_info")
    mk = [a for cb, c, a in _sign_sites(ctx, b)]
    ctx.floor("R4.3", "build_counterparty_commitment_info call", len(info), 1)
    if info and mk:
        ia = [R.params_mentioned(fv.expr(x)) for x in info[0][2].args[1:]]
        # make_counterparty_commitment_tx(self, point, n, feerate, to_holder, to_counterparty, htlcs)
        mcall = [x for x in subexprs(mk[0][1]) if x[0] == "call" and x[1].endswith("make_counterparty_commitment_tx")][0]
        ma = [R.params_mentioned(x) for x in mcall[2][1:]]
        want_info = [["to_holder_value_sat"], ["to_counterparty_value_sat"], ["offered_htlcs"], ["received_htlcs"], ["feerate_per_kw"]]
        want_make = [["remote_per_commitment_point"], ["commitment_number"], ["feerate_per_kw"], ["to_holder_value_sat"],
                     ["to_counterparty_value_sat"], ["offered_htlcs", "received_htlcs"]]
        ctx.ob("R4.3", ia == want_info, f"{b.name}/validated-slots", f"build_counterparty_commitment_info slots {ia}",
               where=f"{b.file}:{info[0][1]}", sample=ia)
        ctx.ob("R4.3", ma == want_make, f"{b.name}/signed-slots", f"make_counterparty_commitment_tx slots {ma}",
               where=f"{b.file}:{info[0][1]}", sample=ma)
    for bi, ln, c in R.call_blocks(fv, lambda n: n == f"{VAL}::validate_counterparty_commitment_tx"):
        a = [render(peel(fv.expr(x))) for x in c.args[1:]]
        ok = a[0] == "self.enforcement_state" and a[1] == "commitment_number" and a[2] == "remote_per_commitment_point" \
            and a[3] == "self.setup" and "build_counterparty_commitment_info" in a[5]
        ctx.ob("R4.3", ok, f"{b.name}/validator-args", f"validate_counterparty_commitment_tx({[x[:40] for x in a]})",
               where=f"{b.file}:{ln}", sample=[x[:40] for x in a])
    # holder semantic entry
    hb = p.fn(f"{CH}::validate_holder_commitment_tx_phase2")
    hv = fnview(ctx, hb)
    hi = R.call_blocks(hv, lambda n: n == f"{CH}::build_holder_commitment_info")
    hm = R.call_blocks(hv, lambda n: n == f"{CH}::make_holder_commitment_tx")
    ctx.floor("R4.3", "holder info/builder calls", min(len(hi), len(hm)), 1)
    if hi and hm:
        ia = [R.params_mentioned(hv.expr(x)) for x in hi[0][2].args[1:]]
        ma = [R.params_mentioned(hv.expr(x)) for x in hm[0][2].args[1:]]
        ctx.ob("R4.3", ia == [["to_holder_value_sat"], ["to_counterparty_value_sat"], ["offered_htlcs"], ["received_htlcs"], ["feerate_per_kw"]],
               f"{hb.name}/validated-slots", f"build_holder_commitment_info slots {ia}", where=f"{hb.file}:{hi[0][1]}", sample=ia)
        ok = ma[0] == ["commitment_number"] and ma[2] == ["feerate_per_kw"] and ma[3] == ["to_holder_value_sat"] and \
            ma[4] == ["to_counterparty_value_sat"] and set(ma[5]) >= {"offered_htlcs", "received_htlcs"}
        ctx.ob("R4.3", ok, f"{hb.name}/recomposed-slots", f"make_holder_commitment_tx slots {ma}", where=f"{hb.file}:{hm[0][1]}", sample=ma)
    # the signatures are checked against that recomposed tx (C01 R1.7) : the object handed over
    for bi, ln, c in R.call_blocks(hv, lambda n: n == f"{CH}::check_holder_tx_signatures"):
        e = hv.expr(c.args[-1])
        ctx.ob("R4.3", R.mentions_call(e, "make_holder_commitment_tx"), f"{hb.name}/sigs-checked-on-recomposed",
               f"signatures are checked against `{render(e)[:120]}`", where=f"{hb.file}:{ln}")
    # raw counterparty entry: the values signed are the decoded-and-validated info's
    rb = p.fn(f"{CH}::sign_counterparty_commitment_tx")
    rv = fnview(ctx, rb)
    for cb, c, a in _sign_sites(ctx, rb):
        mcall = [x for x in subexprs(a[0]) if x[0] == "call" and x[1].endswith("make_counterparty_commitment_tx")]
        if not mcall:
            continue
        args = mcall[0][2]
        r = [render(x) for x in args]
        ok = render(peel(args[1])) == "remote_per_commitment_point" and render(peel(args[2])) == "commitment_number" and \
            render(peel(args[3])) == "feerate_per_kw" and r[4].endswith(".to_countersigner_value_sat") and \
            r[5].endswith(".to_broadcaster_value_sat") and "build_counterparty_commitment_info" in r[4] and \
            "htlcs_info2_to_oic" in r[6] and ".offered_htlcs" in r[6] and ".received_htlcs" in r[6]
        ctx.ob("R4.3", ok, f"{rb.name}/signed-slots",
               "raw entry recomposes with values other than (point, n, feerate, info.to_countersigner, info.to_broadcaster, "
               f"info htlcs): {[x[-60:] for x in r[1:]]}", where=f"{cb.file}:{c.line}", sample=[x[-40:] for x in r[1:]])
    for bi, ln, c in R.call_blocks(rv, lambda n: n == f"{VAL}::validate_counterparty_commitment_tx"):
        e = rv.expr(c.args[6])
        ctx.ob("R4.3", R.mentions_call(e, "build_counterparty_commitment_info"), f"{rb.name}/validated-info",
               f"raw entry validates `{render(e)[:100]}`", where=f"{rb.file}:{ln}")


def r44(ctx):
    ctx.rule("R4.4", "argument roles of the LDK commitment constructor, channel parameters and HTLC conversion")
    p = ctx.prog
    ctor = [d for n, dl in p.by_name.items() if n.endswith("CommitmentTransaction::new_with_auxiliary_htlc_data") for d in dl]
    if not ctor or not ctor[0].params:
        raise R.Broken("anchor missing: parameter names of CommitmentTransaction::new_with_auxiliary_htlc_data")
    pn = ctor[0].params
    roles = {
        f"{CH}::make_counterparty_commitment_tx_with_keys": {
            "to_broadcaster_value_sat": "to_counterparty_value_sat", "to_countersignatory_value_sat": "to_holder_value_sat",
            "broadcaster_funding_key": "counterparty_pubkeys(self).funding_pubkey",
            "countersignatory_funding_key": "pubkeys(self.keys).funding_pubkey", "keys": "keys", "feerate_per_kw": "feerate_per_kw"},
        f"{CH}::make_holder_commitment_tx": {
            "to_broadcaster_value_sat": "to_holder_value_sat", "to_countersignatory_value_sat": "to_counterparty_value_sat",
            "broadcaster_funding_key": "pubkeys(self.keys).funding_pubkey",
            "countersignatory_funding_key": "counterparty_pubkeys(self).funding_pubkey", "keys": "keys", "feerate_per_kw": "feerate_per_kw"},
    }
    for fn, want in roles.items():
        b = p.fn(fn)
        fv = fnview(ctx, b)
        calls = R.call_blocks(fv, lambda n: n.endswith("CommitmentTransaction::new_with_auxiliary_htlc_data"))
        ctx.floor("R4.4", f"constructor call in {fn}", len(calls), 1)
        for bi, ln, c in calls:
            for i, pname in enumerate(pn):
                if pname in want:
                    got = render(peel(fv.expr(c.args[i])))
                    ctx.ob("R4.4", got.endswith(want[pname]), f"{fn}/role/{pname}",
                           f"`{fn}` passes `{got[:100]}` as {pname} (expected {want[pname]})", where=f"{b.file}:{ln}",
                           sample=f"{pname} <- {want[pname]}")
            e = fv.expr(c.args[pn.index("commitment_number")])
            lin = atoms.linear(e)
            ok = lin[1] == (1 << 48) - 1 and [s[0] for s in lin[0]] == ["commitment_number"] and list(lin[0].values()) == [-1]
            ctx.ob("R4.4", ok, f"{fn}/role/commitment_number", f"commitment number operand `{render(e)}`", where=f"{b.file}:{ln}",
                   sample=render(e))
            par = render(fv.expr(c.args[pn.index("channel_parameters")]))
            side = "as_counterparty_broadcastable" if "counterparty" in fn else "as_holder_broadcastable"
            ctx.ob("R4.4", side in par and "make_channel_parameters" in par, f"{fn}/role/channel_parameters",
                   f"channel parameters `{par[:120]}` (expected {side})", where=f"{b.file}:{ln}", sample=side)
    # make_counterparty_commitment_tx forwards its own arguments and derives keys from the given point
    b = p.fn(f"{CH}::make_counterparty_commitment_tx")
    fv = fnview(ctx, b)
    for bi, ln, c in R.call_blocks(fv, lambda n: n == f"{CH}::make_counterparty_commitment_tx_with_keys"):
        a = [render(peel(fv.expr(x))) for x in c.args[1:]]
        ok = a[1:] == ["commitment_number", "feerate_per_kw", "to_holder_value_sat", "to_counterparty_value_sat", "htlcs"] and \
            a[0].endswith("make_counterparty_tx_keys(self, remote_per_commitment_point)")
        ctx.ob("R4.4", ok, f"{b.name}/forwards", f"make_counterparty_commitment_tx forwards {a}", where=f"{b.file}:{ln}", sample=a)
    # tx keys roles
    # (by the source of each argument, not by the name of the local that carries it)
    HOLDER, CP = "pubkeys(self.keys)", "counterparty_pubkeys(self)"
    for fn, want in ((f"{CH}::make_counterparty_tx_keys", [CP, HOLDER]),
                     (f"{CH}::make_holder_tx_keys", [HOLDER, CP])):
        b = p.fn(fn)
        fv = fnview(ctx, b)
        for bi, ln, c in R.call_blocks(fv, lambda n: n == f"{CH}::make_tx_keys"):
            a = [render(strip_ref(fv.expr(x))) for x in c.args[2:4]]
            ok = len(a) == 2 and all(w in x for w, x in zip(want, a))
            ctx.ob("R4.4", ok, f"{fn}/key-roles", f"{fn} calls make_tx_keys(.., {[x[-60:] for x in a]}) (expected broadcaster <- {want[0]}, "
                   f"countersignatory <- {want[1]})", where=f"{b.file}:{ln}", sample=[x[-40:] for x in a])
    b = p.fn(f"{CH}::make_tx_keys")
    fv = fnview(ctx, b)
    dn = [d for n, dl in p.by_name.items() if n.endswith("TxCreationKeys::derive_new") for d in dl]
    for bi, ln, c in R.call_blocks(fv, lambda n: n.endswith("TxCreationKeys::derive_new")):
        a = [render(peel(fv.expr(x))) for x in c.args]
        want = ["self.secp_ctx", "per_commitment_point", "a_points.delayed_payment_basepoint", "a_points.htlc_basepoint",
                "b_points.revocation_basepoint", "b_points.htlc_basepoint"]
        ctx.ob("R4.4", a == want, f"{b.name}/derive-roles", f"derive_new({a})", where=f"{b.file}:{ln}", sample=a)
        if dn and dn[0].params:
            exp = ["secp_ctx", "per_commitment_point", "broadcaster_delayed_payment_base", "broadcaster_htlc_base",
                   "countersignatory_revocation_base", "countersignatory_htlc_base"]
            ctx.ob("R4.4", dn[0].params == exp, f"{b.name}/derive-signature", f"LDK derive_new parameters are {dn[0].params}",
                   where=f"{b.file}:{ln}", sample=dn[0].params)
    # make_channel_parameters
    b = p.fn(f"{CH}::make_channel_parameters")
    fv = fnview(ctx, b)
    want = {"holder_selected_contest_delay": "self.setup.holder_selected_contest_delay",
            "is_outbound_from_holder": "self.setup.is_outbound", "holder_pubkeys": "get_channel_basepoints(self)"}
    n = 0
    for bi in fv.live_blocks():
        for s in b.stmts(bi):
            if s.kind == "a" and s.rv.op == "agg" and isinstance(s.rv.a, tuple) and s.rv.a[0] == "adt":
                nm = s.rv.a[1].name
                if nm.rsplit("::", 1)[-1] == "ChannelTransactionParameters":
                    n += 1
                    vals = dict(zip(s.rv.a[3], s.rv.ops))
                    for f, w in want.items():
                        got = render(peel(fv.expr(vals[f])))
                        ctx.ob("R4.4", got.endswith(w), f"{b.name}/field/{f}", f"channel parameter {f} <- `{got[:80]}`",
                               where=f"{b.file}:{s.line}", sample=f"{f} <- {w}")
                    fo = render(fv.expr(vals["funding_outpoint"]))
                    ctx.ob("R4.4", "self.setup.funding_outpoint.txid" in fo and "self.setup.funding_outpoint.vout" in fo,
                           f"{b.name}/field/funding_outpoint", f"funding_outpoint <- `{fo[:120]}`", where=f"{b.file}:{s.line}")
                    cpp = render(fv.expr(vals["counterparty_parameters"]))
                    ok = "self.setup.counterparty_points" in cpp and "self.setup.counterparty_selected_contest_delay" in cpp
                    ctx.ob("R4.4", ok, f"{b.name}/field/counterparty_parameters", f"counterparty_parameters <- `{cpp[:160]}`",
                           where=f"{b.file}:{s.line}")
    ctx.floor("R4.4", "ChannelTransactionParameters literal", n, 1)
    # htlcs_info2_to_oic
    b = p.fn(f"{CH}::htlcs_info2_to_oic")
    fv = fnview(ctx, b)
    seen = {}
    for bi in fv.live_blocks():
        for s in b.stmts(bi):
            if s.kind == "a" and s.rv.op == "agg" and isinstance(s.rv.a, tuple) and s.rv.a[0] == "adt" and \
               s.rv.a[1].name.endswith("HTLCOutputInCommitment"):
                vals = dict(zip(s.rv.a[3], s.rv.ops))
                src = render(fv.expr(vals["cltv_expiry"]))
                which = "offered" if "offered_htlcs" in src else ("received" if "received_htlcs" in src else src)
                seen[which] = render(fv.expr(vals["offered"]))
                amt = render(fv.expr(vals["amount_msat"]))
                ctx.ob("R4.4", ("value_sat * 1000" in amt) and which + "_htlcs" in amt, f"{b.name}/{which}/amount",
                       f"{which} HTLC amount `{amt[:100]}`", where=f"{b.file}:{s.line}", sample="value_sat * 1000")
                ph = render(fv.expr(vals["payment_hash"]))
                ctx.ob("R4.4", which + "_htlcs" in ph and ph.endswith("payment_hash"), f"{b.name}/{which}/payment_hash",
                       f"{which} HTLC payment_hash `{ph[:100]}`", where=f"{b.file}:{s.line}")
    ctx.ob("R4.4", seen == {"offered": "true", "received": "false"}, f"{b.name}/offered-flag",
           f"htlcs_info2_to_oic sets offered flags {seen} (expected offered list -> true, received list -> false)",
           where=f"{b.file}:{b.line}", sample=seen)


def _named(fv, name):
    b = fv.b
    for l in range(len(b.local_tys)):
        if b.local_name(l) == name:
            e = fv.local_expr(l)
            return e[2] if e[0] == "let" else e
    return None


def r45(ctx):
    ctx.rule("R4.5", "wire HTLC -> validated content: every HTLCInfo2 the protocol handler builds from a request carries "
                     "amount_msat / 1000 (BOLT-3 truncation), the request's payment hash and expiry - the same on both sides")
    p = ctx.prog
    if not p.has_fn("vls_protocol_signer::handler::extract_htlcs"):
        if "vls_protocol_signer" in {b.d.krate for b in p.bodies.values()}:
            raise R.Broken("anchor missing: vls_protocol_signer::handler::extract_htlcs")
        return
    eb = p.fn("vls_protocol_signer::handler::extract_htlcs")
    n = 0
    shapes = set()
    for cb in [eb] + p.closures_of(eb):
        cv = fnview(ctx, cb, policy=False)
        for bb, bi, si, st in R.constructions(p, LS + "tx::tx::HTLCInfo2"):
            if bb is not cb:
                continue
            n += 1
            vals = dict(zip(st.rv.a[3], st.rv.ops))
            v = render(cv.expr(vals["value_sat"]))
            ok = v.endswith(".amount / 1000)") and v.count("/") == 1 and "+" not in v and "-" not in v.replace("->", "")
            ctx.ob("R4.5", ok, f"{eb.name}/{cb.name.rsplit('::', 1)[-1]}/value", f"HTLC value is `{v[:80]}` (BOLT-3: amount_msat / 1000, truncated): the "
                   f"commitment that is rebuilt and signed differs from the BOLT-3 transaction of the supplied content",
                   where=f"{cb.file}:{st.line}", sample=v[-30:])
            h = render(cv.expr(vals["payment_hash"]))
            e = render(cv.expr(vals["cltv_expiry"]))
            ctx.ob("R4.5", "payment_hash" in h and ("ctlv_expiry" in e or "cltv_expiry" in e), f"{eb.name}/{cb.name.rsplit('::', 1)[-1]}/hash-expiry",
                   f"HTLC hash `{h[:60]}` / expiry `{e[:60]}`", where=f"{cb.file}:{st.line}")
            shapes.add((v.split(".")[-1], h.split(".")[-2:][0] if "." in h else h, e.split(".")[-1]))
    ctx.floor("R4.5", "HTLCInfo2 literals in extract_htlcs", n, 2)
    ctx.ob("R4.5", len(shapes) == 1, f"{eb.name}/sides-agree", f"offered and received HTLCs are converted differently: {sorted(shapes)}",
           where=f"{eb.file}:{eb.line}", sample=sorted(shapes))


def r46(ctx):
    ctx.rule("R4.6", "decoder bounds vs policy bounds: the to_broadcaster script decoder accepts every contest delay the "
                     "built-in policies admit (else the raw entry refuses canonical transactions the semantic entry signs)")
    p = ctx.prog
    consts = {"max_delay": [], "min_delay": []}
    for bb, bi, si, st in R.constructions(p, LS + "policy::simple_validator::SimplePolicy"):
        if R.is_test_util(bb.name) or not bb.name.endswith("make_default_simple_policy"):
            continue
        v = dict(zip(st.rv.a[3], st.rv.ops))
        bv = fnview(ctx, bb)
        for f in consts:
            e = bv.expr(v[f])
            if e[0] == "int":
                consts[f].append(e[1])
    ctx.floor("R4.6", "built-in policy delay bounds", min(len(consts["max_delay"]), len(consts["min_delay"])), 2)
    b = p.fn(LS + "tx::tx::CommitmentInfo::handle_to_broadcaster_output")
    ctx.touch(b)
    fv = fnview(ctx, b).named()
    atoms._require_named_symbols(fv, [atoms.parse_atom("delay == 0")]) if hasattr(atoms, "_require_named_symbols") else None
    for what, K in (("largest max_delay", max(consts["max_delay"])), ("smallest min_delay", min(consts["min_delay"]))):
        assum = [atoms.parse_atom(f"delay == {K}")]
        cut = atoms.scenario_cut(fv, assum)
        live = fv.reach(0, cut_edges=cut)
        ok = any(R.site_block(s_) in live for s_ in fv.success_sites())
        ctx.ob("R4.6", ok, f"{b.name}/admits/{what.split()[1]}",
               f"the commitment script decoder refuses a to_self delay of {K}, the {what} of the built-in policies: a channel "
               f"set up with that delay is signed through the semantic entry while the raw entry rejects its canonical transaction",
               where=f"{b.file}:{b.line}", sample=f"delay == {K} can be decoded")


def r47(ctx):
    ctx.rule("R4.7", "estimate_feerate_per_kw(fee, weight) = (fee * 1000 + 999) / weight: the highest fee rate that gives rise "
                     "to the fee (used to rebuild the canonical HTLC transaction on the raw entry and for fee-range checks)")
    p = ctx.prog
    b = p.fn(LS + "util::transaction_utils::estimate_feerate_per_kw")
    ctx.touch(b)
    fv = fnview(ctx, b, policy=False)
    pf, pw = b.local_name(1), b.local_name(2)
    found = None
    for l in range(len(b.local_tys)):
        e = fv.local_expr(l)
        for x in subexprs(e):
            if x[0] == "/" and found is None:
                num, den = atoms.linear(x[1]), strip_ref(x[2])
                found = (num, den, x)
    ok = False
    if found:
        num, den, x = found
        coeff = {str(k[0]): v for k, v in num[0].items()}
        ok = coeff == {pf: 1000} and num[1] == 999 and den[0] == "param" and den[1] == pw
    ctx.ob("R4.7", ok, f"{b.name}/formula", f"estimate_feerate_per_kw computes `{render(found[2])[:120] if found else '?'}` (expected "
           f"({pf} * 1000 + 999) / {pw})", where=f"{b.file}:{b.line}", sample="(fee * 1000 + 999) / weight")


def r48(ctx):
    ctx.rule("R4.8", "a TypedSignature's sighash type travels with its signature: every function outside vls-core that reads "
                     "`.sig` of a TypedSignature also reads `.typ` of the same value (or hands the whole value on)")
    p = ctx.prog
    TS = "channel::TypedSignature"
    sig_reads, typ_reads = {}, {}
    for b, bi, si, st in R.field_reads(p, TS, "sig"):
        sig_reads.setdefault(b.name, []).append((b, st))
    for b, bi, si, st in R.field_reads(p, TS, "typ"):
        typ_reads.setdefault(b.name, []).append((b, st))
    n = 0
    for fn, lst in sorted(sig_reads.items()):
        b = lst[0][0]
        if b.d.krate == "lightning_signer" or R.is_test_util(fn) or (b.mac and "derive" in b.mac):
            continue
        n += 1
        ctx.touch(b)
        ctx.ob("R4.8", fn in typ_reads, f"{fn}/sighash-type-kept",
               f"`{fn}` takes the raw signature out of a TypedSignature (line {getattr(lst[0][1], 'line', 0)}) and drops its sighash "
               "type: the reply labels the signature with a fixed type, so for an anchor channel's SINGLE|ANYONECANPAY HTLC "
               "signature the returned (signature, sighash) pair does not verify against the BOLT-3 transaction",
               where=f"{b.file}:{getattr(lst[0][1], 'line', 0)}", sample=".sig and .typ read together")
    ctx.floor("R4.8", "protocol-layer functions that unpack a TypedSignature", n, 2)


def r49(ctx):
    """every signature is made "under the channel's own funding or HTLC key": the key material behind
    `self.keys` is the same before and after a restart.  Same obligations as C18 R18.2 (argument roles of
    InMemorySigner::new) and C18 R18.3 (creation and restore derive from the initial channel id, the persister returns it
    under the storage key), evaluated here because a restored channel that signs with other keys returns signatures that
    verify against no BOLT-3 transaction of this channel."""
    from rules import C18 as _c18
    from engine import report as _report
    v = _report.renamed(ctx, {"R18.2": "R4.9", "R18.3": "R4.9"})
    _c18.r182(v)
    _c18.r183(v)

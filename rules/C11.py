"""C11 — every acknowledged state change is already durable."""
from engine import rulelib as R
from engine import effects
from engine.rulelib import fnview
from engine.cfg import render, strip_ref, peel, subexprs

CRATES = ["lightning_signer", "vls_protocol_signer", "vls_persist"]
LS = "lightning_signer::"
VP = "vls_persist::"

CLAIM = {
    "text": "Decides the per-path obligation behind C11: (R11.1, engine E6) for every public method of Channel and Node "
            "and the handler's block add/remove arms, each mutation of a durable class (channel: EnforcementState incl. "
            "the secret store, setup, id; node: approved invoices and dbid_high_water_mark; allowlist; tracker: "
            "headers/tip/height/listeners and the monitors' State) is followed, on every path to a success return, by "
            "the successful completion of the persister call that stores that class (update_channel / Channel::persist, "
            "update_node, update_node_allowlist, update_tracker), directly or inside a callee that always persists; "
            "`dirty`-flag idioms are resolved, values owned by the function are not state; (R11.2) persist/restore "
            "agreement: no serde(skip) on persisted state types other than the documented one, NodeStateEntry / "
            "ChannelEntry / ChainTrackerEntry are filled from the same-named live fields and restored into the "
            "same-named slots (argument positions checked against parameter names), and the restored "
            "EnforcementState is installed unmodified; (R11.3) BackupPersister forwards every write to main (when "
            "ready, error propagated) and to backup with the same arguments and reads from exactly one side; "
            "(R11.4) no change of the in-memory allowlist can be followed by a refusal (running == restorable also on "
            "error returns; the other durable classes are C10 R10.1); (R11.5) writer, deleter and readers of each stored class in "
            "KVVPersister build the storage key from the same prefix constant, the node id and - for channels - the "
            "channel's initial id (id0 of the stub / of the channel, the id the restore path looks up and parses back), and "
            "the prefixes of different classes differ; (R11.6) every write transaction of the on-disk store is committed with redb's "
            "default (immediate) durability: no set_durability call lowers it, so a write that was acknowledged has been synced; (R11.7) transactional (cloud-staged) store: what a request's "
            "transaction reported in prepare is exactly what commit applies to the local store - the whole commit log, deletes "
            "(tombstones) included - and nothing else writes the local store (same obligations as C16 R16.3); (R11.8) `the same ... channel monitors`: the "
            "restart re-registers every ready channel's monitor with the stored state and ListenSlot as one value - no freshly built "
            "monitor or slot on the restore path (same obligations as C14 R14.9) - and the stored tracker entry holds every "
            "listener of the live tracker (R11.2: no dropping adaptor). Does not decide value equality after a JSON round trip nor the cloud prepare/commit window (C16).",
    "note": "storage layer below Persist trusted; serde derive honours attributes; CHA for dyn Persist",
    "technique": "static analysis: persist-before-acknowledge dataflow (mutation summaries + must-pass persister completion) "
                 "+ persist/restore sibling agreement",
}

CLASSES = effects.Classes({
    "channel": [("validator::EnforcementState", None), ("validator::CounterpartyCommitmentSecrets", None),
                ("channel::Channel", "setup"), ("channel::Channel", "id")],
    "node": [("node::NodeState", "invoices"), ("node::NodeState", "dbid_high_water_mark")],
    "allowlist": [("node::NodeState", "allowlist")],
    "tracker": [("tracker::ChainTracker", f) for f in ("headers", "tip", "height", "listeners")]
    + [("tracker::ListenSlot", None), ("monitor::State", None), ("monitor::ClosingOutpoints", None)],
})


def P(*names):
    return lambda n: any(n == LS + "persist::Persist::" + x or n.endswith("persist::Persist>::" + x) for x in names)


PERSISTERS = {
    "channel": lambda n: n == LS + "channel::Channel::persist" or P("update_channel", "new_channel")(n),
    "node": P("update_node", "new_node"),
    "allowlist": P("update_node_allowlist", "new_node"),
    "tracker": P("update_tracker", "new_tracker"),
}

# (function, class) -> reason
EXCEPTIONS = {
    (LS + "channel::Channel::funding_signed", "tracker"):
        "not a request entry point: called only by Node::unchecked_sign_onchain_tx, which holds the tracker and writes it "
        "(update_tracker) after the last channel was told; the obligation is checked on that caller",
}
NOT_REQUESTS = ("::new", "::new_from_persistence", "::restore_node", "::restore_nodes", "::new_extended",
                "::update_velocity_controls", "::new_full")


def run(ctx):
    ctx.explanation = CLAIM["text"]
    ctx.not_decided = "value equality after serialization round trip; the cloud prepare/commit window (C16)"
    r111(ctx)
    r112(ctx)
    r113(ctx)
    r114(ctx)
    r115(ctx)
    r116(ctx)
    r117(ctx)
    r118(ctx)


def r111(ctx, classes=None):
    ctx.rule("R11.1", "persist-before-acknowledge: every success return reachable from a mutation of a durable class "
                      "passes, after the mutation, the completion of that class's persister call")
    p = ctx.prog
    eff = effects.Effects(ctx, CLASSES)
    du = effects.Durability(ctx, eff, PERSISTERS, exceptions=set(),
                            storage_pred=lambda n: any(f(n) for f in PERSISTERS.values()))
    eps = []
    for b in p.bodies.values():
        if b.d.kind != "AssocFn" or not b.d.pub:
            continue
        on = b.name
        if b.d.krate == "lightning_signer" and ("::channel::Channel" in on or "::node::Node::" in on
                                                or "node::NodeMonitor>::" in on):
            if R.is_test_util(on) or on.endswith(NOT_REQUESTS):
                continue
            eps.append(b)
    # handler arms mutate the tracker through the guard they hold
    for b in p.bodies.values():
        if b.d.krate == "vls_protocol_signer" and b.name.endswith("Handler>::do_handle"):
            eps.append(b)
    ctx.floor("R11.1", "entry points", len(eps), 60)
    n_mut = 0
    for b in sorted(eps, key=lambda x: x.name):
        for cls in PERSISTERS:
            if cls not in eff.summary(b) or (classes is not None and cls not in classes):
                continue
            n_mut += 1
            lk = du.leaks(b, cls)
            if (b.name, cls) in EXCEPTIONS and lk:
                ctx.sample("R11.1", f"{b.name}/{cls}", f"{b.file}:{b.line}", "exception: " + EXCEPTIONS[(b.name, cls)])
                continue
            if not lk:
                ctx.ob("R11.1", True, f"{b.name}/{cls}/durable", "", where=f"{b.file}:{b.line}",
                       sample=f"all mutations of `{cls}` are persisted before every success return")
                continue
            seen = set()
            epnames = {x.name for x in eps}
            for (bi, desc, ln), r in lk:
                if desc.startswith("call ") and desc.split()[1] in epnames:
                    continue        # reported at the callee, which is itself an entry point
                tag = desc.split("(")[0].replace("call ", "").rsplit("::", 1)[-1].replace(" ", "_")
                if (tag) in seen:
                    continue
                seen.add(tag)
                ctx.ob("R11.1", False, f"{b.name}/{cls}/{tag}/not-persisted",
                       f"`{b.name}` changes durable state `{cls}` ({desc}, line {ln}) and can return success (line "
                       f"{r['line']}) without persisting it: a crash after the reply loses an acknowledged change",
                       where=f"{b.file}:{ln}")
    ctx.floor("R11.1", "(entry point, class) pairs with mutations", n_mut, 25 if classes is None else {"channel": 12, "node": 5}.get("+".join(sorted(classes)), 1))
    # Channel::persist really stores the channel
    cp = p.fn(LS + "channel::Channel::persist")
    fv = fnview(ctx, cp)
    R.must_pass_guard(ctx, "R11.1", cp, R.success_blocks(fv), P("update_channel"), "Persist::update_channel",
                      "Ok return of Channel::persist", depth=0)
    for bi, ln, c in R.call_blocks(fv, P("update_channel")):
        e = fv.expr(c.args[2])
        ctx.ob("R11.1", render(peel(e)) == "self", f"{cp.name}/stores-self",
               f"Channel::persist stores `{render(e)[:80]}`, not this channel", where=f"{cp.file}:{ln}")
    if classes is not None and "allowlist" not in classes:
        return
    # Node::update_allowlist stores the live allowlist
    ua = p.fn(LS + "node::Node::update_allowlist")
    uv = fnview(ctx, ua)
    R.must_pass_guard(ctx, "R11.1", ua, R.success_blocks(uv), P("update_node_allowlist"),
                      "Persist::update_node_allowlist", "Ok return of update_allowlist", depth=0)
    for bi, ln, c in R.call_blocks(uv, P("update_node_allowlist")):
        e = uv.expr(c.args[2])
        ctx.ob("R11.1", R.mentions_field(e, "NodeState", "allowlist"), f"{ua.name}/stores-live-allowlist",
               f"update_allowlist stores `{render(e)[:100]}`", where=f"{ua.file}:{ln}")


def r112(ctx):
    ctx.rule("R11.2", "persist/restore agreement: no skipped fields; entries filled from and restored into the "
                      "same-named slots; restored EnforcementState installed unmodified")
    p = ctx.prog
    skip_ok = {("lightning_signer::monitor::State", "channel_id"): "documented: re-populated by new_from_persistence"}
    types = [LS + "policy::validator::EnforcementState", LS + "tx::tx::CommitmentInfo2", LS + "tx::tx::HTLCInfo2",
             LS + "policy::validator::CounterpartyCommitmentSecrets", LS + "channel::ChannelSetup",
             LS + "monitor::State", LS + "monitor::ClosingOutpoints", LS + "chain::tracker::ListenSlot",
             LS + "policy::validator::CommitmentSignatures", LS + "node::PaymentState",
             VP + "model::NodeStateEntry", VP + "model::ChannelEntry", VP + "model::ChainTrackerEntry",
             VP + "model::VelocityControl", VP + "model::AllowlistItemEntry"]
    for t in types:
        adt = p.adt(t)
        der = " ".join(adt["attrs"])
        for v in adt["variants"]:
            for f in v["fields"]:
                sk = [a for a in f["attrs"] if "serde" in a and ("skip" in a)]
                ok = not sk or (t, f["name"]) in skip_ok
                ctx.ob("R11.2", ok, f"{t}/{f['name']}/serialized",
                       f"persisted type {t} skips field `{f['name']}` ({sk}): the value is lost on restart",
                       where=f"line {f['line']}", sample=skip_ok.get((t, f["name"])))
    # NodeStateEntry::from(&NodeState)
    fb = p.fn(f"<{VP}model::NodeStateEntry as std::convert::From<&{LS}node::NodeState>>::from")
    fv = fnview(ctx, fb)
    want = {"invoices": "invoices", "issued_invoices": "issued_invoices", "velocity_control": "velocity_control",
            "fee_velocity_control": "fee_velocity_control", "dbid_high_water_mark": "dbid_high_water_mark",
            "preimages": "payments"}
    _agg_from(ctx, fb, fv, VP + "model::NodeStateEntry", want, "NodeState")
    # update_channel
    for b in p.bodies.values():
        if b.d.krate == "vls_persist" and b.name.endswith("Persist>::update_channel") and "KVVPersister" in b.name:
            bv = fnview(ctx, b)
            _agg_from(ctx, b, bv, VP + "model::ChannelEntry",
                      {"enforcement_state": "enforcement_state", "channel_setup": "setup", "id": "id",
                       "channel_value_satoshis": "channel_value_sat"}, "Channel")
    # ChannelEntry -> CoreChannelEntry
    cb = p.fn(f"{VP}model::<impl std::convert::From<{VP}model::ChannelEntry> for {LS}persist::model::ChannelEntry>::from")
    _agg_from(ctx, cb, fnview(ctx, cb), LS + "persist::model::ChannelEntry",
              {k: k for k in ("channel_value_satoshis", "channel_setup", "id", "enforcement_state", "blockheight")},
              "ChannelEntry")
    # tracker entry
    tb = p.fn(f"<{VP}model::ChainTrackerEntry as std::convert::From<&{LS}chain::tracker::ChainTracker<{LS}monitor::ChainMonitor>>>::from")
    _agg_from(ctx, tb, fnview(ctx, tb), VP + "model::ChainTrackerEntry",
              {"headers": "headers", "tip": "tip", "height": "height", "network": "network", "listeners": "listeners"},
              "ChainTracker")
    # into_tracker: positions of ChainTracker::restore
    ib = p.fn(VP + "model::ChainTrackerEntry::into_tracker")
    iv = fnview(ctx, ib)
    rs = R.call_blocks(iv, lambda n: n.endswith("ChainTracker::<L>::restore"))
    ctx.floor("R11.2", "ChainTracker::restore call", len(rs), 1)
    rb = [b for b in p.bodies.values() if b.name.endswith("chain::tracker::ChainTracker::<L>::restore")]
    pn = [rb[0].local_name(i + 1) for i in range(rb[0].argc)] if rb else []
    for bi, ln, c in rs:
        for fld in ("headers", "tip", "height", "network"):
            if fld not in pn:
                continue
            e = iv.expr(c.args[pn.index(fld)])
            ok = any(x[0] == "field" and x[3] == fld and x[2].endswith("ChainTrackerEntry") for x in subexprs(e)) \
                or render(peel(e)) == fld
            ctx.ob("R11.2", ok, f"{ib.name}/restore-arg/{fld}",
                   f"into_tracker passes `{render(e)[:100]}` as ChainTracker::restore's {fld}", where=f"{ib.file}:{ln}",
                   sample=f"{fld} <- entry.{fld}")
    # restore() itself fills same-named slots
    if rb:
        _agg_from(ctx, rb[0], fnview(ctx, rb[0]), LS + "chain::tracker::ChainTracker",
                  {k: k for k in ("headers", "tip", "height", "network", "listeners")}, None, params=True)
    # get_nodes -> NodeState::restore argument positions
    rst = p.fn(LS + "node::NodeState::restore")
    pnames = [rst.local_name(i + 1) for i in range(rst.argc)]
    for g in [b for b in p.bodies.values() if b.d.krate == "vls_persist" and b.name.endswith("::get_nodes")
              and "KVVPersister" in b.name]:
        gv = fnview(ctx, g)
        for bi, ln, c in R.call_blocks(gv, lambda n: n == LS + "node::NodeState::restore"):
            for fld, src in (("invoices_v", "invoices"), ("issued_invoices_v", "issued_invoices"),
                             ("preimages", "preimages"), ("dbid_high_water_mark", "dbid_high_water_mark")):
                e = gv.expr(c.args[pnames.index(fld)])
                ok = any(x[0] == "field" and x[3] == src for x in subexprs(e))
                ctx.ob("R11.2", ok, f"{g.name}/restore-arg/{fld}",
                       f"get_nodes passes `{render(e)[:100]}` as NodeState::restore's {fld}", where=f"{g.file}:{ln}",
                       sample=f"{fld} <- state_entry.{src}")
    # NodeState::restore: slots
    rv = fnview(ctx, rst)
    for bb, bi, si, s in R.constructions(p, LS + "node::NodeState"):
        if bb is not rst:
            continue
        vals = dict(zip(s.rv.a[3], s.rv.ops))
        for fld, src in (("invoices", "invoices_v"), ("issued_invoices", "issued_invoices_v"),
                         ("payments", "preimages"), ("dbid_high_water_mark", "dbid_high_water_mark"),
                         ("allowlist", "allowlist")):
            e = rv.expr(vals[fld])
            ctx.ob("R11.2", R.mentions_param(e, src), f"{rst.name}/slot/{fld}",
                   f"NodeState::restore fills {fld} from `{render(e)[:100]}`", where=f"{rst.file}:{s.line}",
                   sample=f"{fld} <- {src}")
    # restore_node installs the allowlist read from the store into the restored state, on every path to the node
    rn = p.fn(LS + "node::Node::restore_node")
    rnv = fnview(ctx, rn)
    aw = [(bi, idx, obj) for (bb, bi, idx, obj) in R.field_writes(p, "NodeState", "allowlist") if bb is rn]
    ctx.ob("R11.2", len(aw) >= 1, f"{rn.name}/installs-allowlist",
           "restore_node does not install the persisted allowlist into the restored node state: the restarted signer "
           "has an empty (or the encoded default) allowlist", where=f"{rn.file}:{rn.line}", sample="state.allowlist <- get_node_allowlist")
    for bi, idx, obj in aw:
        e = rnv._call_expr(obj, 0) if idx == "T" else (rnv.expr(obj.rv.ops[0]) if obj.rv.ops else ("opaque", "?"))
        ctx.ob("R11.2", R.mentions_call(e, "get_node_allowlist"), f"{rn.name}/allowlist-source",
               f"restore_node sets the allowlist from `{render(e)[:120]}` (expected Persist::get_node_allowlist)",
               where=f"{rn.file}:{obj.line}", sample="allowlist <- persister.get_node_allowlist(node_id)")
    wb = {bi for bi, _, _ in aw}
    for bi, ln, c in R.call_blocks(rnv, lambda n: n == LS + "node::Node::new_from_persistence"):
        ctx.ob("R11.2", bool(wb) and bi not in rnv.reach(0, cut_nodes=wb), f"{rn.name}/allowlist-before-node",
               "restore_node can build the node without having installed the persisted allowlist", where=f"{rn.file}:{ln}",
               sample="new_from_persistence dominated by the allowlist assignment")
    # new_from_persistence installs the stored enforcement state / setup / id unmodified
    nb = p.fn(LS + "node::Node::new_from_persistence")
    bodies = [nb] + p.closures_of(nb)
    n = 0
    for b in bodies:
        bv = fnview(ctx, b)
        for bb, bi, si, s in R.constructions(p, LS + "channel::Channel"):
            if bb is not b:
                continue
            n += 1
            vals = dict(zip(s.rv.a[3], s.rv.ops))
            for fld, src in (("enforcement_state", "enforcement_state"), ("setup", "channel_setup"), ("id", "id")):
                e = bv.expr(vals[fld])
                ok = any(x[0] == "field" and x[3] == src and x[2].endswith("model::ChannelEntry") for x in subexprs(e))
                ctx.ob("R11.2", ok, f"{nb.name}/installs/{fld}",
                       f"new_from_persistence builds Channel.{fld} from `{render(e)[:120]}`, not from the stored entry",
                       where=f"{b.file}:{s.line}", sample=f"Channel.{fld} <- entry.{src}")
    ctx.floor("R11.2", "Channel literal in new_from_persistence", n, 1)


# (entry type, field) -> why a partial image of the source is the whole information
_PARTIAL_OK = {("NodeStateEntry", "preimages"): "a projection, not a subset: the preimage of every payment that has one (filter_map over "
                                               "Option<preimage>); payments without a preimage have nothing to store in this field"}
_DROPPING = ("::filter(", "::filter_map(", "::skip(", "::take(", "::step_by(", "::skip_while(", "::take_while(", "::retain(")


def _agg_from(ctx, b, fv, adt_name, want, src_owner, params=False):
    """the aggregate `adt_name` built in b fills each field in `want` from the source field/param of that name"""
    n = 0
    for bb, bi, si, s in R.constructions(ctx.prog, adt_name):
        if bb is not b:
            continue
        n += 1
        vals = dict(zip(s.rv.a[3], s.rv.ops))
        for fld, src in want.items():
            if fld not in vals:
                ctx.ob("R11.2", False, f"{b.name}/slot/{fld}", f"{adt_name} has no field {fld}", where=f"{b.file}:{s.line}")
                continue
            e = fv.expr(vals[fld])
            if params:
                ok = R.mentions_param(e, src)
            else:
                ok = any(x[0] == "field" and x[3] == src for x in subexprs(e)) or \
                    any(x[0] == "call" and x[1].endswith("::" + src) for x in subexprs(e))
            ctx.ob("R11.2", ok, f"{b.name}/slot/{fld}",
                   f"`{b.name}` fills {adt_name.rsplit('::', 1)[-1]}.{fld} from `{render(e)[:100]}` (expected {src})",
                   where=f"{b.file}:{s.line}", sample=f"{fld} <- {src}")
            # a stored collection is the whole live collection: built with map / cloned / collect, never with an adaptor
            # that drops elements
            txt = render(e)
            dropped = [d_ for d_ in _DROPPING if d_ in txt]
            if (adt_name.rsplit("::", 1)[-1], fld) in _PARTIAL_OK:
                dropped = []
            ctx.ob("R11.2", not dropped, f"{b.name}/slot/{fld}/whole",
                   f"`{b.name}` stores only part of {src} in {adt_name.rsplit('::', 1)[-1]}.{fld} (built with {dropped}): the "
                   "entries left out are missing after a restart (a monitor, a listener, an invoice the running signer still has)",
                   where=f"{b.file}:{s.line}", sample=f"{fld} <- all of {src}")
    ctx.floor("R11.2", f"{adt_name} literal in {b.name[-50:]}", n, 1)


def r113(ctx):
    ctx.rule("R11.3", "BackupPersister: each write forwards to main (if ready, error propagated) and to backup with the "
                      "same arguments; each read uses exactly one side chosen by main_is_ready")
    p = ctx.prog
    writes = ["new_node", "update_node", "delete_node", "new_channel", "delete_channel", "new_tracker",
              "update_tracker", "update_channel", "update_node_allowlist"]
    reads = ["get_tracker", "get_channel", "get_node_channels", "get_node_allowlist", "get_nodes"]
    pref = "<vls_persist::backup_persister::BackupPersister<M, B> as lightning_signer::persist::Persist>::"
    for m in writes + reads:
        b = p.fn(pref + m)
        fv = fnview(ctx, b)
        calls = [(bi, c) for bi, c in b.calls() if c.decl is not None and c.decl.name == LS + "persist::Persist::" + m]
        sides = {}
        for bi, c in calls:
            recv = render(peel(fv.expr(c.args[0])))
            side = "main" if recv.endswith(".main") else ("backup" if recv.endswith(".backup") else recv)
            sides.setdefault(side, []).append((bi, c))
        if m in writes:
            ok = set(sides) == {"main", "backup"}
            ctx.ob("R11.3", ok, f"{m}/forwards-both", f"BackupPersister::{m} forwards to {sorted(sides)} (expected main and backup)",
                   where=f"{b.file}:{b.line}", sample=sorted(sides))
            if not ok:
                continue
            # backup write on every success path; main error propagated; same arguments
            be = set()
            for bi, c in sides["backup"]:
                es = fv.result_edges(bi, c, "ok")
                be |= es
                # tail call: the backup result *is* the return value
            tail = any(r.get("call") is c for r in fv.return_sites() for _, c in sides["backup"])
            for sb, ln in R.success_blocks(fv):
                ctx.ob("R11.3", tail or (fv.must_pass(sb, be) and bool(be)), f"{m}/backup-on-success",
                       f"BackupPersister::{m} can report success without having written the backup",
                       where=f"{b.file}:{ln}", sample="success implies backup write")
            for bi, c in sides["main"]:
                ctx.ob("R11.3", bool(fv.result_edges(bi, c, "err")), f"{m}/main-error-propagated",
                       f"BackupPersister::{m} ignores a failure of the main persister", where=f"{b.file}:{c.line}")
            a_main = [render(peel(fv.expr(a))) for a in sides["main"][0][1].args[1:]]
            a_back = [render(peel(fv.expr(a))) for a in sides["backup"][0][1].args[1:]]
            pn = [b.local_name(i + 1) for i in range(1, b.argc)]
            ctx.ob("R11.3", a_main == a_back == pn, f"{m}/same-arguments",
                   f"BackupPersister::{m} passes {a_main} to main and {a_back} to backup (parameters {pn})",
                   where=f"{b.file}:{b.line}", sample=pn)
        else:
            ok = set(sides) == {"main", "backup"} and all(len(v) == 1 for v in sides.values())
            ctx.ob("R11.3", ok, f"{m}/reads-one-side", f"BackupPersister::{m} reads from {sorted(sides)}",
                   where=f"{b.file}:{b.line}", sample=sorted(sides))
            if ok:
                mb, bb_ = sides["main"][0][0], sides["backup"][0][0]
                ctx.ob("R11.3", not fv.reaches(mb, bb_) and not fv.reaches(bb_, mb), f"{m}/reads-exclusive",
                       f"BackupPersister::{m} can consult both persisters in one call", where=f"{b.file}:{b.line}",
                       sample="main and backup reads on exclusive branches")


def r114(ctx):
    ctx.rule("R11.4", "a refused request leaves the running allowlist equal to the stored one: no change of "
                      "NodeState.allowlist can be followed by a refusal (other durable classes: C10 R10.1)")
    p = ctx.prog
    cl = effects.Classes({"allowlist": [("node::NodeState", "allowlist")]})
    eff = effects.Effects(ctx, cl)
    storage = lambda n: any(f(n) for f in PERSISTERS.values())
    n = 0
    for b in sorted(p.bodies.values(), key=lambda x: x.name):
        if b.d.kind != "AssocFn" or not b.d.pub or b.d.krate != "lightning_signer" or "::node::Node::" not in b.name:
            continue
        if R.is_test_util(b.name) or b.name.endswith(NOT_REQUESTS) or "Result<" not in b.local_tys[0]:
            continue
        if "allowlist" not in eff.summary(b):
            continue
        n += 1
        pairs = effects.e5_pairs(ctx, eff, b, storage)
        if not pairs:
            ctx.ob("R11.4", True, f"{b.name}/allowlist/atomic", "", where=f"{b.file}:{b.line}",
                   sample="no allowlist change can be followed by a refusal")
            continue
        seen = set()
        for (bi, cs, desc, ln), x in pairs:
            tag = desc.split("(")[0].replace("call ", "").rsplit("::", 1)[-1].replace(" ", "_")
            if tag in seen:
                continue
            seen.add(tag)
            ctx.ob("R11.4", False, f"{b.name}/allowlist/{tag}/then-refusal",
                   f"`{b.name}` changes the in-memory allowlist ({desc}, line {ln}) and can still refuse the request "
                   f"(error exit at line {x['line']}) before persisting: the running signer's allowlist then differs from "
                   f"what a restart restores", where=f"{b.file}:{ln}")
    ctx.floor("R11.4", "Node methods changing the allowlist", n, 3)


# ---------------------------------------------------------------------------- R11.5 storage keys agree
KEY_CLASS = {
    # method of `impl Persist for KVVPersister` -> (class, role, what the last key component must be built from)
    "new_channel": ("channel", "write", "field:id0"), "update_channel": ("channel", "write", "field:id0"),
    "delete_channel": ("channel", "write", "param:channel_id"), "get_channel": ("channel", "read", "param:channel_id"),
    "get_node_channels": ("channel", "scan", None),
    "new_node": ("node-entry", "write", None), "update_node": ("node-state", "write", None),
    "get_nodes": ("node-state", "read", None),
    "update_tracker": ("tracker", "write", None), "get_tracker": ("tracker", "read", None),
    "update_node_allowlist": ("allowlist", "write", None), "get_node_allowlist": ("allowlist", "read", None),
}


def r115(ctx):
    ctx.rule("R11.5", "KVVPersister: the key a class is written under is the key it is deleted and read back under "
                      "(same prefix constant, node id, and for channels the initial id id0)")
    p = ctx.prog
    seen = {}
    nsites = 0
    for b in sorted(p.bodies.values(), key=lambda x: x.name):
        if b.d.krate != "vls_persist" or "KVVPersister" not in b.name or "{closure" in b.name or "Persist>::" not in b.name:
            continue
        m = b.name.rsplit("::", 1)[-1]
        fv = fnview(ctx, b, policy=False)
        calls = R.call_blocks(fv, lambda n: n.endswith("kvv::make_key") or n.endswith("kvv::make_key2"))
        if m not in KEY_CLASS:
            # delete_node and any new method: every key it builds must use a prefix some table row knows (checked below)
            for bi, ln, c in calls:
                seen.setdefault(("other", m), []).append((render(fv.expr(c.args[0])), b, ln))
            continue
        cls, role, last = KEY_CLASS[m]
        ctx.ob("R11.5", len(calls) >= 1, f"{m}/builds-key", f"KVVPersister::{m} no longer builds its storage key with make_key/make_key2",
               where=f"{b.file}:{b.line}")
        for bi, ln, c in calls:
            nsites += 1
            args = [render(fv.expr(a)) for a in c.args]
            seen.setdefault((cls, m), []).append((args[0], b, ln))
            if m != "get_nodes":
                ctx.ob("R11.5", "node_id" in args[1], f"{m}/node-component",
                       f"KVVPersister::{m} builds its key from `{args[1][:80]}` instead of the node id", where=f"{b.file}:{ln}",
                       sample=args[1][:60])
            if last and len(args) >= 3:
                kind, nm = last.split(":")
                e = fv.expr(c.args[2])
                from engine.cfg import subexprs
                subs = list(subexprs(e))
                if kind == "field":
                    # `<param>.id0` handed to as_slice: a field read of id0, and no call in between (id() picks the permanent id)
                    ok = any(x[0] == "field" and str(x[-1]).endswith("id0") for x in subs) or args[2].rstrip(")").endswith(".id0")
                    ok = ok and not any(x[0] == "call" and not x[1].endswith("::as_slice") and not x[1].endswith("::deref")
                                        and not x[1].endswith("::as_ref") for x in subs)
                else:
                    ok = any(x[0] == "param" and x[1] == nm for x in subs) and \
                        not any(x[0] == "call" and not x[1].endswith("::as_slice") and not x[1].endswith("::deref") for x in subs)
                ctx.ob("R11.5", ok, f"{m}/channel-component",
                       f"KVVPersister::{m} keys the channel entry by `{args[2][:100]}` (expected the initial channel id "
                       f"{'`.id0`' if kind == 'field' else 'given by the caller'}): the entry is written under a key the restore "
                       "path and the sibling methods do not use, so a restart finds a stale or missing channel",
                       where=f"{b.file}:{ln}", sample=args[2][:80])
    ctx.floor("R11.5", "storage keys built in KVVPersister's Persist methods", nsites, 12)
    # per class: one prefix
    by_cls = {}
    for (cls, m), lst in seen.items():
        for pre, b, ln in lst:
            by_cls.setdefault(cls, {}).setdefault(pre, []).append((m, b, ln))
    for cls, pres in sorted(by_cls.items()):
        if cls == "other":
            known = {pre for c2, d in by_cls.items() if c2 != "other" for pre in d}
            for pre, lst in pres.items():
                for m, b, ln in lst:
                    ctx.ob("R11.5", pre in known, f"{m}/prefix-known",
                           f"KVVPersister::{m} uses the key prefix {pre}, which no writer/reader pair uses", where=f"{b.file}:{ln}")
            continue
        ctx.ob("R11.5", len(pres) == 1, f"class/{cls}/one-prefix",
               f"the {cls} entry is written, deleted and read under different key prefixes: "
               f"{ {pre: sorted({m for m, _, _ in lst}) for pre, lst in pres.items()} }",
               where="vls-persist/src/kvv.rs", sample=f"{cls}: {sorted(pres)}")
    firsts = {cls: sorted(pres)[0] for cls, pres in by_cls.items() if cls != "other" and pres}
    ctx.ob("R11.5", len(set(firsts.values())) == len(firsts), "classes/distinct-prefixes",
           f"two stored classes share a key prefix: {firsts}", where="vls-persist/src/kvv.rs", sample=str(firsts))


def r116(ctx, rid="R11.6"):
    ctx.rule(rid, "the on-disk store never lowers a write transaction's durability: every redb write transaction is committed "
                  "with the default (immediate) durability; `set_durability` is called, if at all, with Durability::Immediate "
                  "(an acknowledged put must survive a crash of the process, not only an orderly close)")
    p = ctx.prog
    n_tx = 0
    for b in sorted(p.bodies.values(), key=lambda x: x.name):
        if b.d.krate != "vls_persist":
            continue
        fv = None
        for bi, c in b.calls():
            nm = c.callee.name if c.callee else ""
            last = nm.rsplit("::", 1)[-1]
            if last == "begin_write" and "redb" in nm:
                n_tx += 1
                ctx.touch(b)
            if last == "set_durability":
                fv = fv or fnview(ctx, b, policy=False)
                arg = render(fv.expr(c.args[-1])) if c.args else ""
                ctx.ob(rid, arg.endswith("Immediate"), f"{R.owner_name(p, b)}/set_durability",
                       f"`{b.name}` commits a store transaction with durability `{arg[-40:]}` (line {c.line}): the write is acknowledged "
                       "before it is synced, so a crash after the reply restores an older channel / node state (a signed commitment "
                       "number looks new again, a revocation is forgotten)", where=f"{b.file}:{c.line}", sample=arg[-40:])
    ctx.floor(rid, "redb write transactions in vls-persist", n_tx, 3)
    ctx.ob(rid, True, "vls_persist/write-transactions-durable", "", where="vls-persist/src/kvv/redb.rs",
           sample=f"{n_tx} write transactions, none with lowered durability")


def r117(ctx):
    """`and, for the transactional store, between prepare and commit`: the local store a restart reads holds exactly the
    mutations the request reported.  Same obligations as C16 R16.3."""
    from rules import C16 as _c16
    from engine import report as _report
    _c16.r163(_report.renamed(ctx, {"R16.3": "R11.7"}))


def shared_restore(ctx, rid, why):
    """the persist / restore field agreement (R11.2) under another property's rule id; skipped (and said so) in a build
    configuration that has no persistence layer"""
    from engine import report as _report
    if not any(b.d.krate == "vls_persist" for b in ctx.prog.bodies.values()):
        ctx.rule(rid, "restart clause (persist / restore field agreement, C11 R11.2): not evaluated in this build configuration "
                      "(no persistence layer in it)")
        ctx.sample(rid, "skipped", "", "vls_persist is not part of this build configuration")
        return
    r112(_report.renamed(ctx, {"R11.2": rid}))
    ctx.rule_text[rid] = ("restart clause: " + why + " Every persisted field of channel entry (setup, enforcement state), node "
                          "state, tracker and monitors is serialised and restored into the same slot (same obligations as C11 R11.2).")


def r118(ctx):
    """the restored monitors are the stored ones (C14 R14.9)"""
    from rules import C14 as _c14
    from engine import report as _report
    _c14.r149(_report.renamed(ctx, {"R14.9": "R11.8"}))

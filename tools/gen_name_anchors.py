#!/usr/bin/env python3
"""Regenerate rules/name_anchors.json from the current (pinned, reviewed) tree: per function, the definition
fingerprint of every user-named local.  Run only when the tree is known good (it is the reference)."""
import json
import os
import sys
import time

HERE = os.path.dirname(os.path.abspath(__file__))
sys.path.insert(0, os.path.dirname(HERE))
from engine import extract, facts, anchors  # noqa: E402


def main():
    t0 = time.time()
    d, fpr, _ = extract.facts_dir("default")
    prog = facts.Program(d)
    out = {}
    n = 0
    for b in prog.bodies.values():
        if not b.file or b.mac and "derive" in (b.mac or ""):
            continue
        try:
            f = anchors.fingerprints(prog, b)
        except Exception as e:
            continue
        ps = [b.local_name(i) for i in range(1, b.argc + 1)]
        if f or any(ps):
            out[b.name] = {k: list(v) for k, v in f.items()}
            out[b.name]["%params"] = ps
            n += len(f)
    json.dump({"comment": "definition fingerprints of named locals on the reference tree; see engine/anchors.py",
               "facts_fingerprint": fpr, "functions": out}, open(anchors.ANCHORS, "w"), indent=0, sort_keys=True)
    print(f"{len(out)} functions, {n} named locals, {time.time() - t0:.0f}s")


if __name__ == "__main__":
    main()

#!/bin/bash
# regress.sh : development tool. Runs, one after the other (they all edit /repo and restore it):
#   every check on the unchanged tree (quick), every seeded defect, every self-test variant, every imported refactoring.
cd /verif
LOG=${1:-/tmp/regress.log}
: > $LOG
echo "== checks (quick)" >> $LOG
for i in $(seq -w 1 20); do ./check C$i 2>&1 | tail -1 >> $LOG; done
echo "== seeds" >> $LOG
for d in seeded/C*/; do s=$(basename $d); p=$(python3 -c "import json;print(json.load(open('seeded/$s/meta.json')).get('breaks') or json.load(open('seeded/$s/meta.json'))['property'])"); python3 tools/seed_eval.py $s --prop $p 2>&1 | grep -E "exit=" >> $LOG; done
echo "== variants" >> $LOG
python3 selftest/run_variants.py 2>&1 | grep -vE ": OK " >> $LOG
echo "== refactors" >> $LOG
for d in selftest/refactors/C*/; do python3 tools/refactor_eval.py $(basename $d) 2>&1 | grep -v ": silent" >> $LOG; done
echo "== done" >> $LOG

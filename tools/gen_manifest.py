#!/usr/bin/env python3
"""Regenerate MANIFEST.json from the rule tables present in rules/ (each declares CLAIM)."""
import importlib
import json
import os
import sys

HERE = os.path.dirname(os.path.dirname(os.path.abspath(__file__)))
sys.path.insert(0, HERE)
props = [json.loads(l) for l in open(os.path.join(HERE, "properties.jsonl"))]
checks, na = [], []
for p in props:
    pid = p["id"]
    try:
        m = importlib.import_module(f"rules.{pid}")
        claim = getattr(m, "CLAIM")
    except (ModuleNotFoundError, AttributeError):
        na.append({"property_id": pid, "reason": "static check not yet registered (rule table under construction); "
                                                   "see DESIGN.md §4 for the planned rules"})
        continue
    if claim.get("not_applicable"):
        na.append({"property_id": pid, "reason": claim["not_applicable"]})
        continue
    checks.append({
        "property_id": pid,
        "quick_cmd": f"./check {pid} --tier quick",
        "thorough_cmd": f"./check {pid} --tier thorough",
        "evidence_file": f"/verif/evidence/{pid}.json",
        "replay_cmd_template": f"./check {pid} --replay {{path}}",
        "engine": "vlsfacts+rules",
        "level_claimed": {"category": "other", "text": claim["text"], "design_ref": f"DESIGN.md §4 {pid}"},
        "level_note": claim["note"],
        "technique": claim["technique"],
    })
man = {
    "version": 1,
    "setup_cmd": "cd /verif && ./setup.sh",
    "hooks": {
        "guard": "vls_verif",
        "enable": "none needed: the checks are static (a rustc driver reads MIR of the unmodified sources); "
                  "no cfg(vls_verif) code exists in /repo",
        "baseline_off_cmd": "cd /repo && cargo test --workspace --no-fail-fast --offline",
        "source_commits": [],
        "add_only": True,
    },
    "engines": [
        {"name": "vlsfacts", "path": "/verif/driver", "serves_properties": [c["property_id"] for c in checks],
         "kind_free_text": "rustc_private driver (RUSTC_WRAPPER under cargo +nightly check, mir-opt-level 0) dumping "
                           "MIR bodies, resolved callees, impl/trait/ADT tables and evaluated associated consts"},
        {"name": "rule engines", "path": "/verif/engine", "serves_properties": [c["property_id"] for c in checks],
         "kind_free_text": "Python stdlib linker + engines: who-may-call/write (E1), must-pass-through by edge "
                           "removal (E2), scenario refusal over canonical linear atoms (E3), provenance slices (E4), "
                           "failure atomicity (E5), persist-before-ack (E6), lock order (E7), sibling agreement (E8), "
                           "registry (E9)"},
    ],
    "checks": checks,
    "not_applicable": na,
    "notes": "Technique family: static analysis only. Each check re-extracts facts from /repo's current working "
             "tree (cached by a fingerprint of all sources) and evaluates repository-specific rule tables. "
             "Exit 2 (printed as BROKEN, never as a pass) means the checker cannot decide (tree does not build, "
             "anchor function missing, fewer rule instances than confirmed by hand).",
}
json.dump(man, open(os.path.join(HERE, "MANIFEST.json"), "w"), indent=1)
print(f"{len(checks)} checks, {len(na)} not_applicable")

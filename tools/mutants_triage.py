#!/usr/bin/env python3
"""mutants_triage.py [file-substring ...] : development tool.  Reads /verif/.cache/mutants/*.jsonl (written by
tools/mutate.py), and for every mutant that built and that no selected check reported:
  1. re-applies it to the private copy and runs ALL twenty quick checks;
  2. if still unreported, runs the unit tests of the touched crate (cargo test -p <crate> --lib) on the copy.
Prints the survivors of both (mutants neither the checks nor the existing tests notice): these need a human
decision - equivalent / irrelevant to the properties / a gap in the rules.
Only weakening operators are triaged (>= -> >, <= -> <, == -> !=, != -> ==, try, persist): `>` -> `>=` and
`<` -> `<=` make a refusal condition fire more often, which cannot break a safety property.
"""
import glob
import json
import os
import subprocess
import sys
from concurrent.futures import ThreadPoolExecutor

VERIF = os.path.dirname(os.path.dirname(os.path.abspath(__file__)))
REPO = os.environ.get("MUT_REPO", "/tmp/mut_repo2")
TARGET = os.environ.get("MUT_TARGET", "/tmp/mut_target")
WEAK = {">= -> >", "<= -> <", "== -> !=", "!= -> ==", "error ignored", "persist call deleted", "&& -> ||", "|| -> &&",
        "+ 1 -> + 2", "+ 2 -> + 1", "- 1 -> - 2", "+ 1) -> + 2)", "+ 2) -> + 1)", "flag flipped"}


def sh(cmd):
    return subprocess.run(cmd, shell=True, text=True, stdout=subprocess.PIPE, stderr=subprocess.STDOUT)


def main():
    subs = sys.argv[1:]
    recs = []
    seen = set()
    for f in sorted(glob.glob(os.path.join(VERIF, ".cache", "mutants", "*.jsonl"))):
        for l in open(f):
            r = json.loads(l)
            key = (r["file"], r["line"], r["new"])
            if key in seen:
                continue
            seen.add(key)
            if r["broken"] or r["detected_by"] or not (r["what"] in WEAK or r["op"] in ("swap", "del", "move", "arith")):
                continue
            if subs and not any(s in r["file"] for s in subs):
                continue
            recs.append(r)
    done = set()
    tp = os.path.join(VERIF, ".cache", "mutants", "triage.out")
    if os.path.exists(tp):
        for l in open(tp):
            try:
                r = json.loads(l)
                done.add((r["file"], r["line"], r["new"]))
            except Exception:
                pass
    recs = [r for r in recs if (r["file"], r["line"], r["new"]) not in done]
    print(f"{len(recs)} unreported weakening mutants to triage ({len(done)} triaged earlier)")
    sh(f"rm -rf {REPO} && mkdir -p {REPO} && git -C /repo archive HEAD | tar -x -C {REPO}")
    out = open(os.path.join(VERIF, ".cache", "mutants", "triage.out"), "a")
    props = [f"C{i:02d}" for i in range(1, 21)]
    for r in recs:
        path = os.path.join(REPO, r["file"])
        src = open(path).read().split("\n")
        i = r["line"] - 1
        if src[i].strip()[:160] != r["orig"]:
            print("stale record", r["file"], r["line"])
            continue
        new = list(src)
        if r["op"] in ("persist", "del"):
            del new[i]
        elif r["op"] == "move":
            new[i] = src[i + 1]
            new[i + 1] = src[i]
        else:
            indent = src[i][:len(src[i]) - len(src[i].lstrip())]
            new[i] = indent + r["new"]
        try:
            open(path, "w").write("\n".join(new))

            def one(p):
                c = sh(f"cd {VERIF} && VLS_REPO={REPO} ./check {p} --tier quick")
                return p, c.returncode, [x.strip()[:160] for x in c.stdout.splitlines() if x.strip().startswith("rule ")]
            if os.environ.get("SKIP_CHECKS"):
                res = []        # the campaign already ran all twenty checks on this mutant
            else:
                res = [one(props[0])]
                with ThreadPoolExecutor(max_workers=8) as ex:
                    res += list(ex.map(one, props[1:]))
            det = [(p, rl[:1]) for p, rc, rl in res if rc == 1]
            tests = None
            if not det:
                crate = r["file"].split("/")[0]
                t = sh(f"cd {REPO} && CARGO_NET_OFFLINE=true CARGO_TARGET_DIR={TARGET} cargo test --offline -j 12 -p {crate} --lib 2>&1 | grep -E '^test result|FAILED|^error' | head -5")
                tests = "pass" if "test result: ok" in t.stdout and "FAILED" not in t.stdout else "fail"
        finally:
            open(path, "w").write("\n".join(src))
        line = f"{r['file']}:{r['line']} {r['what']} | {r['orig'][:100]} || checks: {[p for p, _ in det] or 'none'} tests: {tests}"
        print(line)
        out.write(json.dumps({**r, "all_checks": det, "tests": tests}) + "\n")
        out.flush()


if __name__ == "__main__":
    main()

#!/bin/bash
# regress2.sh : like regress.sh, but on a scratch worktree of /repo (/tmp/repo2, own fact cache, own evidence dir), so that
# /repo and /verif/evidence are left alone while it runs.  Development tool.
set -u
LOG=${1:-/tmp/regress2.log}
export VLS_REPO=/tmp/repo2 VERIF_CACHE=/tmp/r2cache VERIF_EVIDENCE_DIR=/tmp/r2cache/evidence
git -C /repo worktree list | grep -q /tmp/repo2 || git -C /repo worktree add --detach /tmp/repo2 HEAD -f >/dev/null 2>&1
git -C /tmp/repo2 reset -q --hard; git -C /tmp/repo2 clean -fdq; git -C /tmp/repo2 checkout -q --detach $(git -C /repo rev-parse HEAD)
mkdir -p /tmp/r2cache; [ -d /tmp/r2cache/target ] || cp -a /verif/.cache/target /tmp/r2cache/target
cd /verif
: > $LOG
echo "== checks (quick)" >> $LOG
for i in $(seq -w 1 20); do ./check C$i 2>&1 | tail -1 | cut -c1-100 >> $LOG; done
echo "== seeds" >> $LOG
for d in seeded/C*/; do s=$(basename $d); p=$(python3 -c "import json;m=json.load(open('seeded/$s/meta.json'));print(m.get('breaks') or m['property'])"); cp seeded/$s/meta.json /tmp/r2cache/meta_$s.json; python3 tools/seed_eval.py $s --prop $p 2>&1 | grep -E "exit=" >> $LOG; cp /tmp/r2cache/meta_$s.json seeded/$s/meta.json; done
echo "== variants" >> $LOG
python3 selftest/run_variants.py 2>&1 | grep -vE ": OK " >> $LOG
echo "== refactors" >> $LOG
for d in selftest/refactors/C*/; do python3 tools/refactor_eval.py $(basename $d) 2>&1 | grep -v ": silent" >> $LOG; done
echo "== done" >> $LOG

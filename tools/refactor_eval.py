#!/usr/bin/env python3
"""refactor_eval.py <Cxx> [--from <worktree>] [--all-props]: development tool.  Behaviour-preserving refactorings
written by independent sub-agents (selftest/refactors/<Cxx>/refactor_k.diff, imported from <worktree>/SEED with
--from) are applied one at a time to /repo, the property's check (or all twenty) is run, and /repo is reset.
Every VIOLATION on such a patch is a false alarm of the checker (or the patch is not behaviour-preserving: read it).
Exit 2 (BROKEN: an anchor the rule table names is gone) is reported separately."""
import glob, json, os, shutil, subprocess, sys
V = os.path.dirname(os.path.dirname(os.path.abspath(__file__)))
REPO = os.environ.get("VLS_REPO", "/repo")
# runs on a modified tree must never overwrite the registered evidence
os.environ.setdefault("VERIF_EVIDENCE_DIR", "/tmp/verif_scratch_evidence")


def sh(c):
    return subprocess.run(c, shell=True, text=True, stdout=subprocess.PIPE, stderr=subprocess.STDOUT)


def main():
    a = sys.argv[1:]
    pid = a[0]
    d = f"{V}/selftest/refactors/{pid}"
    if "--from" in a:
        wt = a[a.index("--from") + 1]
        os.makedirs(d, exist_ok=True)
        tag = a[a.index("--tag") + 1] if "--tag" in a else ""      # a second set for the same property: --tag s
        for f in sorted(glob.glob(f"{wt}/SEED/refactor_*.diff")):
            shutil.copy(f, os.path.join(d, os.path.basename(f).replace("refactor_", f"refactor_{tag}")))
        if os.path.exists(f"{wt}/SEED/refactors.md"):
            shutil.copy(f"{wt}/SEED/refactors.md", os.path.join(d, f"refactors{('_' + tag) if tag else ''}.md"))
    props = [f"C{i:02d}" for i in range(1, 21)] if "--all-props" in a else [pid]
    if sh(f"git -C {REPO} status --porcelain --untracked-files=no").stdout.strip():
        print("refusing: /repo has uncommitted changes")
        return 2
    res = {}
    only = a[a.index("--only") + 1] if "--only" in a else ""
    for f in sorted(glob.glob(f"{d}/refactor_{only}*.diff")):
        k = os.path.basename(f)
        r = sh(f"git -C {REPO} apply {f}")
        if r.returncode != 0:
            print(f"{pid}/{k}: does not apply: {r.stdout.strip()[:120]}")
            res[k] = {"applies": False}
            continue
        try:
            out = {}
            for p in props:
                c = sh(f"cd {V} && ./check {p} --tier quick")
                rules = [x.strip()[:300] for x in c.stdout.splitlines() if x.strip().startswith("rule ") or x.startswith("BROKEN")]
                out[p] = {"exit": c.returncode, "reports": rules[:6]}
                flag = {0: "silent", 1: "ALARM", 2: "BROKEN"}.get(c.returncode, "?")
                if c.returncode != 0:
                    print(f"{pid}/{k}: {p} {flag}")
                    for x in rules[:4]:
                        print("     ", x[:260])
            if all(o["exit"] == 0 for o in out.values()):
                print(f"{pid}/{k}: silent ({','.join(props) if len(props) < 4 else 'all props'})")
            res[k] = {"applies": True, "checks": out}
        finally:
            sh(f"git -C {REPO} reset -q --hard HEAD && git -C {REPO} clean -fdq")
    json.dump(res, open(f"{d}/result.json", "w"), indent=1)
    return 0


if __name__ == "__main__":
    sys.exit(main())

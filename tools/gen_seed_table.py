#!/usr/bin/env python3
"""Rewrite the seeded-defect table of DESIGN.md (§13) from seeded/*/meta.json and seeded/descriptions.json."""
import json, os, re
V = os.path.dirname(os.path.dirname(os.path.abspath(__file__)))
desc = json.load(open(f"{V}/seeded/descriptions.json"))
rows = ["| seed | property | change | rule | reported | history |", "|------|----------|--------|------|----------|---------|"]
n = miss = 0
for k in sorted(os.listdir(f"{V}/seeded")):
    mp = f"{V}/seeded/{k}/meta.json"
    if not os.path.exists(mp):
        continue
    m = json.load(open(mp)); r = m["check_result"]; n += 1
    rule = r["rules_fired"][0].split(":")[0].replace("rule ", "") if r.get("rules_fired") else "?"
    h = m.get("history", "")
    if h:
        miss += 1
    rows.append(f"| {k} | {m['property']} | {desc.get(k, '')} | {rule} | {'yes' if r['detected'] else '**no**'} | {h if h else 'at first evaluation'} |")
s = open(f"{V}/DESIGN.md").read()
a = s.index("<!-- SEEDTABLE BEGIN -->"); b = s.index("<!-- SEEDTABLE END -->")
s = s[:a] + "<!-- SEEDTABLE BEGIN -->\n" + "\n".join(rows) + "\n" + s[b:]
s = re.sub(r"\*\*Fires — seeded defects by independent agents\*\* \(§13\): \d+ changes so far", f"**Fires — seeded defects by independent agents** (§13): {n} changes so far", s)
s = re.sub(r"All \d+ are\s+reported today; \d+ were missed when first evaluated", f"All {n} are reported today; {miss} were missed (or caught only by a shape obligation) when first evaluated", s)
open(f"{V}/DESIGN.md", "w").write(s)
print(n, "seeds,", miss, "initially missed")

#!/bin/bash
# confirm_seed.sh <worktree> : re-run a seeded defect's demonstration both ways and the touched crates' tests.
# Usage inside a scratch worktree produced by a seeding sub-agent (has SEED/patch.diff, SEED/demo.diff, SEED/demo_cmd.txt)
WT=$1
cd $WT || exit 2
export CARGO_TARGET_DIR=${CONFIRM_TARGET:-$WT/target} CARGO_NET_OFFLINE=true
LOG=$WT/confirm.log
: > $LOG
git reset -q --hard HEAD 2>/dev/null
git clean -fdq -e SEED -e target -e 'confirm*' 2>/dev/null
git apply SEED/patch.diff || { echo "PATCH_APPLY_FAILED" >> $LOG; exit 1; }
git apply SEED/demo.diff || { echo "DEMO_APPLY_FAILED" >> $LOG; exit 1; }
CMD=$(grep -v '^#' SEED/demo_cmd.txt | grep cargo | head -1)
echo "demo cmd: $CMD" >> $LOG
echo "== with patch (expect FAIL)" >> $LOG
bash -c "$CMD" > $WT/confirm_with.out 2>&1; echo "rc_with=$?" >> $LOG
grep -E "^test result|panicked|FAILED" $WT/confirm_with.out | head -8 >> $LOG
git apply -R SEED/patch.diff
echo "== without patch (expect PASS)" >> $LOG
bash -c "$CMD" > $WT/confirm_without.out 2>&1; echo "rc_without=$?" >> $LOG
grep -E "^test result|panicked|FAILED" $WT/confirm_without.out | head -8 >> $LOG
# existing tests with the patch but without the demo
git checkout -q -- .
git clean -fdq -e SEED -e target -e 'confirm*' 2>/dev/null
git apply SEED/patch.diff
PKGS=$(git diff --name-only | cut -d/ -f1 | sort -u | sed 's/^/-p /' | tr '\n' ' ')
echo "== existing tests with patch only: cargo test --offline -j 8 $PKGS" >> $LOG
cargo test --offline -j 8 $PKGS > $WT/confirm_suite.out 2>&1; echo "rc_suite=$?" >> $LOG
grep -E "^test result|FAILED|failed" $WT/confirm_suite.out | head -12 >> $LOG
git checkout -q -- .
git clean -fdq -e SEED -e target -e 'confirm*' 2>/dev/null
echo DONE >> $LOG

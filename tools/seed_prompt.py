#!/usr/bin/env python3
"""seed_prompt.py <Cxx> <suffix>: create a scratch worktree /tmp/wt/<Cxx><suffix> of /repo HEAD and print the
prompt for an independent seeding sub-agent (property text only; nothing from /verif)."""
import json, subprocess, sys
pid, suf = sys.argv[1], sys.argv[2]
props = {}
for l in open('/verif/properties.jsonl'):
    l = l.strip()
    if l:
        o = json.loads(l); props[o['id']] = o
p = props[pid]
wt = f"/tmp/wt/{pid}{suf}"
subprocess.run(f"mkdir -p /tmp/wt && git -C /repo worktree add --detach {wt} HEAD -f", shell=True, stdout=subprocess.DEVNULL, stderr=subprocess.DEVNULL)
tmpl = open('/verif/tools/refactor_prompt.tmpl' if suf[0] in 'rs' else '/verif/tools/seed_prompt_g.tmpl' if suf[0] in 'gh' else ('/verif/tools/seed_prompt_d.tmpl' if suf[0] in 'def' else '/verif/tools/seed_prompt.tmpl')).read()
anch = ", ".join(p['anchors']['files']) + "; " + "; ".join(f"{m['name']} ({m['where']})" for m in p['anchors'].get('mechanism', []))
print(tmpl.replace("{WT}", wt).replace("{ID}", pid).replace("{TITLE}", p.get('title', '')).replace("{STATEMENT}", p.get('statement', ''))
      .replace("{QUANT}", p['quantifier']['text']).replace("{ANCHORS}", anch))

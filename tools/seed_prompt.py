#!/usr/bin/env python3
"""seed_prompt.py <Cxx> <suffix>: create a scratch worktree /tmp/wt/<Cxx><suffix> of /repo HEAD and print the
prompt for an independent seeding sub-agent (property text only; nothing from /verif)."""
import json, subprocess, sys
pid, suf = sys.argv[1], sys.argv[2]
FOCI = {
 'restart': "the restart / restore path: what is written to storage, how it is encoded and decoded, and how the node, channels, tracker and monitors are rebuilt from it (vls-persist, Node::new_from_persistence / restore functions, serde models).",
 'handler': "the protocol handler layer and wire conversion: vls-protocol-signer/src/handler.rs and helpers, vls-protocol model/message conversion - how request fields are converted, routed and stored before the core is called, and how replies are assembled.",
 'compute': "a helper that COMPUTES a value which some check or signature later relies on (fees, weights, depths, sums, indices, derived scripts/keys, summaries), not the check itself.",
 'sibling': "a secondary or sibling implementation / entry point: the second of two phases or backends, the less-used validator or persister, the no-std or feature-gated variant, the alternative message version - one sibling drifting from the other.",
 'undo': "undo / rollback / disconnect / error-path cleanup / removal code: what happens when something is reverted, refused halfway, removed or forgotten.",
 'twosite': "TWO cooperating edits in different functions that each look harmless alone (e.g. a helper's contract subtly changed and a caller relying on the old contract; a field's meaning shifted at the writer but not at the reader).",
 'config': "configuration, policy and feature variants: policy construction and filters, network-dependent branches, optional features, defaults, developer/permissive options - a variant under which the guarantee silently no longer holds although it should.",
 'boundary': "boundary and degenerate inputs: zero, maximum, empty or duplicate elements, first/last index, equal values, wrap-around, unusual but valid encodings - handled by code away from the main comparison.",
}
focus = FOCI.get(sys.argv[3], '') if len(sys.argv) > 3 else ''
props = {}
for l in open('/verif/properties.jsonl'):
    l = l.strip()
    if l:
        o = json.loads(l); props[o['id']] = o
p = props[pid]
wt = f"/tmp/wt/{pid}{suf}"
subprocess.run(f"mkdir -p /tmp/wt && git -C /repo worktree add --detach {wt} HEAD -f", shell=True, stdout=subprocess.DEVNULL, stderr=subprocess.DEVNULL)
if suf[0] in 'ijklrs':
    subprocess.run(f"test -d {wt}/target || cp -a /repo/target {wt}/target", shell=True)
tmpl = open('/verif/tools/seed_prompt_i.tmpl' if suf[0] in 'ijkl' else '/verif/tools/refactor_prompt.tmpl' if suf[0] in 'rs' else '/verif/tools/seed_prompt_g.tmpl' if suf[0] in 'gh' else ('/verif/tools/seed_prompt_d.tmpl' if suf[0] in 'def' else '/verif/tools/seed_prompt.tmpl')).read()
anch = ", ".join(p['anchors']['files']) + "; " + "; ".join(f"{m['name']} ({m['where']})" for m in p['anchors'].get('mechanism', []))
print(tmpl.replace("{WT}", wt).replace("{ID}", pid).replace("{TITLE}", p.get('title', '')).replace("{STATEMENT}", p.get('statement', ''))
      .replace("{QUANT}", p['quantifier']['text']).replace("{ANCHORS}", anch).replace("{FOCUS}", focus))

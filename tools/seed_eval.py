#!/usr/bin/env python3
"""seed_eval.py <dir-name> [--prop Cxx] [--from /tmp/wt/<id>]

1. (with --from) import a confirmed seeded defect from a sub-agent's scratch worktree into
   /verif/seeded/<dir-name>/ (patch.diff, demo.diff, demo_cmd.txt, notes.md, confirm.log, meta.json);
2. apply patch.diff to /repo's working tree, run ./check <prop> --tier quick, record whether the
   violation is reported, and ALWAYS revert /repo (git checkout -- .).
"""
import json
import os
import re
import shutil
import subprocess
import sys
import time

REPO = os.environ.get("VLS_REPO", "/repo")
# runs on a modified tree must never overwrite the registered evidence
os.environ.setdefault("VERIF_EVIDENCE_DIR", "/tmp/verif_scratch_evidence")
VERIF = os.path.dirname(os.path.dirname(os.path.abspath(__file__)))


def sh(cmd):
    return subprocess.run(cmd, shell=True, text=True, stdout=subprocess.PIPE, stderr=subprocess.STDOUT)


def main():
    a = sys.argv[1:]
    name = a[0]
    prop = a[a.index("--prop") + 1] if "--prop" in a else name[:3]
    src = a[a.index("--from") + 1] if "--from" in a else None
    d = os.path.join(VERIF, "seeded", name)
    os.makedirs(d, exist_ok=True)
    meta_p = os.path.join(d, "meta.json")
    meta = json.load(open(meta_p)) if os.path.exists(meta_p) else {}
    if src:
        for f in ("patch.diff", "demo.diff", "demo_cmd.txt", "notes.md"):
            shutil.copy(os.path.join(src, "SEED", f), os.path.join(d, f))
        if os.path.exists(os.path.join(src, "confirm.log")):
            shutil.copy(os.path.join(src, "confirm.log"), os.path.join(d, "confirm.log"))
        log = open(os.path.join(d, "confirm.log")).read() if os.path.exists(os.path.join(d, "confirm.log")) else ""
        rc = dict(re.findall(r"(rc_\w+)=(\d+)", log))
        notes = open(os.path.join(d, "notes.md")).read()
        meta.update({
            "property": prop,
            "origin": "independent sub-agent given only the property text and its own scratch worktree",
            "confirmed_by_me": {
                "how": "tools/confirm_seed.sh in the scratch worktree: demo with patch, demo without patch, "
                       "touched crates' existing tests with patch only",
                "demo_with_patch_rc": rc.get("rc_with"), "demo_without_patch_rc": rc.get("rc_without"),
                "existing_suite_with_patch_rc": rc.get("rc_suite"),
                "ok": rc.get("rc_with") not in (None, "0") and rc.get("rc_without") == "0" and rc.get("rc_suite") == "0",
            },
            "needs_to_manifest": (re.search(r"(?is)(what it takes|manifest|sequence)[^\n]*\n(.{0,900})", notes) or [None, None, ""])[2].strip()[:900],
        })
    # evaluate
    if sh(f"git -C {REPO} status --porcelain --untracked-files=no").stdout.strip():
        print("refusing: /repo dirty")
        return 2
    patch = "patch_rebased.diff" if os.path.exists(os.path.join(d, "patch_rebased.diff")) else "patch.diff"
    r = sh(f"git -C {REPO} apply --check {d}/{patch}")
    applied_how = "git apply"
    if r.returncode != 0:
        r2 = sh(f"git -C {REPO} apply --3way {d}/{patch}")
        applied_how = "git apply --3way"
        if r2.returncode != 0:
            sh(f"git -C {REPO} reset -q --hard HEAD")
            meta["check_result"] = {"applies": False, "why": r.stdout[-400:]}
            json.dump(meta, open(meta_p, "w"), indent=1)
            print(f"{name}: patch does not apply on current /repo HEAD: {r.stdout[-300:]}")
            return 1
    else:
        sh(f"git -C {REPO} apply {d}/{patch}")
    t0 = time.time()
    try:
        c = sh(f"cd {VERIF} && ./check {prop} --tier quick")
    finally:
        sh(f"git -C {REPO} reset -q --hard HEAD")
    viol = [l for l in c.stdout.splitlines() if l.startswith("VIOLATION")]
    rules = [l.strip() for l in c.stdout.splitlines() if l.strip().startswith("rule ")]
    meta["check_result"] = {
        "applies": True, "applied_with": applied_how, "patch_file": patch, "cmd": f"./check {prop} --tier quick", "exit": c.returncode,
        "detected": c.returncode == 1 and bool(viol), "violations": len(viol), "rules_fired": [x[:260] for x in rules[:6]],
        "wall_s": round(time.time() - t0, 1), "at_repo_head": sh(f"git -C {REPO} rev-parse --short HEAD").stdout.strip(),
    }
    json.dump(meta, open(meta_p, "w"), indent=1)
    print(f"{name}: exit={c.returncode} detected={meta['check_result']['detected']} ({len(viol)} violations)")
    for x in rules[:4]:
        print("   ", x[:240])
    if c.returncode == 2:
        print(c.stdout[-600:])
    return 0


if __name__ == "__main__":
    sys.exit(main())

#!/usr/bin/env python3
"""Regenerate rules/known_functions.json: the names of all functions (not closures) that exist on the current
(pinned, reviewed) tree, over every build configuration.  engine/inline.py inlines calls of functions that are not
in this list (helpers introduced by a later change).  Run only when the tree is known good (it is the reference)."""
import json
import os
import sys

HERE = os.path.dirname(os.path.abspath(__file__))
sys.path.insert(0, os.path.dirname(HERE))
from engine import extract, facts, inline  # noqa: E402


def main():
    names = set()
    consts = set()
    sigs = {}
    if os.path.exists(inline.KNOWN):
        os.remove(inline.KNOWN)
    for cfg in extract.CONFIGS:
        d, fpr, _ = extract.facts_dir(cfg)
        prog = facts.Program(d)
        for b in prog.bodies.values():
            if b.d.kind != "Closure" and b.d.local:
                names.add(b.name)
                sigs[b.name] = inline.signature(b)
        for k in prog.consts:
            consts.add(prog.defs[k].name)
        for d_ in prog.defs.values():
            if d_.kind.startswith(("Const", "AssocConst", "Static")):
                consts.add(d_.name)
    json.dump({"comment": "functions of the reference tree (all build configurations); see engine/inline.py",
               "functions": sorted(names), "consts": sorted(consts), "signatures": sigs}, open(inline.KNOWN, "w"), indent=0)
    print(len(names), "functions,", len(consts), "constants")


if __name__ == "__main__":
    main()

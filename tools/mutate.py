#!/usr/bin/env python3
"""mutate.py <file> [--props C01,C02] [--max N] [--seed S] [--ops cmp,try,persist] : development tool (NOT a
registered check).  Generates small first-order mutants of one source file of /repo (non-test part only), applies
each to a private copy of /repo's committed tree (MUT_REPO, default /tmp/mut_repo), runs the given property checks (quick tier) and records which rule, if any, reports
it; /repo is restored after every mutant.  Output: /verif/.cache/mutants/<file>.jsonl (one line per mutant).

Operators
  cmp     : one comparison operator in an `if`/`while`/`assert` condition shifted or flipped (> <-> >=, < <-> <=, == <-> !=)
  try     : `expr?;` statement turned into `let _ = expr;` (error ignored)
  persist : a statement that calls persist / update_* on the persister deleted
A mutant that does not build shows up as exit 2 (BROKEN) and is ignored by the summary.
"""
import json
import os
import random
import re
import subprocess
import sys
import time
from concurrent.futures import ThreadPoolExecutor

VERIF = os.path.dirname(os.path.dirname(os.path.abspath(__file__)))
REPO = os.environ.get("MUT_REPO", "/tmp/mut_repo")   # a private copy; /repo itself is never touched


def sh(cmd):
    return subprocess.run(cmd, shell=True, text=True, stdout=subprocess.PIPE, stderr=subprocess.STDOUT)


def non_test_end(lines):
    for i, l in enumerate(lines):
        if re.match(r"^(pub )?mod tests?\b", l):
            return i
    return len(lines)


SWAPS = [("holder", "counterparty"), ("counterparty", "holder"), ("local", "remote"), ("remote", "local"),
         ("offered", "received"), ("received", "offered"), ("min", "max"), ("max", "min"),
         ("commit_num", "revoke_num"), ("revoke_num", "commit_num"), ("broadcaster", "countersigner"),
         ("countersigner", "broadcaster")]
ARITH = [(" + ", " - "), (" - ", " + "), (" * ", " / "), (" / ", " * "), ("saturating_sub(", "saturating_add("),
         ("saturating_add(", "saturating_sub("), ("checked_add(", "checked_sub("), ("checked_sub(", "checked_add("),
         (".min(", ".max("), (".max(", ".min("), (" as u32", " as u16"), (" as u64", " as u32 as u64")]
CMP = [(" >= ", " > "), (" <= ", " < "), (" > ", " >= "), (" < ", " <= "), (" == ", " != "), (" != ", " == ")]


def mutants(path, ops):
    src = open(path).read().split("\n")
    end = non_test_end(src)
    out = []
    for i in range(end):
        l = src[i]
        s = l.strip()
        if s.startswith("//") or s.startswith("#[") or "debug!" in l or "info!" in l or "warn!" in l or "error!" in l or "trace!" in l:
            continue
        if "cmp" in ops and re.search(r"\b(if|while|else if)\b|assert", l) and "->" not in l and "=>" not in l:
            for a, b in CMP:
                for m in re.finditer(re.escape(a), l):
                    # skip generics / shifts
                    out.append(("cmp", i, l[:m.start()] + b + l[m.end():], f"{a.strip()} -> {b.strip()}"))
        if "bool" in ops and re.search(r"\b(if|while|else if)\b", l) and "=>" not in l:
            for a, b in ((" && ", " || "), (" || ", " && ")):
                for m in re.finditer(re.escape(a), l):
                    out.append(("bool", i, l[:m.start()] + b + l[m.end():], f"{a.strip()} -> {b.strip()}"))
        if "const" in ops and re.search(r"\b(if|while|else if)\b", l) and "=>" not in l:
            for a, b in ((" + 1 ", " + 2 "), (" + 2 ", " + 1 "), (" - 1 ", " - 2 "), (" + 1)", " + 2)"), (" + 2)", " + 1)")):
                for m in re.finditer(re.escape(a), l):
                    out.append(("const", i, l[:m.start()] + b + l[m.end():], f"{a.strip()} -> {b.strip()}"))
        if "flag" in ops and re.match(r"^\s*[A-Za-z_][\w\.]* = (true|false);\s*$", l) and "let " not in l:
            nl = l.replace("= true;", "= FALSE;").replace("= false;", "= true;").replace("= FALSE;", "= false;")
            out.append(("flag", i, nl, "flag flipped"))
        if "try" in ops and re.match(r"^\s*[A-Za-z_][\w\.\(\)&:, \*]*\)\?;\s*$", l) and "let " not in l and "=" not in l:
            out.append(("try", i, re.sub(r"^(\s*)(.*)\?;\s*$", r"\1let _ = \2;", l), "error ignored"))
        if "arith" in ops and not re.match(r"^\s*(pub |fn |//|#)", l) and "=>" not in l and "->" not in l:
            for a, b in ARITH:
                for m in re.finditer(re.escape(a), l):
                    out.append(("arith", i, l[:m.start()] + b + l[m.end():], f"arith: {a.strip()} -> {b.strip()}"))
        if "swap" in ops and not re.match(r"^\s*(pub |fn |let |//|#)", l):
            # role swap on a field / method access: `.holder_x` <-> `.counterparty_x`, local/remote, offered/received, min/max
            for a, b in SWAPS:
                for m in re.finditer(r"\.((?:\w*_)?)" + a + r"((?:_\w*)?)\b", l):
                    new_ident = "." + m.group(1) + b + m.group(2)
                    out.append(("swap", i, l[:m.start()] + new_ident + l[m.end():], f"role swapped: {m.group(0)} -> {new_ident}"))
        if "del" in ops and re.match(r"^\s*[A-Za-z_][\w\.\(\)&:, \*\[\]\+\-]*\)\?;\s*$", l) and "let " not in l and " = " not in l:
            out.append(("del", i, "", "guard call deleted"))
        if "del" in ops and re.match(r"^\s*(self|state|estate|enforcement_state)\.[\w\.]+ = [^;]+;\s*$", l):
            out.append(("del", i, "", "state update deleted"))
        if "move" in ops and i + 1 < end and re.match(r"^\s*[A-Za-z_][\w\.\(\)&:, \*\[\]\+\-]*\)\?;\s*$", l) and "let " not in l \
           and re.match(r"^\s*[A-Za-z_][^{}]*;\s*$", src[i + 1]) and "let " not in src[i + 1] and "return" not in src[i + 1]:
            out.append(("move", i, src[i + 1] + "\n" + l, "guard moved after the next statement"))
        if "persist" in ops and re.match(r"^\s*self\.persist\(\)\?;\s*$", l):
            out.append(("persist", i, "", "persist call deleted"))
    return src, out


def run_checks(props):
    def one(p):
        r = sh(f"cd {VERIF} && VLS_REPO={REPO} ./check {p} --tier quick")
        rules = [x.strip()[:200] for x in r.stdout.splitlines() if x.strip().startswith("rule ")]
        return p, r.returncode, rules
    # first one alone (does the extraction), the rest in parallel
    res = [one(props[0])]
    if res[0][1] == 2 and any("does not build" in x for x in [sh(f"cd {VERIF} && ./check {props[0]} 2>&1 | tail -3").stdout]):
        return res
    with ThreadPoolExecutor(max_workers=8) as ex:
        res += list(ex.map(one, props[1:]))
    return res


def main():
    a = sys.argv[1:]
    f = a[0]
    props = (a[a.index("--props") + 1].split(",") if "--props" in a else [f"C{i:02d}" for i in range(1, 21)])
    mx = int(a[a.index("--max") + 1]) if "--max" in a else 30
    seed = int(a[a.index("--seed") + 1]) if "--seed" in a else 1
    ops = a[a.index("--ops") + 1].split(",") if "--ops" in a else ["cmp", "try", "persist"]
    path = os.path.join(REPO, f)
    # fresh private copy of the committed tree
    sh(f"rm -rf {REPO} && mkdir -p {REPO} && git -C /repo archive HEAD | tar -x -C {REPO}")
    src, ms = mutants(path, ops)
    random.Random(seed).shuffle(ms)
    ms = ms[:mx]
    os.makedirs(os.path.join(VERIF, ".cache", "mutants"), exist_ok=True)
    outp = os.path.join(VERIF, ".cache", "mutants", f.replace("/", "_") + ".jsonl")
    with open(outp, "a") as fh:
        for k, (op, i, newline, what) in enumerate(ms):
            t0 = time.time()
            new = list(src)
            if op in ("persist", "del"):
                del new[i]
            elif op == "move":
                new[i] = newline
                del new[i + 1]
            else:
                new[i] = newline
            try:
                open(path, "w").write("\n".join(new))
                res = run_checks(props)
            finally:
                open(path, "w").write("\n".join(src))
            broken = any(rc == 2 for _, rc, _ in res)
            det = [(p, r[:2]) for p, rc, r in res if rc == 1]
            rec = {"file": f, "line": i + 1, "op": op, "what": what, "orig": src[i].strip()[:160], "new": newline.strip()[:160],
                   "broken": broken, "detected_by": det, "wall_s": round(time.time() - t0, 1)}
            fh.write(json.dumps(rec) + "\n")
            fh.flush()
            print(f"[{k + 1}/{len(ms)}] {f}:{i + 1} {op} {what}: " + ("BROKEN" if broken and not det else (", ".join(p for p, _ in det) if det else "undetected"))
                  + f"  | {src[i].strip()[:90]}")
    return 0


if __name__ == "__main__":
    sys.exit(main())

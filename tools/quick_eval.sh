#!/bin/bash
# quick_eval.sh <patch-file> <Cxx> [more props] : apply a patch to /repo, run the quick check(s), always revert (development tool)
P=$1; shift
export VERIF_EVIDENCE_DIR=${VERIF_EVIDENCE_DIR:-/tmp/verif_scratch_evidence}   # never overwrite the registered evidence
cd /repo || exit 2
[ -z "$(git status --porcelain --untracked-files=no)" ] || { echo "refusing: /repo dirty"; exit 2; }
git apply "$P" || git apply -3 "$P" || { echo APPLY_FAILED; git reset -q --hard HEAD; exit 2; }
for p in "$@"; do (cd /verif && ./check $p 2>&1 | grep -E "^  rule|^C[0-9]+ \[|BROKEN|anchor" | cut -c1-400 | head -8); done
git reset -q --hard HEAD; git status --porcelain --untracked-files=no | head -3

#!/usr/bin/env python3
"""Checker self-test: apply one textual variant to /repo's working tree, run the property's
check, compare with the expectation, and revert (git checkout).  Variants are either
`violation` (the named rule must fire, naming the instance) or `silent` (behaviour-preserving
rewrite: the check must stay quiet).  Never leaves /repo modified.

usage: run_variants.py [--prop Cxx] [id ...]
"""
import json
import os
import subprocess
import sys
import time

HERE = os.path.dirname(os.path.abspath(__file__))
VERIF = os.path.dirname(HERE)
REPO = os.environ.get("VLS_REPO", "/repo")
# runs on a modified tree must never overwrite the registered evidence
os.environ.setdefault("VERIF_EVIDENCE_DIR", "/tmp/verif_scratch_evidence")


def sh(cmd, **kw):
    return subprocess.run(cmd, shell=True, text=True, stdout=subprocess.PIPE, stderr=subprocess.STDOUT, **kw)


def main():
    args = sys.argv[1:]
    prop = None
    if "--prop" in args:
        i = args.index("--prop")
        prop = args[i + 1]
        del args[i:i + 2]
    vs = json.load(open(os.path.join(HERE, "variants.json")))
    if sh(f"git -C {REPO} status --porcelain --untracked-files=no").stdout.strip():
        print("refusing: /repo has uncommitted changes")
        return 2
    sel = [v for v in vs if (not args or v["id"] in args) and (prop is None or v["property"] == prop)]
    bad = 0
    for v in sel:
        t0 = time.time()
        try:
            for ed in v["edits"]:
                path = os.path.join(REPO, ed["file"])
                src = open(path).read()
                if "rename" in ed:
                    # rename a local inside one function: text from fn_start to the end of that item
                    import re
                    i = src.find(ed["fn_start"])
                    if i < 0 or src.count(ed["fn_start"]) != 1:
                        print(f"{v['id']}: SKIP-BROKEN fn_start occurs {src.count(ed['fn_start'])}x")
                        raise KeyError
                    indent = len(src[:i]) - len(src[:i].rstrip(" "))
                    m = re.search(r"\n" + " " * indent + r"}\n", src[i:])
                    j = i + m.end()
                    old, new = ed["rename"]
                    body, k = re.subn(r"\b" + re.escape(old) + r"\b", new, src[i:j])
                    if k < 2:
                        print(f"{v['id']}: SKIP-BROKEN `{old}` occurs {k}x in the function")
                        raise KeyError
                    open(path, "w").write(src[:i] + body + src[j:])
                    continue
                if src.count(ed["find"]) != ed.get("count", 1):
                    print(f"{v['id']}: SKIP-BROKEN find string occurs {src.count(ed['find'])}x in {ed['file']}")
                    raise KeyError
                open(path, "w").write(src.replace(ed["find"], ed["replace"]))
            r = sh(f"cd {VERIF} && ./check {v['property']} --tier quick")
            out = r.stdout
            viol = [l for l in out.splitlines() if l.startswith("VIOLATION")]
            if v["expect"] == "violation":
                ok = r.returncode == 1 and viol and all(k in out for k in v.get("expect_in_output", []))
            else:
                ok = r.returncode == 0 and not viol
            print(f"{v['id']}: {'OK' if ok else 'MISMATCH'} expect={v['expect']} rc={r.returncode} "
                  f"violations={len(viol)} ({time.time() - t0:.0f}s)  {v.get('note', '')}")
            if not ok:
                bad += 1
                print("\n".join("    " + l for l in out.splitlines()[-25:]))
        except KeyError:
            bad += 1
        finally:
            sh(f"git -C {REPO} checkout -- .")
    print(f"{len(sel) - bad}/{len(sel)} variants behaved as expected")
    return 1 if bad else 0


if __name__ == "__main__":
    sys.exit(main())
